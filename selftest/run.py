"""./check selftest [substring ...] : sensitivity and robustness of the deductive tier, measured on scratch copies of /repo HEAD."""
import json, os, shutil, subprocess, sys, tempfile, time
from pyvc import driver

ROOT = os.path.dirname(os.path.dirname(os.path.abspath(__file__)))


def main(argv):
    spec = json.load(open(os.path.join(ROOT, 'selftest', 'mutants.json')))['mutants']
    if argv:
        spec = [m for m in spec if any(a in m['function'] or a in m['module'] for a in argv)]
    bad = 0
    for m in spec:
        d = tempfile.mkdtemp(prefix='selftest_', dir='/tmp')
        try:
            subprocess.run('git -C /repo archive HEAD | tar -x -C %s' % d, shell=True, check=True)
            p = os.path.join(d, m['file'])
            s = open(p).read()
            assert m['old'] in s, 'pattern not found: %s %s' % (m['file'], m['old'][:40])
            open(p, 'w').write(s.replace(m['old'], m['new'], 1))
            env = dict(os.environ, VERIF_REPO=d, PYTHONPATH='%s:%s' % (ROOT, d))
            t0 = time.time()
            out = subprocess.run([sys.executable, '-c', 'import json,sys,importlib\nfrom pyvc import driver\nM=importlib.import_module(sys.argv[1]).M\n'
                                  'only=[q for q in M.contracts if q.endswith("."+sys.argv[2])] if len(M.contracts)>25 else None\n'
                                  'r=driver.verify_modules([sys.argv[1]], only=only or None)\n'
                                  'print(json.dumps(dict(failed=[(o["name"],o["status"]) for o in r["obligations"] if o["status"]!="discharged"], outside=r["outside_subset"], errors=r["errors"])))',
                                  m['module'], m['function']], env=env, capture_output=True, text=True, cwd=ROOT)
            r = json.loads(out.stdout.strip().splitlines()[-1])
            hit = [n for n, s_ in r['failed'] if m['function'] in n] + [o for o in r['outside'] if m['function'] in o]
            other = [n for n, s_ in r['failed'] if m['function'] not in n]
            ok = (bool(hit) if m['expect'] == 'fail' else not r['failed'] and not r['outside']) and not r['errors']
            bad += 0 if ok else 1
            print('%-4s %-6s %-46s %5.0fs  %s' % ('ok' if ok else 'BAD', m['expect'], m['function'], time.time() - t0,
                                                    (hit[:2] or r['errors'][:1] or other[:2])), flush=True)
        finally:
            shutil.rmtree(d, ignore_errors=True)
    print('%d of %d behave as expected' % (len(spec) - bad, len(spec)))
    return 0 if bad == 0 else 1
