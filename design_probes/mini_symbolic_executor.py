# Throw-away prototype: ast -> z3 symbolic executor on REAL source, sidecar contracts, loop cut at invariant.
import ast, sys, time, copy
from z3 import *

def get_func(path, qual):
    tree = ast.parse(open(path).read()); parts = qual.split('.')
    body = tree.body
    for p in parts:
        for n in body:
            if isinstance(n, (ast.ClassDef, ast.FunctionDef)) and n.name == p:
                node = n; body = n.body; break
        else: raise KeyError(qual)
    return node

class Path:
    def __init__(s): s.env = {}; s.pc = []; s.heap = {}; s.obl = []
    def fork(s): p = Path(); p.env = dict(s.env); p.pc = list(s.pc); p.heap = dict(s.heap); p.obl = s.obl; return p

class SE:
    """calls: dict source-text -> fn(se, path, argvalues) giving the callee's contract; loops: ordinal -> invariant spec"""
    def __init__(s, calls, loops, attrs): s.calls = calls; s.loops = loops; s.attrs = attrs; s.loop_no = 0; s.obligations = []
    def truth(s, v): return v if is_bool(v) else (v != 0)
    def ev(s, e, p):
        src = ast.unparse(e)
        if src in s.calls: return s.calls[src](s, p)
        if isinstance(e, ast.Constant): return IntVal(e.value) if isinstance(e.value, int) and not isinstance(e.value, bool) else BoolVal(e.value)
        if isinstance(e, ast.Name): return p.env[e.id]
        if isinstance(e, ast.Attribute):
            base = s.ev(e.value, p); return s.attrs[e.attr](p, base)
        if isinstance(e, ast.BoolOp):
            vs = [s.truth(s.ev(v, p)) for v in e.values]; return And(vs) if isinstance(e.op, ast.And) else Or(vs)
        if isinstance(e, ast.UnaryOp) and isinstance(e.op, ast.Not): return Not(s.truth(s.ev(e.operand, p)))
        if isinstance(e, ast.BinOp):
            l, r = s.ev(e.left, p), s.ev(e.right, p)
            return {ast.Add: l + r, ast.Sub: l - r}[type(e.op)]
        if isinstance(e, ast.Compare) and len(e.ops) == 1:
            l, r = s.ev(e.left, p), s.ev(e.comparators[0], p)
            return {ast.Lt: l < r, ast.LtE: l <= r, ast.Gt: l > r, ast.GtE: l >= r, ast.Eq: l == r, ast.NotEq: l != r}[type(e.ops[0])]
        if isinstance(e, ast.Call) and isinstance(e.func, ast.Name) and e.func.id == 'len':
            return s.ev(e.args[0], p)['len']
        raise NotImplementedError(src)
    def run(s, stmts, p):
        """returns list of (path, outcome) ; outcome None = fallthrough, ('return', v)"""
        paths = [(p, None)]
        for st in stmts:
            nxt = []
            for (q, out) in paths:
                if out is not None: nxt.append((q, out)); continue
                nxt.extend(s.step(st, q))
            paths = nxt
        return paths
    def step(s, st, p):
        if isinstance(st, ast.Expr):
            if isinstance(st.value, ast.Constant): return [(p, None)]                       # docstring
            if ast.unparse(st.value).startswith('logger.'): return [(p, None)]              # A-LOG
            s.ev(st.value, p); return [(p, None)]
        if isinstance(st, ast.Assign) and isinstance(st.targets[0], ast.Name):
            p.env[st.targets[0].id] = s.ev(st.value, p); return [(p, None)]
        if isinstance(st, ast.Assign) and isinstance(st.targets[0], ast.Attribute):
            base = s.ev(st.targets[0].value, p); f = st.targets[0].attr
            p.heap[f] = Store(p.heap[f], base, s.ev(st.value, p)); return [(p, None)]
        if isinstance(st, ast.AugAssign) and isinstance(st.op, ast.Add):
            p.env[st.target.id] = p.env[st.target.id] + s.ev(st.value, p); return [(p, None)]
        if isinstance(st, ast.Return): return [(p, ('return', s.ev(st.value, p)))]
        if isinstance(st, ast.If):
            c = s.truth(s.ev(st.test, p)); a = p.fork(); b = p.fork(); a.pc.append(c); b.pc.append(Not(c))
            return s.run(st.body, a) + s.run(st.orelse, b)
        if isinstance(st, ast.For):
            k = s.loop_no; s.loop_no += 1; spec = s.loops[k]
            seq = s.ev(st.iter, p)                                   # {'len': n, 'at': fn}
            modified = sorted({t.id for n in ast.walk(st) for t in ([n.target] if isinstance(n, ast.AugAssign) else getattr(n, 'targets', [])) if isinstance(t, ast.Name)})
            s.obligations.append(('loop%d::invariant-init' % k, list(p.pc), spec['inv'](p.env, IntVal(0), seq)))
            h = p.fork(); i = Int('i%d' % k)
            for v in modified: h.env[v] = Int('%s_h%d' % (v, k))     # havoc (ints only in the prototype)
            h.pc += [i >= 0, i <= seq['len'], spec['inv'](h.env, i, seq)]
            body = h.fork(); body.pc.append(i < seq['len']); body.env[st.target.id] = seq['at'](i)
            for (q, out) in s.run(st.body, body):
                assert out is None
                s.obligations.append(('loop%d::invariant-preserved' % k, list(q.pc), spec['inv'](q.env, i + 1, seq)))
            ex = h.fork(); ex.pc.append(i == seq['len']); return [(ex, None)]
        raise NotImplementedError(ast.dump(st)[:80])

def discharge(name, hyps, goal, axioms=()):
    sol = Solver(); sol.set('timeout', 10000); sol.add(*axioms); sol.add(*hyps); sol.add(Not(goal))
    t = time.time(); r = sol.check()
    return name, r, time.time() - t, (sol.model() if r == sat else None)

def verify_check_link_integrity(repo):
    fn = get_func(repo + '/xtuml/consistency_check.py', 'check_link_integrity')
    Ref = DeclareSort('Ref'); pool = Function('pool', IntSort(), Ref); n = Int('n'); npart = Function('npart', Ref, IntSort())
    cond = Function('conditional', Ref, BoolSort()); many = Function('many', Ref, BoolSort()); link = Const('link', Ref)
    x = Const('x', Ref); k = Int('k')
    viol = lambda x: Not(And(If(cond(link), 0, 1) <= npart(x), Or(many(link), npart(x) <= 1)))      # spec: count outside [lo, hi]
    cnt = Function('cnt', IntSort(), IntSort())
    axioms = [n >= 0, ForAll([x], npart(x) >= 0), cnt(0) == 0, ForAll([k], Implies(k >= 0, cnt(k + 1) == cnt(k) + If(viol(pool(k)), 1, 0)))]
    calls = {'link.from_metaclass.select_many()': lambda se, p: {'len': n, 'at': lambda i: pool(i)},       # contract of select_many (C09)
             'list(link.navigate(inst))': lambda se, p: {'len': npart(p.env['inst'])}}                    # contract of Link.navigate (C02)
    attrs = {'conditional': lambda p, b: cond(b), 'many': lambda p, b: many(b)}
    loops = {0: {'inv': lambda env, i, seq: env['res'] == cnt(i)}}
    se = SE(calls, loops, attrs); p = Path(); p.env = {'link': link, 'm': Const('m', Ref)}
    outs = se.run(fn.body, p)
    for (q, out) in outs:
        se.obligations.append(('postcondition', list(q.pc), out[1] == cnt(n)))
    res = [discharge(nm, h, g, axioms) for nm, h, g in se.obligations]
    return res, (npart, cond, many, link, pool)

def verify_integer_generator(repo):
    # IntegerGenerator: wf: _current == k + 1 ; next: result == old + ... ; peek: modifies nothing
    path = repo + '/xtuml/tools.py'
    nxt = get_func(path, 'IdGenerator.next'); peek = get_func(path, 'IdGenerator.peek'); rf = get_func(path, 'IntegerGenerator.readfunc')
    Ref = DeclareSort('Obj'); self_ = Const('self', Ref); cur0 = Array('_current0', Ref, IntSort()); kk = Int('kcalls')
    out = []
    def run(fn, extra_calls=None):
        calls = {'self.readfunc()': lambda se, p: run_rf(p)}
        attrs = {'_current': lambda p, b: p.heap['_current'][b]}
        se = SE(calls, {}, attrs); p = Path(); p.env = {'self': self_}; p.heap = {'_current': cur0}
        return se, se.run(fn.body, p)
    def run_rf(p):
        se = SE({}, {}, {'_current': lambda pp, b: pp.heap['_current'][b]}); q = p.fork()
        (q2, o), = se.run(rf.body, q); return o[1]
    pre = [cur0[self_] == kk + 1]
    se, ((q, o),) = run(nxt)
    out.append(discharge('next::result==k+1', pre, o[1] == kk + 1))
    out.append(discharge('next::wf-preserved', pre, q.heap['_current'][self_] == (kk + 1) + 1))
    out.append(discharge('next::frame(other objects)', pre, ForAll([Const('o', Ref)], Implies(Const('o', Ref) != self_, q.heap['_current'][Const('o', Ref)] == cur0[Const('o', Ref)]))))
    se, ((q, o),) = run(peek)
    out.append(discharge('peek::result==k+1', pre, o[1] == kk + 1))
    out.append(discharge('peek::modifies-nothing', pre, q.heap['_current'] == cur0))
    return out

if __name__ == '__main__':
    repo = sys.argv[1]
    res, syms = verify_check_link_integrity(repo)
    for nm, r, t, m in res:
        print('check_link_integrity::%-28s %-8s %.3fs' % (nm, 'PROVED' if r == unsat else str(r).upper(), t))
        if m is not None:
            npart, cond, many, link, pool = syms
            inst = [d for d in m.decls() if d.name().startswith('inst') or d.name() == 'i0']
            print('     counterexample: conditional=%s many=%s' % (m.eval(cond(link)), m.eval(many(link))), ' partners of the visited instance =', m.eval(npart(pool(m.eval(Int('i0'), True)))))
    for nm, r, t, m in verify_integer_generator(repo):
        print('IntegerGenerator::%-32s %-8s %.3fs' % (nm, 'PROVED' if r == unsat else str(r).upper(), t))
