from z3 import *
import time
def prove(name, hyps, goal, to=10000):
    s = Solver(); s.set('timeout', to); s.add(hyps); s.add(Not(goal)); t=time.time(); r = s.check()
    print('%-44s %s %.2fs' % (name, 'PROVED' if r == unsat else str(r).upper(), time.time()-t)); return s if r==sat else None
n = Int('n'); s = String('s')
fmt_d = lambda n: If(n >= 0, IntToStr(n), Concat(StringVal('-'), IntToStr(-n)))
py_int = lambda s: If(PrefixOf(StringVal('-'), s), -StrToInt(SubString(s, 1, Length(s)-1)), StrToInt(s))
prove('int(fmt_d(n)) == n  (all ints)', [], py_int(fmt_d(n)) == n)
# BOOLEAN codec: '%d' % int(v) ; isdigit -> bool(int(value))
b = Bool('b')
enc = IntToStr(If(b, 1, 0))
prove('bool codec', [], (StrToInt(enc) != 0) == b)
# serialize dispatch: null value of same type; mutant: null of INTEGER table entry used for STRING...
# regex case-closure equivalence: END_IF  [Ee][Nn][Dd][\s]+[Ii][Ff]
def ci(word): 
    r = None
    for ch in word:
        alt = Union(Re(ch.lower()), Re(ch.upper())) if ch.isalpha() else Re(ch)
        r = alt if r is None else Concat(r, alt)
    return r
ws = Plus(Union(Re(' '), Re('\t'), Re('\n'), Re('\r'), Re('\x0b'), Re('\x0c')))
r_real = Concat(ci('end'), ws, ci('if'))
# mutant: [Ee][Nn][Dd]\s+[Ii]f
r_mut = Concat(ci('end'), ws, Union(Re('i'), Re('I')), Re('f'))
x = String('x'); y = String('y')
# closure property: x in L and y is a case variant of x => y in L. Encode case-variant via same length & per-position... use spec regex instead:
prove('END_IF equals its case closure', [], InRe(x, r_real) == InRe(x, Concat(ci('END'), ws, ci('IF'))))
m = prove('MUTANT END_IF equals closure', [], InRe(x, r_mut) == InRe(x, Concat(ci('END'), ws, ci('IF'))))
if m: print('   cex:', m.model()[x])
# escape lemma instance check (z3 replace_all): unesc(esc(s)) == s -- expected to be hard
esc = lambda s: StrReplaceAll(s, StringVal("'"), StringVal("''")) if 'StrReplaceAll' in globals() else None
try:
    from z3 import ReplaceAll
    E = lambda s: ReplaceAll(s, StringVal("'"), StringVal("''")); Un = lambda s: ReplaceAll(s, StringVal("''"), StringVal("'"))
    prove('L-ESC unesc(esc(s)) == s (expected hard)', [], Un(E(s)) == s, 15000)
    prove('L-ESC bounded len<=3', [Length(s) <= 3], Un(E(s)) == s, 15000)
except Exception as e: print('replace_all n/a', e)
