import xtuml, logging
from xtuml import navigate_many as many, navigate_one as one
# C02: relate atomicity on M:1
m = xtuml.MetaModel(xtuml.IntegerGenerator())
m.define_class('A', [('Id','unique_id')])
m.define_class('B', [('Id','unique_id'),('A_Id','unique_id')])
ass = m.define_association('R1','B',['A_Id'],True,True,'', 'A',['Id'],False,True,'')
ass.formalize()
a1=m.new('A'); a2=m.new('A'); b1=m.new('B')
print('relate a1,b1', xtuml.relate(a1,b1,1))
try:
    xtuml.relate(a2,b1,1)
    print('no exception')
except xtuml.RelateException as e:
    print('RelateException')
print('a2->B', list(many(a2).B[1]()), 'b1->A', list(many(b1).A[1]()))
print('a1->B', list(many(a1).B[1]()))
# other arg order
m2 = xtuml.MetaModel(xtuml.IntegerGenerator())
