import time, sys
from bridgepoint import oal
for n in (10, 16, 20, 22, 24):
    s = '/*' + '\n'*n
    t=time.time()
    try:
        oal.parse(s)
        r='ok'
    except oal.ParseException as e:
        r='ParseException'
    except Exception as e:
        r=repr(e)
    print(n, r, round(time.time()-t,3)); sys.stdout.flush()
