import xtuml
m = xtuml.MetaModel(xtuml.IntegerGenerator())
m.define_class('A', [('Name','string'),('Id','unique_id')])
a = m.new('A')
a.NAME = 'x'
print(a.__dict__)
a.name = 'y'
print(a.__dict__)
print(a.Name, a.NAME, a.name, a.nAme)
print(xtuml.serialize_instance(a))
# delattr of missing
b = m.new('A')
try:
    del b.Nope
    print('deleted something', b.__dict__)
except Exception as e:
    print('exc', type(e), e)
