import xtuml, logging
from xtuml import navigate_many as many, navigate_one as one
m = xtuml.MetaModel(xtuml.IntegerGenerator())
m.define_class('A', [('Id','unique_id'),('Name','string')])
m.define_class('B', [('Id','unique_id'),('A_Id','unique_id'),('A_Name','string')])
ass = m.define_association('R1','B',['A_Id'],True,True,'', 'A',['Id'],False,True,'')
ass2 = m.define_association('R2','B',['A_Name'],True,True,'', 'A',['Name'],False,True,'')
ass.formalize(); ass2.formalize()
a = m.new('A')   # Name ''
# relate on deleted
b = m.new('B')
xtuml.delete(a)
print('relate deleted:', xtuml.relate(a, b, 1), 'b->A', [x for x in many(b).A[1]()], 'a live?', a in m.select_many('A'))
# API null key
a2 = m.new('A')  # Name '' -> null string key
b2 = m.new('B', A_Name='')
print('API null-key link count:', len(many(b2).A[2]()))
# loader null key
l = xtuml.ModelLoader()
l.input(xtuml.serialize_schema(m))
l.input("INSERT INTO A VALUES (\"00000000-0000-0000-0000-000000000005\", ''); INSERT INTO B VALUES (\"00000000-0000-0000-0000-000000000006\", \"00000000-0000-0000-0000-000000000000\", '');")
m2 = l.build_metamodel()
print('loader null-key link count:', len(many(m2.select_any('B')).A[2]()))
# C10 constructor kw spelling
try:
    x = m.new('A', NAME='zz'); print('ctor NAME ->', x.Name, x.__dict__)
except Exception as e: print('ctor NAME exc', type(e).__name__, e)
try:
    y = m.new('B', a_id=a2.Id); print('ctor a_id ->', y.A_Id)
except Exception as e: print('ctor a_id exc', type(e).__name__, e)
# where_eq spelling
print('where_eq NAME:', len(m.select_many('A', xtuml.where_eq(NAME='zz'))), 'kind spelling:', len(m.select_many('a')))
# named insert fewer values
l = xtuml.ModelLoader()
l.input("CREATE TABLE A (I INTEGER, J INTEGER); INSERT INTO A (I, J) VALUES (1);")
try: l.build_metamodel(); print('named short OK')
except Exception as e: print('named short', type(e).__name__, e)
