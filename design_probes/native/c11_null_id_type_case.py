import xtuml, logging
logging.disable(logging.CRITICAL)
for ty in ('UNIQUE_ID', 'unique_id'):
    m = xtuml.MetaModel(xtuml.IntegerGenerator())
    m.define_class('A', [('Id', ty)])
    m.define_unique_identifier('A', 1, 'Id')
    a = m.new('A', Id=0)
    print(ty, 'zero-id null violations:', xtuml.check_uniqueness_constraint(m), 'is_consistent', m.is_consistent())
# identifier attr spelled differently from declared
m = xtuml.MetaModel(xtuml.IntegerGenerator())
m.define_class('A', [('Id', 'UNIQUE_ID')])
m.define_unique_identifier('A', 1, 'ID')
m.new('A', Id=0); 
print('index spelled ID:', xtuml.check_uniqueness_constraint(m))
# loader: lower-case types in CREATE TABLE
l = xtuml.ModelLoader(); l.input('CREATE TABLE A (Id unique_id); CREATE UNIQUE INDEX I1 ON A (Id); INSERT INTO A VALUES ("00000000-0000-0000-0000-000000000000");')
mm = l.build_metamodel(); print('loaded lower-case type:', xtuml.check_uniqueness_constraint(mm), mm.find_metaclass('A').attributes)
