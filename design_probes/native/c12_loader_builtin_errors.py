import xtuml, traceback
from xtuml import navigate_many as many, navigate_one as one
def tryload(txt, label):
    l = xtuml.ModelLoader()
    try:
        l.input(txt)
        m = l.build_metamodel()
        print(label, 'OK', [ (k, len(v.storage)) for k,v in m.metaclasses.items()])
        return m
    except xtuml.ParsingException as e:
        print(label, 'ParsingException', e)
    except xtuml.MetaException as e:
        print(label, 'MetaException', e)
    except Exception as e:
        print(label, 'OTHER', type(e).__name__, e)
# C12 type mismatch
tryload("CREATE TABLE A (I INTEGER); INSERT INTO A VALUES ('abc');", 'int<-string')
tryload("CREATE TABLE A (I INTEGER); INSERT INTO A VALUES (1.5);", 'int<-real')
tryload("CREATE TABLE A (I REAL); INSERT INTO A VALUES ('x');", 'real<-string')
tryload("CREATE TABLE A (I UNIQUE_ID); INSERT INTO A VALUES ('x');", 'uid<-string')
tryload("CREATE TABLE A (I UNIQUE_ID); INSERT INTO A VALUES (\"zz\");", 'uid<-badguid')
tryload("CREATE TABLE A (I FOO); INSERT INTO A VALUES (1);", 'unknown type')
tryload("CREATE TABLE A (I INTEGER); CREATE TABLE A (I INTEGER);", 'dup class')
tryload("CREATE ROP REF_ID R1 FROM 1 A (Id) TO 1 B (Id);", 'assoc unknown class')
tryload("CREATE UNIQUE INDEX I1 ON A (Id);", 'index unknown class')
tryload("CREATE TABLE A (I STRING); INSERT INTO A VALUES (1);", 'string<-int')
tryload("CREATE TABLE A (I BOOLEAN); INSERT INTO A VALUES ('x');", 'bool<-string')
tryload("INSERT INTO A VALUES (TRUE);", 'inferred bool')
tryload("CREATE TABLE A (I INTEGER); INSERT INTO A (I, J) VALUES (1);", 'named mismatch')
tryload("CREATE TABLE A (I INTEGER, I2 INTEGER); INSERT INTO A VALUES (1);", 'short values')
# C01 identifiers
tryload("CREATE TABLE R2D2 (I INTEGER);", 'R2D2 class')
tryload("CREATE TABLE A (R1 INTEGER);", 'R1 attr')
m = xtuml.MetaModel()
m.define_class('A', [('Id','unique_id'), ('Nxt','unique_id')])
m.define_association('R1','A',['Nxt'],False,True,"it's",'A',['Id'],False,True,'prev')
s = xtuml.serialize_schema(m)
print(s)
tryload(s, 'phrase with quote')
