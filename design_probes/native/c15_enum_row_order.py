import sys, re
sys.path.insert(0,'/repo')
import xtuml
from bridgepoint import ooaofooa
from xtuml import navigate_many as many, navigate_one as one
from tests.test_bridgepoint import test_interpret as ti
model = ti.model
n = len(re.findall(r'INSERT INTO S_ENUM', model)); print('S_ENUM rows', n)
# split statements, reverse the S_ENUM rows
stmts = re.split(r'(?<=;)\n(?=INSERT|CREATE)', model)
enum_idx = [i for i,s in enumerate(stmts) if s.startswith('INSERT INTO S_ENUM')]
print(len(stmts), enum_idx[:5])
def build(stmts):
    l = ooaofooa.Loader(load_globals=True)
    l.input('\n'.join(stmts), 'm')
    return l
def show(l):
    mm = l.build_metamodel()
    for s_edt in mm.select_many('S_EDT'):
        link_order = [e.Name for e in many(s_edt).S_ENUM[27]()]
        first = xtuml.navigate_any(s_edt).S_ENUM[27](lambda sel: not one(sel).S_ENUM[56,'succeeds']())
        chain=[]; e=first
        while e: chain.append(e.Name); e = one(e).S_ENUM[56,'precedes']()
        print(one(s_edt).S_DT[17]().Name, 'link order', link_order, 'modeled order', chain)
    c = l.build_component()
    for s_edt in mm.select_many('S_EDT'):
        nm = one(s_edt).S_DT[17]().Name
        try: print(' symbol', nm, c.find_symbol(nm))
        except Exception as e: print(' symbol', nm, 'ERR', e)
show(build(stmts))
st2 = list(stmts)
rev = [stmts[i] for i in reversed(enum_idx)]
for i, s in zip(enum_idx, rev): st2[i] = s
print('--- reversed rows')
show(build(st2))
