import xtuml, logging
from bridgepoint import ooaofooa, interpret
logging.basicConfig(level=logging.ERROR)
def mk():
    d = ooaofooa.Domain(xtuml.IntegerGenerator())
    d.define_class('A', [('Id','unique_id'),('N','integer'),('S','string')])
    d.define_class('B', [('Id','unique_id'),('A_Id','unique_id'),('N','integer')])
    a = d.define_association('R1','B',['A_Id'],True,True,'','A',['Id'],False,True,'')
    a.formalize()
    for i in range(3): d.new('A', N=i)
    return d
def run(src, **kw):
    d = mk()
    try:
        r = interpret.run_function(d, 'f', src, kw)
    except Exception as e:
        r = ('EXC', type(e).__name__, str(e))
    return r
print('many lower', run('select many xs from instances of A; return cardinality xs;'))
print('MANY upper', run('SELECT MANY xs FROM INSTANCES OF A; RETURN CARDINALITY xs;'))
print('Many cap  ', run('Select Many xs From Instances Of A; Return Cardinality xs;'))
print('where MANY', run('select MANY xs from instances of A where selected.N > 0; return cardinality xs;'))
print('TRUE', run('return TRUE;'), run('return True;'), run('return true;'))
print('AND', run('return true AND false;'), run('return NOT true;'), run('return NOT_EMPTY 1;'))
print('bare return', run('x = 1; return; x = 2;'))
print('int div', run('return 7 / 2;'), run('return 7 % 3;'), run('return -7 / 2;'))
print('string', run('return "a" + "b";'))
print('while/break', run('i = 0; while (i < 10) i = i + 1; if (i == 3) break; end if; end while; return i;'))
print('for each', run('select many xs from instances of A; s = 0; for each x in xs s = s + x.N; end for; return s;'))
print('related', run('select any a from instances of A; create object instance b of B; relate a to b across R1; select many bs related by a->B[R1]; return cardinality bs;'))
print('related MANY', run('select any a from instances of A; create object instance b of B; create object instance b2 of B; relate a to b across R1; relate a to b2 across R1; select MANY bs related by a->B[R1]; return cardinality bs;'))
print('elif', run('x=2; if (x==1) return 1; elif (x==2) return 2; else return 3; end if;'))
print('Elif', run('x=2; IF (x==1) RETURN 1; ELIF (x==2) RETURN 2; ELSE RETURN 3; END IF;'))
print('precedence', run('return 1 + 2 * 3;'), run('return not true or true;'), run('return 2 * 3 % 2;'), run('return - 2 + 3;'))
print('cmp chain', run('return 1 < 2 == true;'))
print('unary minus prec', run('return -2 * 3;'), run('return cardinality 1 + 1;'))
