# Feasibility: VC for OrderedSet.add / discard with ghost node sequence, z3 arrays + quantifiers.
from z3 import *
import time
Ref = IntSort(); Key = DeclareSort('Key')
def heap(tag):
    return dict(f0=Array('f0'+tag, Ref, Key), f1=Array('f1'+tag, Ref, Ref), f2=Array('f2'+tag, Ref, Ref),
                mp=Array('mp'+tag, Key, Ref), dom=Array('dom'+tag, Key, BoolSort()),
                nodes=Array('nodes'+tag, IntSort(), Ref), n=Int('n'+tag))
end = Int('end')
def wf(h):
    i, j = Ints('i j'); k = Const('k', Key)
    nodes, n = h['nodes'], h['n']
    prev = lambda i: If(i == 0, end, nodes[i-1])
    nxt  = lambda i: If(i == n-1, end, nodes[i+1])
    return And(n >= 0,
        ForAll([i], Implies(And(0 <= i, i < n), And(nodes[i] != end,
                    h['f1'][nodes[i]] == prev(i), h['f2'][nodes[i]] == nxt(i),
                    h['dom'][h['f0'][nodes[i]]], h['mp'][h['f0'][nodes[i]]] == nodes[i]))),
        ForAll([i, j], Implies(And(0 <= i, i < j, j < n), nodes[i] != nodes[j])),
        ForAll([k], Implies(h['dom'][k], Exists([i], And(0 <= i, i < n, h['f0'][nodes[i]] == k)))),
        h['f2'][end] == If(n == 0, end, nodes[0]),
        h['f1'][end] == If(n == 0, end, nodes[n-1]))
# better: replace Exists by ghost index function idx: Key -> Int
def wf2(h, idx):
    i, j = Ints('i j'); k = Const('k', Key)
    nodes, n = h['nodes'], h['n']
    prev = lambda i: If(i == 0, end, nodes[i-1])
    nxt  = lambda i: If(i == n-1, end, nodes[i+1])
    return And(n >= 0,
        ForAll([i], Implies(And(0 <= i, i < n), And(nodes[i] != end,
                    h['f1'][nodes[i]] == prev(i), h['f2'][nodes[i]] == nxt(i),
                    h['dom'][h['f0'][nodes[i]]], h['mp'][h['f0'][nodes[i]]] == nodes[i],
                    idx(h['f0'][nodes[i]]) == i))),
        ForAll([k], Implies(h['dom'][k], And(0 <= idx(k), idx(k) < n, h['f0'][nodes[idx(k)]] == k))),
        h['f2'][end] == If(n == 0, end, nodes[0]),
        h['f1'][end] == If(n == 0, end, nodes[n-1]))
def prove(name, hyps, goal, timeout=20000):
    s = Solver(); s.set('timeout', timeout)
    s.add(hyps); s.add(Not(goal))
    t = time.time(); r = s.check()
    print('%-40s %s %.2fs' % (name, 'PROVED' if r == unsat else str(r).upper(), time.time()-t))
    return r

# ---- add(key), path: key not in map
h0 = heap('0'); idx0 = Function('idx0', Key, IntSort()); idx1 = Function('idx1', Key, IntSort())
key = Const('key', Key); new = Int('new')
alloc = Function('alloc', Ref, BoolSort())
i = Int('i')
pre = And(wf2(h0, idx0), Not(h0['dom'][key]), alloc(end),
          ForAll([i], Implies(And(0 <= i, i < h0['n']), alloc(h0['nodes'][i]))), Not(alloc(new)))
# body: curr = end[1]; cell = [key, curr, end]; curr[2] = end[1] = map[key] = cell
curr = h0['f1'][end]
f0 = Store(h0['f0'], new, key); f1 = Store(h0['f1'], new, curr); f2 = Store(h0['f2'], new, end)
# chained assignment, left to right targets: curr[2] = cell; end[1] = cell; map[key] = cell
f2 = Store(f2, curr, new); f1 = Store(f1, end, new)
h1 = dict(f0=f0, f1=f1, f2=f2, mp=Store(h0['mp'], key, new), dom=Store(h0['dom'], key, True),
          nodes=Store(h0['nodes'], h0['n'], new), n=h0['n'] + 1)
k = Const('k', Key)
idx1_def = ForAll([k], idx1(k) == If(k == key, h0['n'], idx0(k)))
prove('add: wf preserved', [pre, idx1_def], wf2(h1, idx1))
prove('add: view appended', [pre, idx1_def], And(h1['n'] == h0['n'] + 1, h1['f0'][h1['nodes'][h0['n']]] == key,
      ForAll([i], Implies(And(0 <= i, i < h0['n']), h1['f0'][h1['nodes'][i]] == h0['f0'][h0['nodes'][i]]))))
# mutant: forget end[1] = cell
h1m = dict(h1); h1m['f1'] = Store(h0['f1'], new, curr)
prove('MUTANT add (no end[1] update)', [pre, idx1_def], wf2(h1m, idx1))

# ---- discard(key), path: key in map
pre = And(wf2(h0, idx0), h0['dom'][key])
cell = h0['mp'][key]; p = h0['f1'][cell]; nx = h0['f2'][cell]
f2 = Store(h0['f2'], p, nx); f1 = Store(h0['f1'], nx, p)
d = idx0(key)
nodes1 = Array('nodes1', IntSort(), Ref)
nodes1_def = ForAll([i], nodes1[i] == If(i < d, h0['nodes'][i], h0['nodes'][i+1]))
h1 = dict(f0=h0['f0'], f1=f1, f2=f2, mp=h0['mp'], dom=Store(h0['dom'], key, False), nodes=nodes1, n=h0['n'] - 1)
idx1_def = ForAll([k], idx1(k) == If(idx0(k) > d, idx0(k) - 1, idx0(k)))
# need distinctness of nodes: derive from idx (nodes[i]==nodes[j] -> f0 equal -> idx equal)
prove('discard: wf preserved', [pre, nodes1_def, idx1_def], wf2(h1, idx1), 60000)

# vacuity checks
s = Solver(); s.add(wf2(h0, idx0), h0['dom'][key], h0['n'] == 3); print('discard pre sat?', s.check())
s = Solver(); s.add(wf2(h0, idx0), Not(h0['dom'][key]), h0['n'] == 2, alloc(end), Not(alloc(new))); print('add pre sat?', s.check())

# ---- __iter__ with rely "consumer may discard the element just yielded":
# loop: curr = end[2]; while curr is not end: yield curr[0]; curr = curr[2]
# Invariant at loop head (in terms of the ORIGINAL ghost sequence nodes0/n0, f0 unchanged):
#   exists position c (ghost counter): yielded == keys(nodes0[:c]);  curr == (nodes0[c] if c < n0 else end)
#   and for all live-or-removed cells among nodes0[c:], next pointers still lead along nodes0:  f2[nodes0[i]] == nodes0[i+1]/end for i >= c-1?
# Model: heap f2 is arbitrary at cells nodes0[:c-1] (removed ones), but for i >= c: f2[nodes0[i]] == nxt0(i)   (suffix intact)
n0 = Int('n0'); nodes0 = Array('nodes0', IntSort(), Ref); c = Int('c')
f2 = Array('F2', Ref, Ref); f1 = Array('F1', Ref, Ref)
nxt0 = lambda i: If(i == n0-1, end, nodes0[i+1])
suffix_intact = lambda f2, c: ForAll([i], Implies(And(c <= i, i < n0), f2[nodes0[i]] == nxt0(i)))
distinct0 = ForAll([i, Int('j')], Implies(And(0 <= i, i < Int('j'), Int('j') < n0), And(nodes0[i] != nodes0[Int('j')], nodes0[i] != end, nodes0[Int('j')] != end)))
curr = Int('curr')
inv = lambda f2, c, curr: And(0 <= c, c <= n0, curr == If(c < n0, nodes0[c], end), suffix_intact(f2, c))
# step: assume inv, curr != end  -> yield nodes0[c].key ; rely: consumer may discard(key of curr):
#    discard writes prev[2] = next ; next[1] = prev   where prev = f1[curr] (some cell or end, NOT in nodes0[c+1:] ... needs f1 info)
# so rely effect on f2: f2' = Store(f2, pcell, f2[curr]) with pcell not in suffix nodes0[c+1:]   (pcell is a predecessor: end or an earlier live cell)
pcell = Int('pcell')
rely = Or(Array('F2p', Ref, Ref) == f2,
          And(Array('F2p', Ref, Ref) == Store(f2, pcell, f2[curr]),
              ForAll([i], Implies(And(c < i, i < n0), pcell != nodes0[i]))))
f2p = Array('F2p', Ref, Ref)
curr2 = f2p[curr]
prove('iter: inv preserved under rely', [distinct0, inv(f2, c, curr), curr != end, rely], inv(f2p, c + 1, curr2))
prove('iter: exit means all yielded', [distinct0, inv(f2, c, curr), curr == end], c == n0)
# mutant of rely: consumer discards the NEXT element instead (pcell = curr, writes curr[2] = next.next) -> should break
rely_bad = And(f2p == Store(f2, curr, f2[f2[curr]]))
prove('iter: (bad rely: remove next) ', [distinct0, inv(f2, c, curr), curr != end, c + 1 < n0, rely_bad], inv(f2p, c + 1, curr2))
