import ply.yacc as yacc, itertools, time
from bridgepoint import oal
class NL:
    def __getattr__(s, n): return lambda *a, **k: None
t=time.time()
inst = object.__new__(oal.OALParser)
p = yacc.yacc(module=inst, write_tables=False, debug=False, errorlog=NL())
print('table built in %.2fs; states=%d productions=%d' % (time.time()-t, len(p.action), len(p.productions)))
prods = p.productions
# spec precedence from the property statement (level, assoc)
spec = {}
for lvl, (assoc, toks) in enumerate([('left',['OR']),('left',['AND']),('nonassoc',['LESSTHAN','LE','DOUBLEEQUAL','GT','GE','NOTEQUAL']),
                                     ('left',['PLUS','MINUS','PIPE']),('left',['TIMES','DIV','AMP','CARET']),('left',['MOD'])]):
    for tk in toks: spec[tk] = (lvl, assoc)
binops = list(spec)
def prodinfo(k):
    pr = prods[k]; return pr.name, list(pr.prod)
obl = 0; bad = []
for st, row in p.action.items():
    # find reductions by 'expression -> expression a expression'
    red = {}
    for la, act in row.items():
        if act is not None and act < 0:
            name, rhs = prodinfo(-act)
            if name == 'expression' and len(rhs) == 3 and rhs[0] == 'expression' and rhs[2] == 'expression' and rhs[1] in spec:
                red[rhs[1]] = -act
            if name == 'expression' and len(rhs) == 2 and rhs[0] == 'unary_operator':
                red['UNARY'] = -act
    # states containing the completed item: detect through any reduce of that production in this row
    for a, k in red.items():
        for b in binops:
            obl += 1
            act = row.get(b, 'MISSING')
            if a == 'UNARY':
                want = 'reduce'
            else:
                (la_, asa), (lb, _) = spec[a], spec[b]
                want = 'reduce' if la_ > lb or (la_ == lb and asa == 'left') else ('shift' if la_ < lb else 'error')
            got = 'error' if act in (None, 'MISSING') else ('reduce' if act < 0 and -act == k else ('shift' if act > 0 else 'other-reduce'))
            if got != want: bad.append((st, a, b, want, got))
print('obligations', obl, 'failed', len(bad), bad[:5])
