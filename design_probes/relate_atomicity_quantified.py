from z3 import *
import time
Ref = DeclareSort('Ref'); RS = SetSort(Ref)
S = Array('S', Ref, RS); T = Array('T', Ref, RS)
Smany, Tmany = Bools('Smany Tmany'); i1, i2 = Consts('i1 i2', Ref)
x, y = Consts('x y', Ref)
mirror = lambda S, T: ForAll([x, y], IsMember(y, S[x]) == IsMember(x, T[y]))
def connect(L, many, a, b):
    # returns (ok, L')
    already = IsMember(b, L[a]); blocked = And(L[a] != EmptySet(Ref), Not(many))
    ok = Or(already, Not(blocked))
    L2 = If(already, L, If(blocked, L, Store(L, a, SetAdd(L[a], b))))
    return ok, L2
ok1, S1 = connect(S, Smany, i1, i2)
ok2, T1 = connect(T, Tmany, i2, i1)
# real relate: if not ok1: raise (state S,T) ; if not ok2: raise (state S1, T) ; else (S1,T1)
raises = Or(Not(ok1), Not(ok2))
S_fin = If(Not(ok1), S, S1); T_fin = If(Not(ok1), T, If(Not(ok2), T, T1))
s = Solver(); s.set('timeout', 10000)
s.add(mirror(S, T)); s.add(Not(Implies(raises, And(S_fin == S, T_fin == T))))
t = time.time(); r = s.check(); print('relate atomic-on-exception:', r, '%.2fs' % (time.time()-t))
if r == sat:
    m = s.model(); print('  Smany', m[Smany], 'Tmany', m[Tmany], 'i1', m[i1], 'i2', m[i2]); print('  T[i2] =', m.eval(T[i2])); print('  S[i1] =', m.eval(S[i1]))
# fixed relate: decide both first
blocked1 = And(Not(IsMember(i2, S[i1])), S[i1] != EmptySet(Ref), Not(Smany))
blocked2 = And(Not(IsMember(i1, T[i2])), T[i2] != EmptySet(Ref), Not(Tmany))
raises_f = Or(blocked1, blocked2)
S_f = If(raises_f, S, S1); T_f = If(raises_f, T, T1)
s = Solver(); s.add(mirror(S, T)); s.add(Not(And(Implies(raises_f, And(S_f == S, T_f == T)), mirror(S_f, T_f))))
t = time.time(); print('fixed relate: atomic + mirror preserved:', s.check(), '%.2fs' % (time.time()-t))
