from z3 import *
import time, itertools
Ref, refs = EnumSort('Ref', ['r0','r1','r2','r3']); RS = SetSort(Ref)
S = Array('S', Ref, RS); T = Array('T', Ref, RS)
Smany, Tmany = Bools('Smany Tmany'); i1, i2 = Consts('i1 i2', Ref)
mirror = lambda S, T: And([IsMember(y, S[x]) == IsMember(x, T[y]) for x in refs for y in refs])   # small scope: expanded
def connect(L, many, a, b):
    already = IsMember(b, L[a]); blocked = And(L[a] != EmptySet(Ref), Not(many))
    return Or(already, Not(blocked)), If(already, L, If(blocked, L, Store(L, a, SetAdd(L[a], b))))
ok1, S1 = connect(S, Smany, i1, i2); ok2, T1 = connect(T, Tmany, i2, i1)
raises = Or(Not(ok1), Not(ok2)); S_fin = If(Not(ok1), S, S1); T_fin = If(Not(ok1), T, If(Not(ok2), T, T1))
s = Solver(); s.add(mirror(S, T)); s.add(Not(Implies(raises, And(S_fin == S, T_fin == T))))
t = time.time(); r = s.check(); print('small-scope relate atomicity:', r, '%.2fs' % (time.time()-t))
m = s.model()
print('  Smany=%s Tmany=%s i1=%s i2=%s' % (m[Smany], m[Tmany], m[i1], m[i2]))
for x in refs:
    print('  S[%s]=%s  T[%s]=%s' % (x, [str(y) for y in refs if is_true(m.eval(IsMember(y, S[x])))], x, [str(y) for y in refs if is_true(m.eval(IsMember(y, T[x])))]))
