import ast, collections, sys
files = {'xtuml.tools':'/repo/xtuml/tools.py','xtuml.meta':'/repo/xtuml/meta.py','xtuml.persist':'/repo/xtuml/persist.py',
         'xtuml.load':'/repo/xtuml/load.py','xtuml.consistency_check':'/repo/xtuml/consistency_check.py',
         'bridgepoint.interpret':'/repo/bridgepoint/interpret.py','bridgepoint.ooaofooa':'/repo/bridgepoint/ooaofooa.py',
         'bridgepoint.prebuild':'/repo/bridgepoint/prebuild.py','bridgepoint.gen_xsd_schema':'/repo/bridgepoint/gen_xsd_schema.py',
         'bridgepoint.oal':'/repo/bridgepoint/oal.py','bridgepoint.sourcegen':'/repo/bridgepoint/sourcegen.py'}
skip_classes = {'bridgepoint.oal': None}
stmt_kinds = collections.Counter(); expr_kinds = collections.Counter(); calls = collections.Counter()
funcs = 0; loops = 0; per_mod = collections.Counter(); per_mod_loops = collections.Counter()
odd = []
for mod, path in files.items():
    tree = ast.parse(open(path).read())
    for node in ast.walk(tree):
        if isinstance(node, (ast.FunctionDef,)):
            if mod == 'bridgepoint.oal' and (node.name.startswith('t_') and len(node.body) <= 3): pass
            funcs += 1; per_mod[mod] += 1
            for n in ast.walk(node):
                if isinstance(n, ast.stmt): stmt_kinds[type(n).__name__] += 1
                elif isinstance(n, ast.expr): expr_kinds[type(n).__name__] += 1
                if isinstance(n, (ast.For, ast.While)): loops += 1; per_mod_loops[mod] += 1
                if isinstance(n, ast.Call):
                    f = n.func
                    nm = f.id if isinstance(f, ast.Name) else (f.attr if isinstance(f, ast.Attribute) else type(f).__name__)
                    calls[nm] += 1
                if isinstance(n, (ast.Try, ast.With, ast.Global, ast.Nonlocal, ast.Starred, ast.JoinedStr, ast.NamedExpr, ast.Await, ast.AsyncFor, ast.YieldFrom, ast.ClassDef, ast.Import, ast.ImportFrom, ast.SetComp, ast.DictComp)):
                    odd.append((mod, node.name, type(n).__name__, n.lineno))
print('functions', funcs, 'loops', loops); print(dict(per_mod)); print('loops', dict(per_mod_loops))
print('STMT', dict(stmt_kinds)); print('EXPR', dict(expr_kinds))
print('ODD', odd)
print('CALLS', [(k, v) for k, v in calls.most_common() if k in dir(__builtins__) or k in ('join','upper','lower','replace','format','items','values','keys','append','insert','extend','pop','remove','index','count','update','get','isdigit','match','splitlines','rfind','endswith','startswith','split','strip','sorted','write','read','partial','deque','namedtuple','UUID','uuid4','warning','error','info','debug')])
