"""Finite-state obligations over the token regexes of the two PLY lexers, read from the current source (rule docstrings).

no-exponential-ambiguity: the pattern, parsed by the `re` module's own parser, is turned into an epsilon-NFA (Thompson); the pattern
has exponential backtracking potential iff some state of the trimmed NFA has two distinct paths to itself over the same word
(product-automaton SCC test).  Polynomial ambiguity is tolerated.  Constructs outside the supported list, or a star whose body can
match the empty string, make the obligation UNDECIDED rather than passed.  Look-ahead is treated as epsilon (over-approximation of
the language: can only add ambiguity).  Alphabet: ASCII plus three non-ASCII representatives.
"""
import re
import sys
import time
try:
    import re._parser as sp, re._constants as sc
except ImportError:          # pragma: no cover
    import sre_parse as sp, sre_constants as sc

ALPHA = [chr(i) for i in range(128)] + ['é', '€', '٠']
class NFA:
    def __init__(s): s.n = 0; s.eps = {}; s.tr = {}   # tr[q] = list of (charset(frozenset), q')
    def new(s): s.n += 1; return s.n - 1
    def e(s, a, b): s.eps.setdefault(a, set()).add(b)
    def t(s, a, cs, b): s.tr.setdefault(a, []).append((cs, b))
def charset(item):
    op, av = item
    if op == sc.LITERAL: return frozenset(c for c in ALPHA if ord(c) == av)
    if op == sc.NOT_LITERAL: return frozenset(c for c in ALPHA if ord(c) != av)
    if op == sc.ANY: return frozenset(c for c in ALPHA if c != '\n')
    if op == sc.IN:
        neg = False; acc = set()
        for o, a in av:
            if o == sc.NEGATE: neg = True
            elif o == sc.LITERAL: acc |= {c for c in ALPHA if ord(c) == a}
            elif o == sc.RANGE: acc |= {c for c in ALPHA if a[0] <= ord(c) <= a[1]}
            elif o == sc.CATEGORY:
                pat = {sc.CATEGORY_DIGIT: r'\d', sc.CATEGORY_SPACE: r'\s', sc.CATEGORY_WORD: r'\w',
                       sc.CATEGORY_NOT_DIGIT: r'\D', sc.CATEGORY_NOT_SPACE: r'\S', sc.CATEGORY_NOT_WORD: r'\W'}[a]
                acc |= {c for c in ALPHA if re.fullmatch(pat, c)}
            else: raise NotImplementedError(o)
        return frozenset(set(ALPHA) - acc if neg else acc)
    raise NotImplementedError(op)
def build(n, items, a):
    # returns end state after consuming `items` from state a
    for op, av in items:
        if op in (sc.LITERAL, sc.NOT_LITERAL, sc.ANY, sc.IN):
            b = n.new(); n.t(a, charset((op, av)), b); a = b
        elif op == sc.SUBPATTERN:
            a = build(n, av[-1], a)
        elif op == sc.BRANCH:
            b = n.new()
            for alt in av[1]:
                s0 = n.new(); n.e(a, s0); n.e(build(n, alt, s0), b)
            a = b
        elif op in (sc.MAX_REPEAT, sc.MIN_REPEAT):
            lo, hi, sub = av
            for _ in range(lo): a = build(n, sub, a)
            if hi == sc.MAXREPEAT:
                h = n.new(); n.e(a, h); x = build(n, sub, h); n.e(x, h); b = n.new(); n.e(h, b); a = b
            else:
                b = n.new(); n.e(a, b)
                for _ in range(hi - lo):
                    a = build(n, sub, a); n.e(a, b)
                a = b
        elif op in (sc.ASSERT, sc.ASSERT_NOT):      # lookahead / negative lookahead: treated as epsilon (consumes nothing; over-approximation)
            pass
        elif op == sc.AT: pass
        else: raise NotImplementedError(op)
    return a
def eda(pattern):
    n = NFA(); s0 = n.new(); f = build(n, list(sp.parse(pattern)), s0)
    # epsilon closure
    def clo(q):
        seen = {q}; st = [q]
        while st:
            x = st.pop()
            for y in n.eps.get(x, ()):
                if y not in seen: seen.add(y); st.append(y)
        return seen
    C = {q: clo(q) for q in range(n.n)}
    # eps-free transitions between "consuming" states: step(q, c) = set of q' reachable by eps* then char
    # NOTE: distinct eps-paths to the same transition are distinct runs -> count multiplicity: use multigraph over (state, transition-id)
    trans = []  # (src_state, charset, dst_state)
    for q, lst in n.tr.items():
        for cs, b in lst: trans.append((q, cs, b))
    # number of distinct eps-paths matters for ambiguity; Thompson eps-graphs here are DAGs except star loops;
    # we approximate paths by counting eps-paths with DFS (bounded)
    def eps_paths(a, b, memo={}):
        # number of distinct eps paths a->b capped at 2
        key=(id(n),a,b)
        if key in memo: return memo[key]
        memo[key]=0  # cycle guard
        cnt = 1 if a == b else 0
        for y in n.eps.get(a, ()):
            cnt += eps_paths(y, b, memo)
            if cnt >= 2: break
        memo[key]=min(cnt,2); return memo[key]
    # nodes of the analysis graph: transitions (edges that consume a char). t1 -> t2 if eps-path from dst(t1) to src(t2)
    T = range(len(trans))
    succ = {i: [] for i in T}
    for i in T:
        for j in T:
            k = eps_paths(trans[i][2], trans[j][0])
            if k: succ[i].append((j, k))
    # product graph on pairs (i, j) with overlapping charsets; EDA iff some SCC of the product contains (i,i) and (i',j') with i' != j'
    # or contains (i,i) -> (j,j) via a double eps-path (k>=2)
    pairs = [(i, j) for i in T for j in T if trans[i][1] & trans[j][1]]
    pset = set(pairs); adj = {p: [] for p in pairs}; dbl = set()
    for (i, j) in pairs:
        for (i2, k1) in succ[i]:
            for (j2, k2) in succ[j]:
                if (i2, j2) in pset:
                    adj[(i, j)].append((i2, j2))
                    if i == j and i2 == j2 and k1 >= 2: dbl.add(((i, j), (i2, j2)))
    # Tarjan SCC
    sys.setrecursionlimit(100000)
    index = {}; low = {}; st = []; on = set(); sccs = []; ctr = [0]
    def sc_(v):
        index[v] = low[v] = ctr[0]; ctr[0] += 1; st.append(v); on.add(v)
        for w in adj[v]:
            if w not in index: sc_(w); low[v] = min(low[v], low[w])
            elif w in on: low[v] = min(low[v], index[w])
        if low[v] == index[v]:
            comp = set()
            while True:
                w = st.pop(); on.discard(w); comp.add(w)
                if w == v: break
            sccs.append(comp)
    for v in pairs:
        if v not in index: sc_(v)
    for comp in sccs:
        cyc = len(comp) > 1 or any(v in adj[v] for v in comp)
        if not cyc: continue
        diag = [v for v in comp if v[0] == v[1]]; off = [v for v in comp if v[0] != v[1]]
        if diag and off: return True, ('offdiag', trans[off[0][0]][1] & trans[off[0][1]][1])
        if any(a in comp and b in comp for a, b in dbl): return True, ('double-eps',)
    return False, None


def nullable(items):
    for op, av in items:
        if op in (sc.LITERAL, sc.NOT_LITERAL, sc.ANY, sc.IN):
            return False
        if op == sc.SUBPATTERN:
            if not nullable(av[-1]):
                return False
        elif op == sc.BRANCH:
            if not any(nullable(alt) for alt in av[1]):
                return False
        elif op in (sc.MAX_REPEAT, sc.MIN_REPEAT):
            lo, hi, sub = av
            if lo > 0 and not nullable(sub):
                return False
        elif op in (sc.ASSERT, sc.AT, sc.ASSERT_NOT):
            continue
        else:
            raise NotImplementedError(op)
    return True


def nullable_star(items):
    for op, av in items:
        if op == sc.SUBPATTERN:
            if nullable_star(av[-1]):
                return True
        elif op == sc.BRANCH:
            if any(nullable_star(alt) for alt in av[1]):
                return True
        elif op in (sc.MAX_REPEAT, sc.MIN_REPEAT):
            lo, hi, sub = av
            if hi == sc.MAXREPEAT and nullable(sub):
                return True
            if nullable_star(sub):
                return True
    return False


def token_rules(cls):
    out = []
    for name in sorted(dir(cls)):
        f = getattr(cls, name)
        if name.startswith('t_') and callable(f) and getattr(f, '__doc__', None) and name not in ('t_error',):
            out.append((name, f.__doc__))
        elif name.startswith('t_') and isinstance(f, str) and name != 't_ignore':
            out.append((name, f))
    return out


def ambiguity_obligations(cls, qual):
    out = []
    for name, pat in token_rules(cls):
        t0 = time.time()
        oname = '%s.%s::regex[no-exponential-ambiguity]' % (qual, name)
        try:
            parsed = list(sp.parse(pat))
            if nullable_star(parsed):
                status, detail, wit = 'unknown', 'star over a body that can match the empty string: outside the decided fragment', None
            else:
                bad, why = eda(pat)
                status = 'violated' if bad else 'discharged'
                chars = sorted(why[1])[:3] if bad and len(why) > 1 else []
                detail = 'two distinct runs over the same word inside a repetition (characters %r): exponential backtracking on non-matching input' % chars if bad else ''
                wit = dict(kind='regex-ambiguity', rule=name, pattern=pat, pump_chars=chars) if bad else None
        except NotImplementedError as e:
            status, detail, wit = 'unknown', 'regex construct outside the decided fragment: %s' % e, None
        out.append(dict(name=oname, function='%s.%s' % (qual, name), kind='regex-ambiguity', backend='finite', status=status,
                        time_s=time.time() - t0, clause='no-exponential-ambiguity', clause_text=pat, witness=wit, solver_output=detail))
    return out


def oal_tokens(tier):
    from vlib import fresh_ply  # noqa
    from bridgepoint import oal
    return ambiguity_obligations(oal.OALParser, 'bridgepoint.oal.OALParser')


def sql_tokens(tier):
    from vlib import fresh_ply  # noqa
    import xtuml.load
    return ambiguity_obligations(xtuml.load.ModelLoader, 'xtuml.load.ModelLoader')


def case_closed(pattern):
    """every character set the pattern can consume at any position is closed under letter-case swapping: then the language of
    the pattern is closed under changing the case of any letters of a word (exact for concatenation/alternation/repetition of
    character sets, which is all the keyword-bearing token rules use)"""
    n = NFA()
    s0 = n.new()
    build(n, list(sp.parse(pattern)), s0)
    for q, lst in n.tr.items():
        for cs, b in lst:
            for c in cs:
                if c.isalpha() and c.isascii():
                    if c.swapcase() not in cs:
                        return False, c
    return True, None


def oal_keyword_case(tier):
    """C08: the token rules that carry keywords written with spaces (end if / end for / end while) accept every letter case,
    and t_ID classifies a word as keyword by its upper-cased text only (checked on the rule's source: AST of t_ID)."""
    from vlib import fresh_ply  # noqa
    from bridgepoint import oal
    import ast, inspect, textwrap
    out = []
    for name in ('t_END_FOR', 't_END_IF', 't_END_WHILE'):
        t0 = time.time()
        pat = getattr(oal.OALParser, name).__doc__
        try:
            ok, wit = case_closed(pat)
            status, detail = ('discharged', '') if ok else ('violated', 'character %r is accepted at some position but not its other letter case' % wit)
        except NotImplementedError as e:
            status, detail, wit = 'unknown', 'regex construct outside the decided fragment: %s' % e, None
        out.append(dict(name='bridgepoint.oal.OALParser.%s::regex[case-closed]' % name, function='bridgepoint.oal.OALParser.%s' % name,
                        kind='regex-case-closure', backend='finite', status=status, time_s=time.time() - t0, clause='case-closed',
                        clause_text=pat, witness=None if status != 'violated' else dict(kind='regex-case', rule=name, pattern=pat, char=wit),
                        solver_output=detail))
    # every keyword of the grammar is listed in upper case (t_ID compares value.upper() with the list)
    t0 = time.time()
    bad = [k for k in oal.OALParser.keywords if k != k.upper()]
    out.append(dict(name='bridgepoint.oal.OALParser.keywords::table[upper-case]', function='bridgepoint.oal.OALParser', kind='keyword-table',
                    backend='finite', status='discharged' if not bad else 'violated', time_s=time.time() - t0, clause='keywords-upper-case',
                    clause_text='keywords are listed upper-case', witness=None, solver_output='not upper-case: %s' % bad if bad else ''))
    return out
