"""Replay of finite-state witnesses on the real code: a precedence witness is parsed by the real parser, a regex-ambiguity
witness is timed on the real `re` engine."""
import re
import signal
import time
try:
    import re._parser as sp, re._constants as sc
except ImportError:          # pragma: no cover
    import sre_parse as sp, sre_constants as sc

SYMBOL = dict(PLUS='+', MINUS='-', PIPE='|', TIMES='*', DIV='/', AMP='&', CARET='^', MOD='%', OR='or', AND='and',
              LESSTHAN='<', LE='<=', DOUBLEEQUAL='==', GT='>', GE='>=', NOTEQUAL='!=')


def replay(witness):
    """returns [] when the witness does not reproduce, else [dict(clause, observed, required)]"""
    if witness.get('kind') == 'precedence':
        return replay_precedence(witness)
    if witness.get('kind') == 'regex-ambiguity':
        return replay_regex(witness)
    return []


def replay_precedence(w):
    from vlib import fresh_ply  # noqa
    from bridgepoint import oal
    a, b = SYMBOL[w['left_op']], SYMBOL[w['right_op']]
    text = 'x = 1 %s 2 %s 3;' % (a, b)
    try:
        root = oal.parse(text)
    except Exception as e:
        got = 'error:%s' % type(e).__name__
        return [] if w['expected'] == 'error' else [dict(clause='lalr-precedence', observed='%s on %r' % (got, text), required=w['expected'])]
    # find the assignment's expression
    node = root
    while not type(node).__name__ == 'BinaryOperationNode':
        kids = list(getattr(node, 'children', []))
        kids = [k for k in kids if k is not None]
        pick = [k for k in kids if type(k).__name__ == 'BinaryOperationNode']
        node = pick[0] if pick else kids[-1]
    left_is_bin = type(node.left).__name__ == 'BinaryOperationNode'
    got = 'reduce' if left_is_bin else 'shift'
    if got == w['expected']:
        return []
    return [dict(clause='lalr-precedence', observed='%r parses as %s' % (text, '(1 %s 2) %s 3' % (a, b) if left_is_bin else '1 %s (2 %s 3)' % (a, b)),
                 required='grouping by %s' % w['expected'])]


def _timeout(signum, frame):
    raise TimeoutError()


def replay_regex(w):
    pat = w['pattern']
    prefix = ''
    for op, av in sp.parse(pat):
        if op == sc.LITERAL:
            prefix += chr(av)
        else:
            break
    rx = re.compile(pat)
    for ch in (w.get('pump_chars') or ['a']):
        times = []
        for k in (14, 16, 18, 20, 22, 24, 26):
            text = prefix + ch * k
            signal.signal(signal.SIGALRM, _timeout)
            signal.setitimer(signal.ITIMER_REAL, 4.0)
            t0 = time.process_time()
            try:
                rx.match(text)
                dt = time.process_time() - t0
            except TimeoutError:
                dt = 4.0
            finally:
                signal.setitimer(signal.ITIMER_REAL, 0)
            times.append((k, round(dt, 3)))
            if dt >= 4.0:
                break
        if times[-1][1] >= 1.0 and len(times) >= 3 and times[-1][1] > 3 * max(times[-3][1], 0.001):
            return [dict(clause='no-exponential-ambiguity', observed='re.match(%r, %r + %r*k): cpu seconds by k = %s' % (pat, prefix, ch, times),
                         required='time polynomial in the input length')]
    return []
