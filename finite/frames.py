"""Frame obligations for the rule functions of a PLY grammar class, decided syntactically on the current source.

A-PLY says the LR driver touches the loader object only through its rule functions (t_*, p_*).  ModelLoader.input is verified (pyvc,
contracts/c12.py) under the assumption that parse() leaves `statements` alone; that assumption is discharged here, rule by rule:
a rule function satisfies `frame[loader-state]` when its body
  * never stores through `self` (no `self.x = ...`, `self.x[...] = ...`, `self.x.y = ...`, augmented assignment or `del` of those),
  * never calls a method on something reached from `self` (`self.statements.append(...)`, `self.populate(...)`),
  * never lets `self` or something reached from it escape into a call, a return value, a container or another name,
  * declares no `global` / `nonlocal`.
This is a sufficient condition (an effect analysis), not a characterisation.  A definite write (store, `del`, a call of a list / dict
/ set mutator on an attribute of `self`, a `global` declaration) is `violated`; a call of another method through `self` or an
escaping reference has an unknown effect: the obligation is then *undecided* (`unknown`), which the checker reports as
NOT-REESTABLISHED when the rule's text changed since the reference tree, never as a violation.  Reads such as `x in self.reserved`
are allowed.  The second obligation, `raises-only[<exception>]`, says every `raise` statement of the rule raises the documented
exception class by a direct constructor call."""
import ast
import hashlib
import time

from pyvc.program import Program


MUTATORS = ('append', 'extend', 'insert', 'pop', 'remove', 'clear', 'update', 'setdefault', 'sort', 'reverse', 'add', 'discard',
            'popitem', '__setitem__', '__delitem__', '__setattr__', '__delattr__', 'appendleft', 'popleft')


def _reaches_self(node):
    """node is an expression rooted at the name `self` through attribute/subscript steps"""
    while isinstance(node, (ast.Attribute, ast.Subscript)):
        node = node.value
    return isinstance(node, ast.Name) and node.id == 'self'


def frame_problems(fn):
    probs = []
    parents = {}
    for n in ast.walk(fn):
        for c in ast.iter_child_nodes(n):
            parents[c] = n
    for n in ast.walk(fn):
        if isinstance(n, (ast.Global, ast.Nonlocal)):
            probs.append('line %d: %s declaration' % (n.lineno, type(n).__name__.lower()))
        if not (isinstance(n, ast.Name) and n.id == 'self'):
            continue
        # climb to the maximal expression rooted at this occurrence
        top = n
        while isinstance(parents.get(top), (ast.Attribute, ast.Subscript)) and parents[top].value is top:
            top = parents[top]
        par = parents.get(top)
        if top is n:
            probs.append('?line %d: `self` itself is used as a value' % n.lineno)
            continue
        if isinstance(getattr(top, 'ctx', None), (ast.Store, ast.Del)) or any(isinstance(getattr(x, 'ctx', None), (ast.Store, ast.Del))
                                                                            for x in ast.walk(top) if isinstance(x, (ast.Attribute, ast.Subscript))):
            probs.append('line %d: store through self (%s)' % (n.lineno, ast.unparse(top)))
        elif isinstance(par, ast.Call) and par.func is top and isinstance(top, ast.Attribute) and top.attr in MUTATORS and top.value is not n:
            probs.append('line %d: mutating call on loader state (%s)' % (n.lineno, ast.unparse(par)[:60]))
        elif isinstance(par, ast.Call) and par.func is top:
            probs.append('?line %d: call through self (%s): effect unknown' % (n.lineno, ast.unparse(par)[:60]))
        elif isinstance(par, ast.Compare) or (isinstance(par, ast.BoolOp)) or isinstance(par, (ast.If, ast.While, ast.IfExp)) and par.test is top \
                or isinstance(par, ast.UnaryOp) or isinstance(par, ast.BinOp) and isinstance(par.op, ast.Mod) and par.right is not top and par.left is not top:
            pass                                        # a read used in a test
        elif isinstance(par, ast.AugAssign) and par.target is top:
            probs.append('line %d: augmented store through self (%s)' % (n.lineno, ast.unparse(par)))
        else:
            probs.append('?line %d: loader state escapes (%s in %s): effect unknown' % (n.lineno, ast.unparse(top), type(par).__name__))
    return probs


def raise_problems(fn, exc):
    probs = []
    for n in ast.walk(fn):
        if isinstance(n, ast.Raise):
            ok = isinstance(n.exc, ast.Call) and isinstance(n.exc.func, ast.Name) and n.exc.func.id == exc
            if not ok:
                probs.append('line %d: raises %s' % (n.lineno, ast.unparse(n.exc) if n.exc else 're-raise'))
    return probs


def rule_obligations(module, cls, exc, kinds=('frame', 'raises-only')):
    prog = Program()
    path, tree, src = prog.load(module)
    cnode = [n for n in tree.body if isinstance(n, ast.ClassDef) and n.name == cls][0]
    out = []
    rules = [n for n in cnode.body if isinstance(n, ast.FunctionDef) and (n.name.startswith('p_') or n.name.startswith('t_'))]
    if not rules:
        raise RuntimeError('no rule functions found in %s.%s' % (module, cls))
    for fn in rules:
        t0 = time.time()
        qual = '%s.%s.%s' % (module, cls, fn.name)
        sha = hashlib.sha1(ast.get_source_segment(src, fn).encode()).hexdigest()[:12]
        for kind, probs in (('frame[loader-state]', frame_problems(fn)), ('raises-only[%s]' % exc, raise_problems(fn, exc))):
            if kind.split('[')[0] not in kinds:
                continue
            out.append(dict(name='%s::%s' % (qual, kind), function=qual, kind='rule-' + kind.split('[')[0], backend='finite',
                            status='discharged' if not probs else 'unknown' if all(x.startswith('?') for x in probs) else 'violated', time_s=time.time() - t0, clause=kind,
                            clause_text='; '.join(probs) if probs else 'the rule function neither writes nor leaks loader state' if kind.startswith('frame')
                            else 'every raise statement raises %s' % exc,
                            witness=None, solver_output='; '.join(probs), source_sha1=sha))
    return out


def sql_rule_frames(tier):
    return rule_obligations('xtuml.load', 'ModelLoader', 'ParsingException')


def oal_rule_raises(tier):
    """C13: the only exception a rule function of the OAL grammar raises by itself is the documented ParseException"""
    return rule_obligations('bridgepoint.oal', 'OALParser', 'ParseException', kinds=('raises-only',))
