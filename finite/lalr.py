"""Finite-state obligations over the LALR(1) automaton of a PLY grammar class, regenerated in memory from the current source.

The automaton is built exactly as ply.yacc.yacc() builds it (ParserReflect -> Grammar -> LRGeneratedTable), from the rule
docstrings and the `precedence` tuple of the class in the working tree; nothing is read from or written to the cached table
files.  With A-PLY (the LR driver follows the table) an obligation that holds for the table holds for every input text.
"""
import time

from vlib import fresh_ply  # noqa: F401
from ply import yacc


class _NL(object):
    def __getattr__(self, n):
        return lambda *a, **k: None


def build_table(cls):
    inst = object.__new__(cls)
    pdict = dict((k, getattr(inst, k)) for k in dir(inst))
    pinfo = yacc.ParserReflect(pdict, log=_NL())
    pinfo.get_all()
    if pinfo.validate_all():
        raise RuntimeError('grammar of %s does not validate' % cls.__name__)
    grammar = yacc.Grammar(pinfo.tokens)
    for term, assoc, level in pinfo.preclist:
        grammar.set_precedence(term, assoc, level)
    for funcname, gram in pinfo.grammar:
        file, line, prodname, syms = gram
        grammar.add_production(prodname, syms, funcname, file, line)
    grammar.set_start(pinfo.start)
    lr = yacc.LRGeneratedTable(grammar, 'LALR', _NL())
    return grammar, lr


# precedence as the property (C07) states it: weakest first; comparisons are non-associative in the language
SPEC_LEVELS = [('left', ['OR']), ('left', ['AND']),
               ('nonassoc', ['LESSTHAN', 'LE', 'DOUBLEEQUAL', 'GT', 'GE', 'NOTEQUAL']),
               ('left', ['PLUS', 'MINUS', 'PIPE']), ('left', ['TIMES', 'DIV', 'AMP', 'CARET']), ('left', ['MOD'])]


def _obl(name, ok, t0, kind, detail=None, witness=None):
    return dict(name=name, function='bridgepoint.oal.OALParser', kind=kind, backend='finite', status='discharged' if ok else 'violated',
                time_s=time.time() - t0, clause=kind, clause_text=detail, witness=witness, solver_output=detail if not ok else '')


def oal_precedence(tier):
    """C07: the parse table resolves every expression conflict the way the property's precedence table says."""
    from bridgepoint import oal
    t0 = time.time()
    grammar, lr = build_table(oal.OALParser)
    prods = grammar.Productions
    spec = {}
    for lvl, (assoc, toks) in enumerate(SPEC_LEVELS):
        for tk in toks:
            spec[tk] = (lvl, assoc)
    out = []
    missing = [tk for tk in spec if tk not in grammar.Terminals]
    out.append(_obl('bridgepoint.oal.OALParser::lalr[operator-tokens-exist]', not missing, t0, 'lalr-table', 'operators of the property missing from the grammar: %s' % missing))
    # binary expression productions: expression -> expression OP expression ; unary: expression -> unary_operator expression
    binprod, unprod, other_bin = {}, [], []
    for k, pr in enumerate(prods):
        rhs = list(pr.prod)
        if pr.name == 'expression' and len(rhs) == 3 and rhs[0] == 'expression' and rhs[2] == 'expression':
            if rhs[1] in spec:
                binprod[rhs[1]] = k
            else:
                other_bin.append(rhs[1])
        if pr.name == 'expression' and len(rhs) == 2 and rhs[1] == 'expression' and rhs[0] != 'LPAREN':
            unprod.append(k)
    nomiss = [tk for tk in spec if tk not in binprod]
    out.append(_obl('bridgepoint.oal.OALParser::lalr[binary-productions-exist]', not nomiss and not other_bin, t0, 'lalr-table',
                    'no production expression -> expression OP expression for %s; unexpected binary operators %s' % (nomiss, other_bin)))
    out.append(_obl('bridgepoint.oal.OALParser::lalr[unary-production-exists]', len(unprod) >= 1, t0, 'lalr-table', 'no unary expression production'))
    # states in which the completed item  expression -> expression a expression .  (or the unary one) can be reduced
    per_pair = {}
    bad_unary = []
    for st, row in lr.lr_action.items():
        reducing = set(-a for a in row.values() if a is not None and a < 0)
        # the completed item is in the state iff its reduction occurs on some lookahead (a conflict resolved as shift on every
        # operator still leaves the reduction on closing tokens such as ')' or ';')
        for a, k in binprod.items():
            if k not in reducing:
                continue
            for b in spec:
                act = row.get(b)
                (la_, asa), (lb, _) = spec[a], spec[b]
                want = 'reduce' if la_ > lb or (la_ == lb and asa == 'left') else ('shift' if la_ < lb else 'error')
                got = 'error' if act is None else ('reduce' if act < 0 and -act == k else ('shift' if act > 0 else 'other-reduce'))
                per_pair.setdefault((a, b), []).append((st, want, got))
        for k in unprod:
            if k in reducing:
                for b in spec:
                    act = row.get(b)
                    got = 'error' if act is None else ('reduce' if act < 0 and -act == k else ('shift' if act > 0 else 'other-reduce'))
                    if got != 'reduce':
                        bad_unary.append((st, b, got))
    for a in spec:
        for b in spec:
            rows = per_pair.get((a, b), [])
            badrows = [(st, want, got) for st, want, got in rows if want != got]
            ok = bool(rows) and not badrows
            want = rows[0][1] if rows else '?'
            wit = None
            if not ok:
                wit = dict(kind='precedence', left_op=a, right_op=b, expected=want, got=badrows[0][2] if badrows else 'no state',
                           text='x1 %s x2 %s x3' % (a, b))
            out.append(_obl('bridgepoint.oal.OALParser::lalr[%s-then-%s:%s]' % (a, b, want), ok, t0, 'lalr-precedence',
                            'after `e %s e` with lookahead %s the table must %s; states: %s' % (a, b, want, badrows[:3] or 'none found'), wit))
    out.append(_obl('bridgepoint.oal.OALParser::lalr[unary-binds-tightest]', not bad_unary, t0, 'lalr-precedence',
                    'after `unary e` every binary lookahead must reduce: %s' % bad_unary[:5],
                    None if not bad_unary else dict(kind='unary', lookahead=bad_unary[0][1], got=bad_unary[0][2])))
    out.append(_obl('bridgepoint.oal.OALParser::lalr[no-unresolved-conflicts]', not lr.sr_conflicts and not lr.rr_conflicts, t0, 'lalr-table',
                    'shift/reduce %s reduce/reduce %s' % ([(s, t) for s, t, _ in lr.sr_conflicts][:5], [(s,) for s, _, _ in lr.rr_conflicts][:5])))
    return out


def sql_conflict_free(tier):
    """C12: the SQL grammar of the loader is LALR(1) without unresolved conflicts (the driver is then linear in the token count)."""
    import xtuml.load
    t0 = time.time()
    grammar, lr = build_table(xtuml.load.ModelLoader)
    o = _obl('xtuml.load.ModelLoader::lalr[no-unresolved-conflicts]', not lr.sr_conflicts and not lr.rr_conflicts, t0, 'lalr-table',
             'shift/reduce %s reduce/reduce %s' % ([(s, t) for s, t, _ in lr.sr_conflicts][:5], [(s,) for s, _, _ in lr.rr_conflicts][:5]))
    o['function'] = 'xtuml.load.ModelLoader'
    return [o]
