"""C18 — one loader, independent metamodels: the schema part of a build replays exactly the accepted statements, in order, and leaves
the loader's statement list alone (call-trace contracts; define_class / define_unique_identifier are abstract, recorded in ghost traces
of the metamodel).  What the technique cannot say here: whether two builds share Python list objects (sequences are values in the
encoding) — that aliasing question is decided by the bounded tier only."""
from pyvc.spec import Module, Raises, Loop
from pyvc.sorts import INT, BOOL, STR, VAL, NONE, RefT, SeqT, SetT, MapT, TupT
from .base import MM

M = Module('contracts.c18', prop='C18')
M.use('contracts.base')
LOADER = RefT('ModelLoader')
STMT = RefT('Stmt')
ATTRS = SeqT(TupT(STR, STR))
M.klass('Stmt', bases=[])
M.klass('CreateClassStmt', bases=['Stmt'])
M.klass('CreateUniqueStmt', bases=['Stmt'])
M.klass('CreateAssociationStmt', bases=['Stmt'])
M.klass('CreateInstanceStmt', bases=['Stmt'])
M.fields({'ModelLoader.statements': SeqT(STMT), 'Stmt.kind': VAL, 'Stmt.attributes': ATTRS,
          'MetaModel.classes_defined': SeqT(TupT(VAL, ATTRS)), 'MetaModel.identifiers_defined': SeqT(TupT(VAL, VAL, SeqT(VAL)))})
WHY = 'call-trace abstraction: the definition is recorded with its arguments (contracts.c10 / bounded c18 own the real function)'
M.contract('xtuml.meta.MetaModel.define_class', [('self', MM), ('kind', VAL), ('attributes', ATTRS), ('doc', VAL, "''")], returns=NONE, trusted=True,
           reason=WHY, ensures={'recorded': 'self.classes_defined == old(self.classes_defined) + [(kind, attributes)]'}, modifies=['self.classes_defined'])
M.contract('xtuml.meta.MetaModel.define_unique_identifier', [('self', MM), ('kind', VAL), ('name', VAL), ('*named_attributes', None)], returns=NONE, trusted=True,
           reason=WHY, ensures={'recorded': 'len(self.identifiers_defined) == len(old(self.identifiers_defined)) + 1 '
                                            'and seq_take(self.identifiers_defined, len(old(self.identifiers_defined))) == old(self.identifiers_defined) '
                                            'and same(self.identifiers_defined[len(old(self.identifiers_defined))][0], kind) '
                                            'and same(self.identifiers_defined[len(old(self.identifiers_defined))][1], name)'},
           modifies=['self.identifiers_defined'])
M.spec('''
def n_classes(stmts, k):
    return 0 if k <= 0 else n_classes(stmts, k - 1) + (1 if isinstance(stmts[k - 1], CreateClassStmt) else 0)

def n_uniques(stmts, k):
    return 0 if k <= 0 else n_uniques(stmts, k - 1) + (1 if isinstance(stmts[k - 1], CreateUniqueStmt) else 0)
''', sorts={'n_classes': ([SeqT(STMT), INT], INT, []), 'n_uniques': ([SeqT(STMT), INT], INT, [])})
M.contract('xtuml.load.ModelLoader.populate_classes', [('self', LOADER), ('metamodel', MM)], returns=NONE,
           lets={'before': 'len(metamodel.classes_defined)'},
           requires={'a-metamodel': 'metamodel is not None', 'statements': 'all(s is not None for s in self.statements)'},
           ensures={'one-definition-per-class-statement': 'len(metamodel.classes_defined) == before + n_classes(self.statements, len(self.statements))',
                    'each-with-the-kind-and-attributes-of-its-statement-in-statement-order':
                    'all(implies(isinstance(self.statements[j], CreateClassStmt), '
                    'same(metamodel.classes_defined[before + n_classes(self.statements, j)][0], self.statements[j].kind) and '
                    'metamodel.classes_defined[before + n_classes(self.statements, j)][1] == self.statements[j].attributes) '
                    'for j in range(0, len(self.statements)))',
                    'earlier-definitions-kept': 'seq_take(metamodel.classes_defined, before) == old(metamodel.classes_defined)',
                    'the-loader-keeps-its-statements': 'self.statements == old(self.statements)'},
           modifies=['metamodel.classes_defined'],
           loops={0: Loop(inv={'walks-the-statements': '_seq == self.statements',
                               'count-so-far': 'len(metamodel.classes_defined) == before + n_classes(self.statements, _i)',
                               'defined-so-far': 'all(implies(isinstance(self.statements[j], CreateClassStmt), '
                                                 'same(metamodel.classes_defined[before + n_classes(self.statements, j)][0], self.statements[j].kind) and '
                                                 'metamodel.classes_defined[before + n_classes(self.statements, j)][1] == self.statements[j].attributes) '
                                                 'for j in range(0, _i))',
                               'positions-are-below-the-count': 'all(implies(isinstance(self.statements[j], CreateClassStmt), 0 <= n_classes(self.statements, j) '
                                                                'and n_classes(self.statements, j) < n_classes(self.statements, _i)) for j in range(0, _i)) and n_classes(self.statements, _i) >= 0',
                               'earlier-kept': 'seq_take(metamodel.classes_defined, before) == old(metamodel.classes_defined)'})})
