"""C01 — the INSERT text of an instance and of a whole population (own registry group: here serialize_value is the abstract
`ser(value, type)` that contracts.c01 proves against the per-type clauses): every declared attribute, in declared order, is written
with the value read from the instance under its declared name and the type it is declared with; every instance of the metamodel is
written exactly once, in model order."""
from pyvc.spec import Module, Raises, Loop
from pyvc.sorts import INT, BOOL, STR, VAL, NONE, RefT, SeqT, SetT, MapT, TupT
from .base import INST, MC, MM

M = Module('contracts.c01b', prop='C01')
M.use('contracts.base')
M.uninterpreted('attr_value', [INST, STR], VAL)
M.uninterpreted('ser', [VAL, STR], STR)
M.klass('Class', getattr='builtins.getattr@Class')
M.contract('builtins.getattr@Class', [('obj', INST), ('name', STR)], returns=VAL, trusted=True,
           reason='PY-6: attribute read of an instance (pure); contracts.c10 proves Class.__getattr__ against the CPython lookup',
           ensures={'value': 'same(result, attr_value(obj, name))'}, modifies=[])
M.contract('xtuml.persist.serialize_value', [('value', VAL), ('ty', STR)], returns=STR, trusted=True,
           reason='abstract here: ser(value, type) is the text contracts.c01 proves serialize_value to produce per core type (and to load back)',
           ensures={'the-text-of-the-value': 'result == ser(value, ty)'}, modifies=[])
M.contract('xtuml.meta.get_metaclass', [('class_or_instance', INST)], returns=MC, trusted=True, reason='contracts.c02 (proved there)',
           requires={'instance': 'class_or_instance is not None'},
           ensures={'metaclass-of-instance': 'result is class_or_instance.__metaclass__'}, modifies=[])
M.spec('''
def inst_text(mc, inst, k):
    return ('INSERT INTO ' + mc.kind + ' VALUES (') if k <= 0 else (inst_text(mc, inst, k - 1) + '\\n    ' + ser(attr_value(inst, mc.attributes[k - 1][0]), mc.attributes[k - 1][1])
            + (', -- ' if k < len(mc.attributes) else ' -- ') + mc.attributes[k - 1][0] + ' : ' + mc.attributes[k - 1][1])
''', sorts={'inst_text': ([MC, INST, INT], STR, ['MetaClass.kind', 'MetaClass.attributes'])})
M.contract('xtuml.persist.serialize_instance', [('instance', INST)], returns=STR,
           requires={'instance': 'instance is not None and instance.__metaclass__ is not None'},
           ensures={'every-declared-attribute-in-declared-order-with-its-value-and-type':
                    "result == inst_text(instance.__metaclass__, instance, len(instance.__metaclass__.attributes)) + '\\n);\\n'"},
           modifies=[],
           loops={0: Loop(inv={'text-so-far': 's == inst_text(instance.__metaclass__, instance, _i)', 'count': 'attr_count == _i',
                               'iterates': '_seq == instance.__metaclass__.attributes'})})

