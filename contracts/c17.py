"""C17 — ordered sets behave as insertion-ordered mathematical sets.

Representation (xtuml/tools.py): a circular doubly linked list of [key, prev, next] list cells through a sentinel `end`, plus
`map`: key -> cell.  Abstraction: ghost fields view (the keys in order), nodes (their cells), idx (position of a key), and the
owner of each cell.  wf(s) ties the representation to the view; every operation keeps wf and states the WHOLE new view.
Ghost fields are assigned at exit points (contract ghost['exit']); they do not exist at run time.
"""
from pyvc.spec import Module, Raises, Loop
from pyvc.sorts import INT, BOOL, STR, VAL, NONE, RefT, SeqT, SetT, MapT, TupT, ArrT
from .base import INST, OSET, QSET

M = Module('contracts.c17', prop='C17')
M.use('contracts.base')

CELL = RefT('Cell')
KEY = INST
M.fields({
    'OrderedSet.end': CELL, 'OrderedSet.map': MapT(KEY, CELL),
    'OrderedSet.nodes': SeqT(CELL), 'OrderedSet.idx': ArrT(KEY, INT),
    'Cell.[0]': KEY, 'Cell.[1]': CELL, 'Cell.[2]': CELL, 'Cell.owner': OSET,
})
M.klass('OrderedSet', len='len(self.view)', iter='self.view', contains='x in self.view', bases=['MutableSet'],
        init_variants={0: 'xtuml.tools.OrderedSet.__init__@none', 1: 'xtuml.tools.OrderedSet.__init__@seq'})
M.klass('MutableSet', bases=['Set'])

M.spec('''
def cell_own(s, i):
    return (allocated(s.nodes[i]) and s.nodes[i] is not s.end and s.nodes[i].owner is s
            and s.nodes[i][0] is s.view[i] and s.view[i] is not None)

def cell_links(s, i):
    return (s.nodes[i][1] is (s.end if i == 0 else s.nodes[i - 1])
            and s.nodes[i][2] is (s.end if i == len(s.view) - 1 else s.nodes[i + 1]))

def cell_map(s, i):
    return s.view[i] in s.map and s.map[s.view[i]] is s.nodes[i] and s.idx[s.view[i]] == i

def cell_ok(s, i):
    return cell_own(s, i) and cell_links(s, i) and cell_map(s, i)

def wf_head(s):
    return (allocated(s.end) and s.end[0] is None and s.end.owner is s
            and len(s.nodes) == len(s.view) and len(s.map) == len(s.view))

def wf_cells(s):
    return all(cell_ok(s, i) for i in range(0, len(s.view)))

def wf_cells_own(s):
    return all(cell_own(s, i) for i in range(0, len(s.view)))

def wf_cells_links(s):
    return all(cell_links(s, i) for i in range(0, len(s.view)))

def wf_cells_map(s):
    return all(cell_map(s, i) for i in range(0, len(s.view)))

def wf_idx(s):
    return all(implies(k in s.map, 0 <= s.idx[k] and s.idx[k] < len(s.view) and s.view[s.idx[k]] is k) for k in anyref('Class'))

def wf_ends(s):
    return (s.end[1] is (s.end if len(s.view) == 0 else s.nodes[len(s.view) - 1])
            and s.end[2] is (s.end if len(s.view) == 0 else s.nodes[0]))

def wf(s):
    return wf_head(s) and wf_cells(s) and wf_idx(s) and wf_ends(s)

def foreign_cells_untouched(s):
    return all(implies(old(c.owner) is not s and not fresh(c),
                       c[0] is old(c[0]) and c[1] is old(c[1]) and c[2] is old(c[2]) and c.owner is old(c.owner))
               for c in anyref('Cell'))
''')

REP = ['self.map', 'self.view', 'self.nodes', 'self.idx', 'Cell.[0]', 'Cell.[1]', 'Cell.[2]', 'Cell.owner']

M.contract('xtuml.tools.OrderedSet.add', [('self', OSET), ('key', KEY)], returns=NONE,
           requires={'wf': 'wf(self)', 'key': 'key is not None'},
           ensures={'wf-head': 'wf_head(self)', 'wf-cells-own': 'wf_cells_own(self)', 'wf-cells-links': 'wf_cells_links(self)', 'wf-cells-map': 'wf_cells_map(self)', 'wf-idx': 'wf_idx(self)', 'wf-ends': 'wf_ends(self)',
                    'view': 'self.view == (old(self.view) if old(key in self.view) else old(self.view) + [key])',
                    'ownership': 'foreign_cells_untouched(self)'},
           modifies=REP,
           ghost={'list_literal_class': 'Cell',
                  'exit': [('self.view', 'old(self.view) if old(key in self.map) else old(self.view) + [key]'),
                           ('self.nodes', 'old(self.nodes) if old(key in self.map) else old(self.nodes) + [self.map[key]]'),
                           ('self.idx', 'old(self.idx) if old(key in self.map) else arr_set(old(self.idx), key, len(old(self.view)))'),
                           ('self.map[key].owner', 'self')]})

M.contract('xtuml.tools.OrderedSet.__len__', [('self', OSET)], returns=INT,
           requires={'wf': 'wf(self)'}, ensures={'len': 'result == len(self.view)'}, modifies=[])
M.contract('xtuml.tools.OrderedSet.__contains__', [('self', OSET), ('key', KEY)], returns=BOOL,
           requires={'wf': 'wf(self)'}, ensures={'membership': 'result == (key in self.view)'}, modifies=[])

M.contract('xtuml.tools.OrderedSet.discard', [('self', OSET), ('key', KEY)], returns=NONE,
           requires={'wf': 'wf(self)'},
           ensures={'wf-head': 'wf_head(self)', 'wf-cells-own': 'wf_cells_own(self)', 'wf-cells-links': 'wf_cells_links(self)', 'wf-cells-map': 'wf_cells_map(self)', 'wf-idx': 'wf_idx(self)', 'wf-ends': 'wf_ends(self)',
                    'view': 'self.view == (seq_without(old(self.view), old(self.idx[key])) if old(key in self.view) else old(self.view))',
                    'view-client-form': 'self.view == seq_remove(old(self.view), key)',
                    'removed-is-absent': 'key not in self.view',
                    'other-members-kept': 'all(implies(v is not key, (v in self.view) == old(v in self.view)) for v in anyref("Class"))',
                    'ownership': 'foreign_cells_untouched(self)'},
           modifies=REP,
           ghost={'exit': [('self.view', 'seq_without(old(self.view), old(self.idx[key])) if old(key in self.map) else old(self.view)'),
                           ('self.nodes', 'seq_without(old(self.nodes), old(self.idx[key])) if old(key in self.map) else old(self.nodes)'),
                           ('self.idx', 'arr_dec_above(old(self.idx), old(self.idx[key])) if old(key in self.map) else old(self.idx)')]})

M.spec('''
def distinct_seq(v):
    return all(all(implies(i < j, v[i] is not v[j]) for j in range(0, len(v))) for i in range(0, len(v)))

def all_new(v, s):
    return all(x not in s for x in v)
''')

M.contract('xtuml.tools.OrderedSet.pop', [('self', OSET), ('last', BOOL, 'True')], returns=KEY,
           requires={'wf': 'wf(self)'},
           ensures={'wf': 'wf(self)',
                    'returns-end-element': 'result is (old(self.view)[len(old(self.view)) - 1] if last else old(self.view)[0])',
                    'view': 'self.view == (seq_take(old(self.view), len(old(self.view)) - 1) if last else seq_drop(old(self.view), 1))',
                    'ownership': 'foreign_cells_untouched(self)'},
           raises=[Raises('KeyError', when='len(self.view) == 0')],
           modifies=REP)

# ---- construction
M.contract('xtuml.tools.OrderedSet.__init__@none', [('self', OSET), ('iterable', NONE, 'None')], returns=NONE,
           requires={'fresh-object': 'allocated(self)'},
           ensures={'wf': 'wf(self)', 'empty': 'len(self.view) == 0', 'ownership': 'foreign_cells_untouched(self)'},
           modifies=['self.end', 'self.map', 'self.view', 'self.nodes', 'self.idx', 'Cell.[0]', 'Cell.[1]', 'Cell.[2]', 'Cell.owner'],
           ghost={'list_literal_class': 'Cell',
                  'exit': [('self.view', '[]'), ('self.nodes', '[]'), ('self.end.owner', 'self')]})

M.contract('xtuml.tools.OrderedSet.__init__@seq', [('self', OSET), ('iterable', SeqT(KEY))], returns=NONE,
           requires={'fresh-object': 'allocated(self)', 'elements': 'all(x is not None for x in iterable)'},
           ensures={'wf': 'wf(self)',
                    'all-arrivals-present': 'all(x in self.view for x in iterable)',
                    'nothing-else': 'all(x in iterable for x in self.view)',
                    'distinct-elements-keep-their-arrival-order': 'implies(distinct_seq(iterable), len(self.view) == len(iterable) and all(self.view[j] is iterable[j] for j in range(0, len(iterable))))',
                    'ownership': 'foreign_cells_untouched(self)'},
           modifies=['self.end', 'self.map', 'self.view', 'self.nodes', 'self.idx', 'Cell.[0]', 'Cell.[1]', 'Cell.[2]', 'Cell.owner'],
           ghost={'list_literal_class': 'Cell',
                  'before_call': {'__ior__': [('self.view', '[]'), ('self.nodes', '[]'), ('self.end.owner', 'self')]}})

# ---- iteration
M.contract('xtuml.tools.OrderedSet.__iter__', [('self', OSET)], kind='generator', yields=KEY,
           requires={'wf': 'wf(self)'},
           ensures={'yields-view-in-order': 'len(result) == len(self.view) and all(result[j] is self.view[j] for j in range(0, len(result)))'}, modifies=[],
           loops={0: Loop(inv={'prefix-yielded': 'len(_yielded) <= len(self.view) and all(_yielded[j] is self.view[j] for j in range(0, len(_yielded)))',
                               'cursor': '_w0 is (self.nodes[len(_yielded)] if len(_yielded) < len(self.view) else self.end)'},
                          decreases='len(self.view) - len(_yielded)')})
M.contract('xtuml.tools.OrderedSet.__reversed__', [('self', OSET)], kind='generator', yields=KEY,
           requires={'wf': 'wf(self)'},
           ensures={'yields-view-reversed': 'len(result) == len(self.view) and all(result[j] is self.view[len(self.view) - 1 - j] for j in range(0, len(result)))'},
           modifies=[],
           loops={0: Loop(inv={'suffix-yielded': 'len(_yielded) <= len(self.view) and all(_yielded[j] is self.view[len(self.view) - 1 - j] for j in range(0, len(_yielded)))',
                               'cursor': '_w0 is (self.nodes[len(self.view) - 1 - len(_yielded)] if len(_yielded) < len(self.view) else self.end)'},
                          decreases='len(self.view) - len(_yielded)')})

# ---- comparison, ends, removal, in-place union
M.contract('xtuml.tools.OrderedSet.__eq__@OrderedSet', [('self', OSET), ('other', OSET)], returns=BOOL,
           requires={'wf': 'wf(self) and other is not None and wf(other)'},
           ensures={'same-elements-same-order': 'result == (self.view == other.view)'}, modifies=[])
M.contract('xtuml.meta.QuerySet.first', [('self', QSET)], returns=KEY, kind='property',
           requires={'wf': 'wf(self)'},
           ensures={'first-or-none': 'result is (self.view[0] if len(self.view) > 0 else None)'}, modifies=[])
M.contract('xtuml.meta.QuerySet.last', [('self', QSET)], returns=KEY, kind='property',
           requires={'wf': 'wf(self)'},
           ensures={'last-or-none': 'result is (self.view[len(self.view) - 1] if len(self.view) > 0 else None)'}, modifies=[])
M.contract('_collections_abc.MutableSet.remove', [('self', OSET), ('value', KEY)], returns=NONE,
           requires={'wf': 'wf(self)'},
           ensures={'wf': 'wf(self)', 'view': 'self.view == seq_without(old(self.view), old(self.idx[value]))',
                    'view-client-form': 'self.view == seq_remove(old(self.view), value)',
                    'removed-is-absent': 'value not in self.view',
                    'other-members-kept': 'all(implies(v is not value, (v in self.view) == old(v in self.view)) for v in anyref("Class"))',
                    'ownership': 'foreign_cells_untouched(self)'},
           raises=[Raises('KeyError', when='value not in self.view')],
           modifies=REP)
M.contract('_collections_abc.MutableSet.__ior__@seq', [('self', OSET), ('it', SeqT(KEY))], returns=OSET,
           requires={'wf': 'wf(self)', 'elements': 'all(x is not None for x in it)'},
           ensures={'wf': 'wf(self)', 'returns-self': 'result is self',
                    'old-elements-keep-their-places': 'len(self.view) >= len(old(self.view)) and all(self.view[j] is old(self.view)[j] for j in range(0, len(old(self.view))))',
                    'all-arrivals-present': 'all(x in self.view for x in it)',
                    'nothing-else': 'all(x in old(self.view) or x in it for x in self.view)',
                    'distinct-new-arrivals-are-appended-in-arrival-order':
                    'implies(distinct_seq(it) and all_new(it, old(self.view)), len(self.view) == len(old(self.view)) + len(it) and all(self.view[len(old(self.view)) + j] is it[j] for j in range(0, len(it))))',
                    'ownership': 'foreign_cells_untouched(self)'},
           modifies=REP,
           loops={0: Loop(inv={'wf': 'wf(self)',
                               'distinct-new-arrivals-appended-so-far':
                               'implies(distinct_seq(it) and all_new(it, old(self.view)), len(self.view) == len(old(self.view)) + _i and all(self.view[len(old(self.view)) + j] is it[j] for j in range(0, _i)))',
                               'old-elements-keep-their-places': 'len(self.view) >= len(old(self.view)) and all(self.view[j] is old(self.view)[j] for j in range(0, len(old(self.view))))',
                               'arrivals-so-far-present': 'all(_seq[j] in self.view for j in range(0, _i))',
                               'nothing-else': 'all(x in old(self.view) or any(_seq[j] is x for j in range(0, _i)) for x in self.view)',
                               'ownership': 'foreign_cells_untouched(self)', 'iterates': '_seq == it'})})

# ---- the property's sentences as lemmas over the contracts above (client programs, checked against contracts only)
M.lemma('C17.lemma.insertion_order_and_set_semantics', [('a', KEY), ('b', KEY), ('c', KEY)],
        requires={'distinct': 'a is not None and b is not None and c is not None and a is not b and b is not c and a is not c'},
        source='''
def lemma(a, b, c):
    s = OrderedSet()
    s.add(a)
    s.add(b)
    s.add(a)
    assert s.view == [a, b]
    assert len(s) == 2 and a in s and b in s and c not in s
    s.add(c)
    s.discard(b)
    assert s.view == [a, c]
    s.add(b)
    assert s.view == [a, c, b]
    x = s.pop()
    assert x is b and s.view == [a, c]
    y = s.pop(False)
    assert y is a and s.view == [c]
    s.discard(b)
    assert s.view == [c]
''')
M.lemma('C17.lemma.two_sets_do_not_interfere', [('a', KEY), ('b', KEY)],
        requires={'distinct': 'a is not None and b is not None and a is not b'},
        source='''
def lemma(a, b):
    s = OrderedSet()
    t = OrderedSet()
    s.add(a)
    t.add(b)
    s.add(b)
    t.discard(b)
    assert s.view == [a, b]
    assert len(t.view) == 0
''')
