"""C17 — ordered sets behave as insertion-ordered mathematical sets.

Representation (xtuml/tools.py): a circular doubly linked list of [key, prev, next] list cells through a sentinel `end`, plus
`map`: key -> cell.  Abstraction: ghost fields view (the keys in order), nodes (their cells), idx (position of a key), and the
owner of each cell.  wf(s) ties the representation to the view; every operation keeps wf and states the WHOLE new view.
Ghost fields are assigned at exit points (contract ghost['exit']); they do not exist at run time.
"""
from pyvc.spec import Module, Raises, Loop
from pyvc.sorts import INT, BOOL, STR, VAL, NONE, RefT, SeqT, SetT, MapT, TupT, ArrT
from .base import INST, OSET, QSET

M = Module('contracts.c17', prop='C17')
M.use('contracts.base')

CELL = RefT('Cell')
KEY = INST
M.fields({
    'OrderedSet.end': CELL, 'OrderedSet.map': MapT(KEY, CELL),
    'OrderedSet.nodes': SeqT(CELL), 'OrderedSet.idx': ArrT(KEY, INT),
    'Cell.[0]': KEY, 'Cell.[1]': CELL, 'Cell.[2]': CELL, 'Cell.owner': OSET,
})
M.klass('OrderedSet', len='len(self.view)', iter='self.view', contains='x in self.view', bases=['MutableSet'],
        init_variants={0: 'xtuml.tools.OrderedSet.__init__@none', 1: 'xtuml.tools.OrderedSet.__init__@seq'})
M.klass('MutableSet', bases=['Set'])

M.spec('''
def cell_own(s, i):
    return (allocated(s.nodes[i]) and s.nodes[i] is not s.end and s.nodes[i].owner is s
            and s.nodes[i][0] is s.view[i] and s.view[i] is not None)

def cell_links(s, i):
    return (s.nodes[i][1] is (s.end if i == 0 else s.nodes[i - 1])
            and s.nodes[i][2] is (s.end if i == len(s.view) - 1 else s.nodes[i + 1]))

def cell_map(s, i):
    return s.view[i] in s.map and s.map[s.view[i]] is s.nodes[i] and s.idx[s.view[i]] == i

def cell_ok(s, i):
    return cell_own(s, i) and cell_links(s, i) and cell_map(s, i)

def wf_head(s):
    return (allocated(s.end) and s.end[0] is None and s.end.owner is s
            and len(s.nodes) == len(s.view) and len(s.map) == len(s.view))

def wf_cells(s):
    return all(cell_ok(s, i) for i in range(0, len(s.view)))

def wf_cells_own(s):
    return all(cell_own(s, i) for i in range(0, len(s.view)))

def wf_cells_links(s):
    return all(cell_links(s, i) for i in range(0, len(s.view)))

def wf_cells_map(s):
    return all(cell_map(s, i) for i in range(0, len(s.view)))

def wf_idx(s):
    return all(implies(k in s.map, 0 <= s.idx[k] and s.idx[k] < len(s.view) and s.view[s.idx[k]] is k) for k in anyref('Class'))

def wf_ends(s):
    return (s.end[1] is (s.end if len(s.view) == 0 else s.nodes[len(s.view) - 1])
            and s.end[2] is (s.end if len(s.view) == 0 else s.nodes[0]))

def wf(s):
    return wf_head(s) and wf_cells(s) and wf_idx(s) and wf_ends(s)

def foreign_cells_untouched(s):
    return all(implies(old(c.owner) is not s and not fresh(c),
                       c[0] is old(c[0]) and c[1] is old(c[1]) and c[2] is old(c[2]) and c.owner is old(c.owner))
               for c in anyref('Cell'))
''')

REP = ['self.map', 'self.view', 'self.nodes', 'self.idx', 'Cell.[0]', 'Cell.[1]', 'Cell.[2]', 'Cell.owner']

M.contract('xtuml.tools.OrderedSet.add', [('self', OSET), ('key', KEY)], returns=NONE,
           requires={'wf': 'wf(self)', 'key': 'key is not None'},
           ensures={'wf-head': 'wf_head(self)', 'wf-cells-own': 'wf_cells_own(self)', 'wf-cells-links': 'wf_cells_links(self)', 'wf-cells-map': 'wf_cells_map(self)', 'wf-idx': 'wf_idx(self)', 'wf-ends': 'wf_ends(self)',
                    'view': 'self.view == (old(self.view) if old(key in self.view) else old(self.view) + [key])',
                    'ownership': 'foreign_cells_untouched(self)'},
           modifies=REP,
           ghost={'list_literal_class': 'Cell',
                  'exit': [('self.view', 'old(self.view) if old(key in self.map) else old(self.view) + [key]'),
                           ('self.nodes', 'old(self.nodes) if old(key in self.map) else old(self.nodes) + [self.map[key]]'),
                           ('self.idx', 'old(self.idx) if old(key in self.map) else arr_set(old(self.idx), key, len(old(self.view)))'),
                           ('self.map[key].owner', 'self')]})

M.contract('xtuml.tools.OrderedSet.__len__', [('self', OSET)], returns=INT,
           requires={'wf': 'wf(self)'}, ensures={'len': 'result == len(self.view)'}, modifies=[])
M.contract('xtuml.tools.OrderedSet.__contains__', [('self', OSET), ('key', KEY)], returns=BOOL,
           requires={'wf': 'wf(self)'}, ensures={'membership': 'result == (key in self.view)'}, modifies=[])

M.contract('xtuml.tools.OrderedSet.discard', [('self', OSET), ('key', KEY)], returns=NONE,
           requires={'wf': 'wf(self)'},
           ensures={'wf-head': 'wf_head(self)', 'wf-cells-own': 'wf_cells_own(self)', 'wf-cells-links': 'wf_cells_links(self)', 'wf-cells-map': 'wf_cells_map(self)', 'wf-idx': 'wf_idx(self)', 'wf-ends': 'wf_ends(self)',
                    'view': 'self.view == (seq_without(old(self.view), old(self.idx[key])) if old(key in self.view) else old(self.view))',
                    'ownership': 'foreign_cells_untouched(self)'},
           modifies=REP,
           ghost={'exit': [('self.view', 'seq_without(old(self.view), old(self.idx[key])) if old(key in self.map) else old(self.view)'),
                           ('self.nodes', 'seq_without(old(self.nodes), old(self.idx[key])) if old(key in self.map) else old(self.nodes)'),
                           ('self.idx', 'arr_dec_above(old(self.idx), old(self.idx[key])) if old(key in self.map) else old(self.idx)')]})

M.contract('xtuml.tools.OrderedSet.pop', [('self', OSET), ('last', BOOL, 'True')], returns=KEY,
           requires={'wf': 'wf(self)'},
           ensures={'wf': 'wf(self)',
                    'returns-end-element': 'result is (old(self.view)[len(old(self.view)) - 1] if last else old(self.view)[0])',
                    'view': 'self.view == (seq_take(old(self.view), len(old(self.view)) - 1) if last else seq_drop(old(self.view), 1))',
                    'ownership': 'foreign_cells_untouched(self)'},
           raises=[Raises('KeyError', when='len(self.view) == 0')],
           modifies=REP)
