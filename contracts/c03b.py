"""C03 — the key computations, null half (own registry group: here xtuml.meta._is_null is the opaque restatement of the contract
that contracts.c03 proves): a key with a null component is no key at all, so nothing is linked through it."""
from pyvc.spec import Module, Raises, Loop
from pyvc.sorts import INT, BOOL, STR, VAL, NONE, RefT, SeqT, SetT, MapT, TupT
from .base import INST, MC, MM, LINK

M = Module('contracts.c03b', prop='C03')
M.use('contracts.base')
M.uninterpreted('attr_value', [INST, STR], VAL)
M.klass('Class', getattr='builtins.getattr@Class')
M.contract('builtins.getattr@Class', [('obj', INST), ('name', STR)], returns=VAL, trusted=True,
           reason='PY-6: attribute read of an instance (pure); contracts.c10 proves Class.__getattr__ against the CPython lookup',
           ensures={'value': 'same(result, attr_value(obj, name))'}, modifies=[])

# ---- the key computations, null half: a key with a null component is no key at all (so nothing is linked through it).
#      Variants `@null-component`: the exit that returns the frozenset is proved dead under the precondition; the variant for
#      complete keys would need a result sort "None or set of pairs", which the encoding does not have (bounded tier: c03 item join).
M.uninterpreted('null_attr', [INST, STR], BOOL)
M.contract('xtuml.meta._is_null', [('instance', INST), ('name', STR)], returns=VAL, trusted=True,
           reason='opaque restatement of the contract proved in contracts.c03: null_attr(i, n) abbreviates is_null_value(i.__metaclass__, n, raw_value(i, n)), '
                  'which xtuml.meta._is_null is proved to compute; the definition is hidden here because the two proofs below do not need it '
                  '(with it unfolded the dead-exit queries have three nested quantifier alternations and are not refuted within the budget)',
           requires={'instance': 'instance is not None and instance.__metaclass__ is not None'},
           ensures={'null-iff-unset-or-zero-id-or-empty-string': 'bool(result) == null_attr(instance, name)'}, modifies=[])
M.contract('xtuml.meta.Link.compute_index_key@null-component', [('self', LINK), ('to_instance', INST)], returns=NONE,
           requires={'instance': 'to_instance is not None and to_instance.__metaclass__ is not None',
                     'some-identifying-component-is-null': 'any(null_attr(to_instance, self.key_map[k]) for k in map_keys(self.key_map))'},
           ensures={'no-key': 'result is None'}, modifies=[],
           loops={0: Loop(inv={'walks-the-identifying-attributes': 'len(_seq) == len(map_keys(self.key_map)) and all(_seq[j] == self.key_map[map_keys(self.key_map)[j]] for j in range(0, len(_seq)))',
                               'no-null-component-so-far': 'all(not null_attr(to_instance, _seq[j]) for j in range(0, _i))'})},
           locals={'kwargs': MapT(STR, VAL)})
M.contract('xtuml.meta.Link.compute_lookup_key@null-component', [('self', LINK), ('from_instance', INST)], returns=NONE,
           requires={'instance': 'from_instance is not None and from_instance.__metaclass__ is not None',
                     'some-referential-component-is-null': 'any(null_attr(from_instance, k) for k in map_keys(self.key_map))'},
           ensures={'no-key': 'result is None'}, modifies=[],
           loops={0: Loop(inv={'walks-the-key-map': 'len(_seq) == len(map_keys(self.key_map)) and all(_seq[j][0] == map_keys(self.key_map)[j] and _seq[j][1] == self.key_map[map_keys(self.key_map)[j]] for j in range(0, len(_seq)))',
                               'no-null-component-so-far': 'all(not null_attr(from_instance, _seq[j][0]) for j in range(0, _i))'})},
           locals={'kwargs': MapT(STR, VAL)})
