"""C18 — the other schema passes of a build (own registry: here Stmt.attributes is a list of attribute *names*, as in
CreateUniqueStmt; contracts.c18 types it as (name, type) pairs for CreateClassStmt): populate_unique_identifiers and
populate_associations replay exactly the accepted statements of their kind, in statement order, with the arguments of each
statement, formalize every association they define, and leave the loader's statement list alone (call-trace contracts;
define_unique_identifier / define_association / formalize are abstract, recorded in ghost traces of the metamodel)."""
from pyvc.spec import Module, Raises, Loop
from pyvc.sorts import INT, BOOL, STR, VAL, NONE, RefT, SeqT, SetT, MapT, TupT
from .base import MM, ASSOC

M = Module('contracts.c18b', prop='C18')
M.use('contracts.base')
LOADER = RefT('ModelLoader')
STMT = RefT('Stmt')
NAMES = SeqT(VAL)
M.klass('Stmt', bases=[])
M.klass('CreateClassStmt', bases=['Stmt'])
M.klass('CreateUniqueStmt', bases=['Stmt'])
M.klass('CreateAssociationStmt', bases=['Stmt'])
M.klass('CreateInstanceStmt', bases=['Stmt'])
M.fields({'ModelLoader.statements': SeqT(STMT), 'Stmt.kind': VAL, 'Stmt.name': VAL, 'Stmt.attributes': NAMES,
          'Stmt.rel_id': VAL, 'Stmt.source_kind': VAL, 'Stmt.source_keys': NAMES, 'Stmt.source_cardinality': STR, 'Stmt.source_phrase': VAL,
          'Stmt.target_kind': VAL, 'Stmt.target_keys': NAMES, 'Stmt.target_cardinality': STR, 'Stmt.target_phrase': VAL,
          'MetaModel.identifiers_defined': SeqT(TupT(VAL, VAL, NAMES)),
          'MetaModel.associations_made': SeqT(ASSOC), 'Association.formalized': INT,
          # ghost record of the arguments an association was defined with
          'Association.d_rel_id': VAL, 'Association.d_source_kind': VAL, 'Association.d_source_keys': NAMES, 'Association.d_source_many': BOOL,
          'Association.d_source_conditional': BOOL, 'Association.d_source_phrase': VAL, 'Association.d_target_kind': VAL,
          'Association.d_target_keys': NAMES, 'Association.d_target_many': BOOL, 'Association.d_target_conditional': BOOL,
          'Association.d_target_phrase': VAL})
WHY = 'call-trace abstraction: the definition is recorded with its arguments (contracts.c10 / contracts.c02 / bounded c18 own the real function)'
M.contract('xtuml.meta.MetaModel.define_unique_identifier', [('self', MM), ('kind', VAL), ('name', VAL), ('*named_attributes', None)], returns=NONE, trusted=True,
           reason=WHY, ensures={'recorded': 'self.identifiers_defined == old(self.identifiers_defined) + [(kind, name, named_attributes)]'},
           modifies=['self.identifiers_defined'])
M.spec('''
def n_uniques(stmts, k):
    return 0 if k <= 0 else n_uniques(stmts, k - 1) + (1 if isinstance(stmts[k - 1], CreateUniqueStmt) else 0)

def n_assocs(stmts, k):
    return 0 if k <= 0 else n_assocs(stmts, k - 1) + (1 if isinstance(stmts[k - 1], CreateAssociationStmt) else 0)
''', sorts={'n_uniques': ([SeqT(STMT), INT], INT, []), 'n_assocs': ([SeqT(STMT), INT], INT, [])})

UNIQ = ('all(implies(isinstance(self.statements[j], CreateUniqueStmt), '
        'same(metamodel.identifiers_defined[before + n_uniques(self.statements, j)][0], self.statements[j].kind) and '
        'same(metamodel.identifiers_defined[before + n_uniques(self.statements, j)][1], self.statements[j].name) and '
        'metamodel.identifiers_defined[before + n_uniques(self.statements, j)][2] == self.statements[j].attributes) '
        'for j in range(0, %s))')
M.contract('xtuml.load.ModelLoader.populate_unique_identifiers', [('self', LOADER), ('metamodel', MM)], returns=NONE,
           lets={'before': 'len(metamodel.identifiers_defined)'},
           requires={'a-metamodel': 'metamodel is not None', 'statements': 'all(s is not None for s in self.statements)'},
           ensures={'one-definition-per-identifier-statement': 'len(metamodel.identifiers_defined) == before + n_uniques(self.statements, len(self.statements))',
                    'each-with-the-class-name-and-attributes-of-its-statement-in-statement-order': UNIQ % 'len(self.statements)',
                    'earlier-definitions-kept': 'seq_take(metamodel.identifiers_defined, before) == old(metamodel.identifiers_defined)',
                    'the-loader-keeps-its-statements': 'self.statements == old(self.statements)'},
           modifies=['metamodel.identifiers_defined'],
           loops={0: Loop(inv={'walks-the-statements': '_seq == self.statements',
                               'count-so-far': 'len(metamodel.identifiers_defined) == before + n_uniques(self.statements, _i)',
                               'defined-so-far': UNIQ % '_i',
                               'positions-are-below-the-count': 'all(implies(isinstance(self.statements[j], CreateUniqueStmt), 0 <= n_uniques(self.statements, j) '
                                                                'and n_uniques(self.statements, j) < n_uniques(self.statements, _i)) for j in range(0, _i)) and n_uniques(self.statements, _i) >= 0',
                               'earlier-kept': 'seq_take(metamodel.identifiers_defined, before) == old(metamodel.identifiers_defined)'})})

# ---- associations: one define_association per CREATE ROP statement, with both ends as written, each result formalized once
DFIELDS = ['rel_id', 'source_kind', 'source_keys', 'source_many', 'source_conditional', 'source_phrase',
           'target_kind', 'target_keys', 'target_many', 'target_conditional', 'target_phrase']
GHOST = ['fresh:Association.d_%s' % f for f in DFIELDS] + ['fresh:Association.formalized']
M.contract('xtuml.meta.MetaModel.define_association',
           [('self', MM), ('rel_id', VAL), ('source_kind', VAL), ('source_keys', NAMES), ('source_many', BOOL), ('source_conditional', BOOL), ('source_phrase', VAL),
            ('target_kind', VAL), ('target_keys', NAMES), ('target_many', BOOL), ('target_conditional', BOOL), ('target_phrase', VAL)],
           returns=ASSOC, trusted=True, reason=WHY,
           ensures={'made': 'result is not None and fresh(result) and result.formalized == 0 and self.associations_made == old(self.associations_made) + [result]',
                    'recorded': ' and '.join(('result.d_%s == %s' if ('keys' in f or 'many' in f or 'cond' in f) else 'same(result.d_%s, %s)') % (f, f) for f in DFIELDS)},
           modifies=['self.associations_made'] + GHOST, ghost={'allocates': True})
M.contract('xtuml.meta.Association.formalize', [('self', ASSOC)], returns=NONE, trusted=True,
           reason='call-trace abstraction: counts the calls (contracts.c02 / bounded c02, c10 own the referential properties it installs)',
           ensures={'counted': 'self.formalized == old(self.formalized) + 1'}, modifies=['self.formalized'])
A = 'metamodel.associations_made[before + n_assocs(self.statements, j)]'
S = 'self.statements[j]'
ASSO = ('all(implies(isinstance(' + S + ', CreateAssociationStmt), '
        'same(' + A + '.d_rel_id, ' + S + '.rel_id) and '
        'same(' + A + '.d_source_kind, ' + S + '.source_kind) and ' + A + '.d_source_keys == ' + S + '.source_keys and '
        + A + '.d_source_many == ("M" in ' + S + '.source_cardinality) and ' + A + '.d_source_conditional == ("C" in ' + S + '.source_cardinality) and '
        'same(' + A + '.d_source_phrase, ' + S + '.source_phrase) and '
        'same(' + A + '.d_target_kind, ' + S + '.target_kind) and ' + A + '.d_target_keys == ' + S + '.target_keys and '
        + A + '.d_target_many == ("M" in ' + S + '.target_cardinality) and ' + A + '.d_target_conditional == ("C" in ' + S + '.target_cardinality) and '
        'same(' + A + '.d_target_phrase, ' + S + '.target_phrase) and ' + A + '.formalized == 1) '
        'for j in range(0, %s))')
M.contract('xtuml.load.ModelLoader.populate_associations', [('self', LOADER), ('metamodel', MM)], returns=NONE,
           lets={'before': 'len(metamodel.associations_made)'},
           requires={'a-metamodel': 'metamodel is not None', 'statements': 'all(s is not None for s in self.statements)',
                     'made-are-allocated': 'all(a is not None and allocated(a) for a in metamodel.associations_made)'},
           ensures={'one-association-per-association-statement': 'len(metamodel.associations_made) == before + n_assocs(self.statements, len(self.statements))',
                    'each-with-the-number-ends-keys-multiplicity-and-phrases-of-its-statement-in-statement-order-and-formalized-exactly-once': ASSO % 'len(self.statements)',
                    'earlier-associations-kept': 'seq_take(metamodel.associations_made, before) == old(metamodel.associations_made)',
                    'the-loader-keeps-its-statements': 'self.statements == old(self.statements)'},
           modifies=['metamodel.associations_made'] + GHOST,
           loops={0: Loop(inv={'walks-the-statements': '_seq == self.statements',
                               'count-so-far': 'len(metamodel.associations_made) == before + n_assocs(self.statements, _i)',
                               'defined-so-far': ASSO % '_i',
                               'made-prefix-kept': 'len(metamodel.associations_made) >= before and seq_take(metamodel.associations_made, before) == old(metamodel.associations_made)',
                               'made-are-allocated': 'all(a is not None and allocated(a) for a in metamodel.associations_made)',
                               'made-here-are-fresh-and-distinct': 'all(implies(before <= j, fresh(metamodel.associations_made[j]) and '
                                                      'all(implies(j < k, metamodel.associations_made[j] is not metamodel.associations_made[k]) for k in range(0, len(metamodel.associations_made)))) '
                                                      'for j in range(0, len(metamodel.associations_made)))',
                               'positions-are-below-the-count': 'all(implies(isinstance(self.statements[j], CreateAssociationStmt), 0 <= n_assocs(self.statements, j) '
                                                                'and n_assocs(self.statements, j) < n_assocs(self.statements, _i)) for j in range(0, _i)) and n_assocs(self.statements, _i) >= 0'})})

# ---- instances: one creation per INSERT statement, in statement order, through the named or the positional route as the statement
#      was written (call trace; what each route stores is decided by the bounded tier and, for values, by contracts.c01)
M.fields({'Stmt.names': NAMES, 'MetaModel.instances_populated': SeqT(TupT(BOOL, STMT))})
WHY_I = 'call-trace abstraction: the creation is recorded with its route and statement (bounded c12 / c18 / c01 own the real function)'
M.contract('xtuml.load.ModelLoader._populate_instance_with_named_arguments', [('metamodel', MM), ('stmt', STMT)], returns=NONE, trusted=True, reason=WHY_I,
           kind='staticmethod',
           ensures={'recorded': 'metamodel.instances_populated == old(metamodel.instances_populated) + [(True, stmt)]'}, modifies=['metamodel.instances_populated'])
M.contract('xtuml.load.ModelLoader._populate_instance_with_positional_arguments', [('metamodel', MM), ('stmt', STMT)], returns=NONE, trusted=True, reason=WHY_I,
           kind='staticmethod',
           ensures={'recorded': 'metamodel.instances_populated == old(metamodel.instances_populated) + [(False, stmt)]'}, modifies=['metamodel.instances_populated'])
M.spec('''
def n_insts(stmts, k):
    return 0 if k <= 0 else n_insts(stmts, k - 1) + (1 if isinstance(stmts[k - 1], CreateInstanceStmt) else 0)
''', sorts={'n_insts': ([SeqT(STMT), INT], INT, [])})
INS = ('all(implies(isinstance(self.statements[j], CreateInstanceStmt), '
       'metamodel.instances_populated[before + n_insts(self.statements, j)][1] is self.statements[j] and '
       'metamodel.instances_populated[before + n_insts(self.statements, j)][0] == (len(self.statements[j].names) > 0)) '
       'for j in range(0, %s))')
M.contract('xtuml.load.ModelLoader.populate_instances', [('self', LOADER), ('metamodel', MM)], returns=NONE,
           lets={'before': 'len(metamodel.instances_populated)'},
           requires={'a-metamodel': 'metamodel is not None', 'statements': 'all(s is not None for s in self.statements)'},
           ensures={'one-creation-per-insert-statement': 'len(metamodel.instances_populated) == before + n_insts(self.statements, len(self.statements))',
                    'each-statement-in-statement-order-through-the-route-it-was-written-for': INS % 'len(self.statements)',
                    'earlier-creations-kept': 'seq_take(metamodel.instances_populated, before) == old(metamodel.instances_populated)',
                    'the-loader-keeps-its-statements': 'self.statements == old(self.statements)'},
           modifies=['metamodel.instances_populated'],
           loops={0: Loop(inv={'walks-the-statements': '_seq == self.statements',
                               'count-so-far': 'len(metamodel.instances_populated) == before + n_insts(self.statements, _i)',
                               'created-so-far': INS % '_i',
                               'positions-are-below-the-count': 'all(implies(isinstance(self.statements[j], CreateInstanceStmt), 0 <= n_insts(self.statements, j) '
                                                                'and n_insts(self.statements, j) < n_insts(self.statements, _i)) for j in range(0, _i)) and n_insts(self.statements, _i) >= 0',
                               'earlier-kept': 'len(metamodel.instances_populated) >= before and seq_take(metamodel.instances_populated, before) == old(metamodel.instances_populated)'})})
