"""C16 — sort_reflexive: only its two guard paths are within the verifier's reach (the search for the opposite phrase is a for/else
over the links, the walk a nested generator with a filter closure: bounded tier)."""
from pyvc.spec import Module, Raises, Loop
from pyvc.sorts import INT, BOOL, STR, VAL, NONE, RefT, SeqT, SetT, MapT, TupT
from .base import INST, OSET, QSET

M = Module('contracts.c16', prop='C16')
M.use('contracts.base', 'contracts.oset_client')
M.klass('QuerySet', bases=['OrderedSet'], init_variants={0: 'xtuml.tools.OrderedSet.__init__@none'})
M.contract('xtuml.meta.QuerySet.first', [('self', QSET)], returns=INST, kind='property', trusted=True,
           reason='proved in contracts.c17', ensures={'first-or-none': 'result is (self.view[0] if len(self.view) > 0 else None)'}, modifies=[])
M.contract('xtuml.meta.sort_reflexive@empty', [('set_of_instances', QSET), ('rel_id', VAL), ('phrase', STR)], returns=QSET,
           requires={'an-empty-query-set': 'set_of_instances is not None and len(set_of_instances.view) == 0'},
           ensures={'nothing-to-sort': 'result is not None and len(result.view) == 0'}, modifies=[])
M.contract('xtuml.meta.sort_reflexive@not-a-query-set', [('set_of_instances', OSET), ('rel_id', VAL), ('phrase', STR)], returns=QSET,
           requires={'some-other-collection': 'set_of_instances is None or not isinstance(set_of_instances, QuerySet)'},
           raises=[Raises('MetaException', when='True')], modifies=[])
