"""C16 — sort_reflexive: only its two guard paths are within the verifier's reach (the search for the opposite phrase is a for/else
over the links, the walk a nested generator with a filter closure: bounded tier)."""
from pyvc.spec import Module, Raises, Loop
from pyvc.sorts import INT, BOOL, STR, VAL, NONE, RefT, SeqT, SetT, MapT, TupT
from .base import INST, OSET, QSET

M = Module('contracts.c16', prop='C16')
M.use('contracts.base', 'contracts.oset_client')
M.klass('QuerySet', bases=['OrderedSet'], init_variants={0: 'xtuml.tools.OrderedSet.__init__@none'})
M.contract('xtuml.meta.QuerySet.first', [('self', QSET)], returns=INST, kind='property', trusted=True,
           reason='proved in contracts.c17', ensures={'first-or-none': 'result is (self.view[0] if len(self.view) > 0 else None)'}, modifies=[])
M.contract('xtuml.meta.sort_reflexive@empty', [('set_of_instances', QSET), ('rel_id', VAL), ('phrase', STR)], returns=QSET,
           requires={'an-empty-query-set': 'set_of_instances is not None and len(set_of_instances.view) == 0'},
           ensures={'nothing-to-sort': 'result is not None and len(result.view) == 0'}, modifies=[])
M.contract('xtuml.meta.sort_reflexive@not-a-query-set', [('set_of_instances', OSET), ('rel_id', VAL), ('phrase', STR)], returns=QSET,
           requires={'some-other-collection': 'set_of_instances is None or not isinstance(set_of_instances, QuerySet)'},
           raises=[Raises('MetaException', when='True')], modifies=[])

# ---- the search for the opposite phrase: without a reflexive link of that number carrying another phrase there is nothing to sort across
M.use('contracts.c02')
M.spec('''
def opposite_candidate(l, mc, rel, phrase):
    return l.to_metaclass is mc and l.rel_id == rel and l.phrase != phrase
''')
M.contract('xtuml.meta.sort_reflexive@no-opposite-phrase', [('set_of_instances', QSET), ('rel_id', VAL), ('phrase', STR)], returns=QSET,
           requires={'a-non-empty-query-set': 'set_of_instances is not None and isinstance(set_of_instances, QuerySet) and len(set_of_instances.view) > 0 '
                                              'and set_of_instances.view[0] is not None and set_of_instances.view[0].__metaclass__ is not None',
                     'rel-id-shape': 'is_int(rel_id) or is_str(rel_id)',
                     'links': 'all(set_of_instances.view[0].__metaclass__.links[k] is not None for k in map_keys(set_of_instances.view[0].__metaclass__.links))',
                     'no-reflexive-link-of-that-number-with-another-phrase':
                     'all(not opposite_candidate(set_of_instances.view[0].__metaclass__.links[k], set_of_instances.view[0].__metaclass__, norm_rel(rel_id), phrase) '
                     'for k in map_keys(set_of_instances.view[0].__metaclass__.links))'},
           raises=[Raises('UnknownLinkException', when='True')], modifies=[],
           loops={0: Loop(inv={'walks-the-links': 'len(_seq) == len(map_keys(metaclass.links)) and all(_seq[j] is metaclass.links[map_keys(metaclass.links)[j]] for j in range(0, len(_seq)))',
                               'rel-normalised': 'rel_id == norm_rel(old(rel_id))',
                               'metaclass': 'metaclass is set_of_instances.view[0].__metaclass__'})})
