"""C13 — source positions: find_column, token rules' end positions."""
from pyvc.spec import Module, Raises, Loop
from pyvc.sorts import INT, BOOL, STR, VAL, NONE, RefT, SeqT, SetT, MapT, TupT

M = Module('contracts.c13', prop='C13')

M.contract('bridgepoint.oal.find_column', [('lexdata', STR), ('lexpos', INT)], returns=INT,
           requires={'position-in-text': '0 <= lexpos and lexpos <= len(lexdata)'},
           ensures={
               'first-line-columns-count-from-one': "implies(all(lexdata[i] != '\\n' for i in range(0, lexpos)), result == lexpos + 1)",
               'column-counts-from-last-newline': "all(implies(0 <= k and k < lexpos and lexdata[k] == '\\n' and all(lexdata[i] != '\\n' for i in range(k + 1, lexpos)), "
                                                  "result == lexpos - k) for k in ints())"},
           modifies=[])

# ---- token rules: every rule records where its token ends; rules whose token may contain line breaks advance the line counter by
#      exactly that many lines and record the line the token ends on (schematic contracts, one per t_ rule of both lexers)
import ast as _ast
from pyvc.program import Program as _Program

TOK = RefT('LexToken')
M.fields({'LexToken.value': STR, 'LexToken.lexpos': INT, 'LexToken.endlexpos': INT, 'LexToken.lineno': INT, 'LexToken.endlineno': INT,
          'LexToken.type': STR, 'LexToken.lexer': RefT('Lexer'), 'Lexer.lineno': INT, 'Lexer.filename': STR, 'Lexer.lexdata': STR,
          'OALParser.keywords': SeqT(STR), 'ModelLoader.reserved': SeqT(STR)})
M.uninterpreted('str_count', [STR, STR], INT)

def _rules(mod, cls):
    path, tree, src = _Program().load(mod)
    for n in tree.body:
        if isinstance(n, _ast.ClassDef) and n.name == cls:
            for f in n.body:
                if isinstance(f, _ast.FunctionDef) and f.name.startswith('t_') and f.name != 't_error':
                    yield f.name, _ast.get_docstring(f) or ''

# tokens that are dropped (layout and comments): the property says they produce no token
_SKIPPED = {'t_COMMENT', 't_SL_STRING', 't_newline', 't_comment'}
# tokens whose text may span several lines
_MULTILINE = {'t_COMMENT', 't_SL_STRING', 't_TICKED_PHRASE', 't_END_FOR', 't_END_IF', 't_END_WHILE', 't_STRING', 't_comment'}
for _mod, _cls in (('bridgepoint.oal', 'OALParser'), ('xtuml.load', 'ModelLoader')):
    for _name, _doc in _rules(_mod, _cls):
        _ens = {'end-position-is-start-plus-length': 't.endlexpos == t.lexpos + len(t.value)',
                'token-text-and-start-untouched': 't.value == old(t.value) and t.lexpos == old(t.lexpos)'}
        if _name == 't_newline':
            _ens['line-counter-advances-by-the-newlines-consumed'] = 't.lexer.lineno == old(t.lexer.lineno) + len(t.value)'
        elif _name in _MULTILINE and not (_cls == 'OALParser' and _name == 't_STRING'):
            _ens['line-counter-advances-by-the-newlines-consumed'] = "t.lexer.lineno == old(t.lexer.lineno) + str_count(t.value, '\\n')"
        else:
            _ens['line-counter-untouched'] = 't.lexer.lineno == old(t.lexer.lineno)'
        if _cls == 'OALParser' and _name in ('t_TICKED_PHRASE', 't_END_FOR', 't_END_IF', 't_END_WHILE'):
            _ens['end-line-is-the-line-the-token-ends-on'] = "t.endlineno == old(t.lexer.lineno) + str_count(t.value, '\\n')"
        _ens['layout-produces-no-token' if _name in _SKIPPED else 'returns-the-token'] = 'result is None' if _name in _SKIPPED else 'result is t'
        M.contract('%s.%s.%s' % (_mod, _cls, _name), [('self', RefT(_cls)), ('t', TOK)], returns=TOK,
                   requires={'token': 't is not None and t.lexer is not None'}, ensures=_ens,
                   modifies=['t.endlexpos', 't.endlineno', 't.type', 't.lexer.lineno'])
