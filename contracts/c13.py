"""C13 — source positions: find_column, token rules' end positions."""
from pyvc.spec import Module, Raises, Loop
from pyvc.sorts import INT, BOOL, STR, VAL, NONE, RefT, SeqT, SetT, MapT, TupT

M = Module('contracts.c13', prop='C13')

M.contract('bridgepoint.oal.find_column', [('lexdata', STR), ('lexpos', INT)], returns=INT,
           requires={'position-in-text': '0 <= lexpos and lexpos <= len(lexdata)'},
           ensures={
               'first-line-columns-count-from-one': "implies(all(lexdata[i] != '\\n' for i in range(0, lexpos)), result == lexpos + 1)",
               'column-counts-from-last-newline': "all(implies(0 <= k and k < lexpos and lexdata[k] == '\\n' and all(lexdata[i] != '\\n' for i in range(k + 1, lexpos)), "
                                                  "result == lexpos - k) for k in ints())"},
           modifies=[])
