"""C13 — source positions: find_column, token rules' end positions."""
from pyvc.spec import Module, Raises, Loop
from pyvc.sorts import INT, BOOL, STR, VAL, NONE, RefT, SeqT, SetT, MapT, TupT

M = Module('contracts.c13', prop='C13')

M.contract('bridgepoint.oal.find_column', [('lexdata', STR), ('lexpos', INT)], returns=INT,
           requires={'position-in-text': '0 <= lexpos and lexpos <= len(lexdata)'},
           ensures={
               'first-line-columns-count-from-one': "implies(all(lexdata[i] != '\\n' for i in range(0, lexpos)), result == lexpos + 1)",
               'column-counts-from-last-newline': "all(implies(0 <= k and k < lexpos and lexdata[k] == '\\n' and all(lexdata[i] != '\\n' for i in range(k + 1, lexpos)), "
                                                  "result == lexpos - k) for k in ints())"},
           modifies=[])

# ---- token rules: every rule records where its token ends; rules whose token may contain line breaks advance the line counter by
#      exactly that many lines and record the line the token ends on (schematic contracts, one per t_ rule of both lexers)
import ast as _ast
from pyvc.program import Program as _Program

TOK = RefT('LexToken')
M.fields({'LexToken.value': STR, 'LexToken.lexpos': INT, 'LexToken.endlexpos': INT, 'LexToken.lineno': INT, 'LexToken.endlineno': INT,
          'LexToken.type': STR, 'LexToken.lexer': RefT('Lexer'), 'Lexer.lineno': INT, 'Lexer.filename': STR, 'Lexer.lexdata': STR,
          'OALParser.keywords': SeqT(STR), 'ModelLoader.reserved': SeqT(STR)})
M.uninterpreted('str_count', [STR, STR], INT)

def _rules(mod, cls):
    path, tree, src = _Program().load(mod)
    for n in tree.body:
        if isinstance(n, _ast.ClassDef) and n.name == cls:
            for f in n.body:
                if isinstance(f, _ast.FunctionDef) and f.name.startswith('t_') and f.name != 't_error':
                    yield f.name, _ast.get_docstring(f) or ''

# tokens that are dropped (layout and comments): the property says they produce no token
_SKIPPED = {'t_COMMENT', 't_SL_STRING', 't_newline', 't_comment'}
# tokens whose text may span several lines
_MULTILINE = {'t_COMMENT', 't_SL_STRING', 't_TICKED_PHRASE', 't_END_FOR', 't_END_IF', 't_END_WHILE', 't_STRING', 't_comment'}
for _mod, _cls in (('bridgepoint.oal', 'OALParser'), ('xtuml.load', 'ModelLoader')):
    for _name, _doc in _rules(_mod, _cls):
        _ens = {'end-position-is-start-plus-length': 't.endlexpos == t.lexpos + len(t.value)',
                'token-text-and-start-untouched': 't.value == old(t.value) and t.lexpos == old(t.lexpos)'}
        if _name == 't_newline':
            _ens['line-counter-advances-by-the-newlines-consumed'] = 't.lexer.lineno == old(t.lexer.lineno) + len(t.value)'
        elif _name in _MULTILINE and not (_cls == 'OALParser' and _name == 't_STRING'):
            _ens['line-counter-advances-by-the-newlines-consumed'] = "t.lexer.lineno == old(t.lexer.lineno) + str_count(t.value, '\\n')"
        else:
            _ens['line-counter-untouched'] = 't.lexer.lineno == old(t.lexer.lineno)'
        if _cls == 'OALParser' and _name in ('t_TICKED_PHRASE', 't_END_FOR', 't_END_IF', 't_END_WHILE'):
            _ens['end-line-is-the-line-the-token-ends-on'] = "t.endlineno == old(t.lexer.lineno) + str_count(t.value, '\\n')"
        _ens['layout-produces-no-token' if _name in _SKIPPED else 'returns-the-token'] = 'result is None' if _name in _SKIPPED else 'result is t'
        M.contract('%s.%s.%s' % (_mod, _cls, _name), [('self', RefT(_cls)), ('t', TOK)], returns=TOK,
                   requires={'token': 't is not None and t.lexer is not None'}, ensures=_ens,
                   modifies=['t.endlexpos', 't.endlineno', 't.type', 't.lexer.lineno'])

# ---- positions of syntax-tree nodes: taken from PLY's bookkeeping of the production (A-PLY spans), columns by find_column
NODE, POS, PROD, LEXER = RefT('Node'), RefT('Position'), RefT('YaccProduction'), RefT('Lexer')
M.fields({'Node.position': POS, 'Node.character_stream': STR, 'Position.label': VAL, 'Position.start_stream': INT, 'Position.start_line': INT,
          'Position.start_column': INT, 'Position.end_stream': INT, 'Position.end_line': INT, 'Position.end_column': INT,
          'YaccProduction.lexer': LEXER, 'YaccProduction.n': INT, 'Lexer.label': VAL, 'Lexer.lexdata': STR})
M.klass('YaccProduction', len='self.n')
M.klass('Position', bases=[])
M.uninterpreted('p_lexpos', [PROD, INT], INT)
M.uninterpreted('p_lineno', [PROD, INT], INT)
M.uninterpreted('p_lexspan_end', [PROD, INT], INT)
M.uninterpreted('p_linespan_end', [PROD, INT], INT)
PLY = 'A-PLY: the production object reports the positions PLY tracked for its symbols (parser run with tracking=1)'
M.contract('ply.yacc.YaccProduction.lexpos', [('self', PROD), ('n', INT)], returns=INT, trusted=True, reason=PLY,
           ensures={'value': 'result == p_lexpos(self, n)'}, modifies=[])
M.contract('ply.yacc.YaccProduction.lineno', [('self', PROD), ('n', INT)], returns=INT, trusted=True, reason=PLY,
           ensures={'value': 'result == p_lineno(self, n)'}, modifies=[])
M.contract('ply.yacc.YaccProduction.lexspan', [('self', PROD), ('n', INT)], returns=TupT(INT, INT), trusted=True, reason=PLY,
           ensures={'value': 'result[1] == p_lexspan_end(self, n)'}, modifies=[])
M.contract('ply.yacc.YaccProduction.linespan', [('self', PROD), ('n', INT)], returns=TupT(INT, INT), trusted=True, reason=PLY,
           ensures={'value': 'result[1] == p_linespan_end(self, n)'}, modifies=[])
M.contract('bridgepoint.oal.Position.__init__', [('self', POS)], returns=NONE, trusted=True, reason='plain field initialisation (all four to 0)',
           ensures={'zeroed': 'self.start_line == 0 and self.start_column == 0 and self.end_line == 0 and self.end_column == 0'},
           modifies=['self.start_line', 'self.start_column', 'self.end_line', 'self.end_column'])
M.spec('''
def is_column(text, pos, c):
    return (implies(all(text[i] != '\\n' for i in range(0, pos)), c == pos + 1)
            and all(implies(0 <= k and k < pos and text[k] == '\\n' and all(text[i] != '\\n' for i in range(k + 1, pos)), c == pos - k) for k in ints()))
''', sorts={'is_column': ([STR, INT, INT], BOOL, [])})
M.contracts['bridgepoint.oal.find_column'].ensures['is-the-column'] = 'is_column(lexdata, lexpos, result)'
M.contract('bridgepoint.oal.set_positional_info', [('node', NODE), ('p', PROD)], returns=NONE,
           requires={'a-production-with-symbols': 'node is not None and p is not None and p.lexer is not None and p.n > 1',
                     'spans-inside-the-text': '0 <= p_lexpos(p, 1) and p_lexpos(p, 1) <= len(p.lexer.lexdata) and 0 <= p_lexspan_end(p, p.n - 1) '
                                              'and p_lexspan_end(p, p.n - 1) <= len(p.lexer.lexdata)'},
           ensures={'starts-where-its-first-symbol-starts':
                    'node.position is not None and fresh(node.position) and node.position.start_stream == p_lexpos(p, 1) and node.position.start_line == p_lineno(p, 1) '
                    'and is_column(p.lexer.lexdata, p_lexpos(p, 1), node.position.start_column)',
                    'ends-where-its-last-symbol-ends': 'node.position.end_stream == p_lexspan_end(p, p.n - 1)',
                    'ends-on-the-line-its-last-symbol-ends-on': 'node.position.end_line == p_linespan_end(p, p.n - 1)',
                    'end-column-is-the-column-of-its-last-character': 'is_column(p.lexer.lexdata, p_lexspan_end(p, p.n - 1), node.position.end_column + 1)',
                    'carries-its-source-text': 'node.character_stream == p.lexer.lexdata[node.position.start_stream:node.position.end_stream]',
                    'labelled-as-the-lexer': 'same(node.position.label, p.lexer.label)'},
           modifies=['node.position', 'node.character_stream'])
