"""Client view of xtuml.tools.OrderedSet: the contracts proved in contracts.c17, restated over the abstract view only.
contracts.c17 proves them together with the representation invariant wf (established by __init__, preserved by every method,
and untouched on sets a method is not called on), so clients never see the representation.  Assumed here: nothing new."""
from pyvc.spec import Module, Raises, Loop
from pyvc.sorts import INT, BOOL, STR, VAL, NONE, RefT, SeqT, SetT, MapT, TupT
from .base import INST, OSET, QSET

M = Module('contracts.oset_client', prop=None)
M.use('contracts.base')
WHY = 'proved in contracts.c17 together with the representation invariant; restated over the abstract view'

M.klass('OrderedSet', len='len(self.view)', iter='self.view', contains='x in self.view', bases=['MutableSet'],
        init_variants={0: 'xtuml.tools.OrderedSet.__init__@none'})
M.contract('xtuml.tools.OrderedSet.__init__@none', [('self', OSET)], returns=NONE, trusted=True, reason=WHY,
           ensures={'empty': 'len(self.view) == 0'}, modifies=['self.view'])
M.contract('xtuml.tools.OrderedSet.add', [('self', OSET), ('key', INST)], returns=NONE, trusted=True, reason=WHY,
           requires={'key': 'key is not None'},
           ensures={'view': 'self.view == (old(self.view) if old(key in self.view) else old(self.view) + [key])'},
           modifies=['self.view'])
M.contract('xtuml.tools.OrderedSet.discard', [('self', OSET), ('key', INST)], returns=NONE, trusted=True, reason=WHY,
           ensures={'view': 'self.view == seq_remove(old(self.view), key)', 'removed-is-absent': 'key not in self.view',
                    'other-members-kept': 'all(implies(v is not key, (v in self.view) == old(v in self.view)) for v in anyref("Class"))'},
           modifies=['self.view'])
M.contract('_collections_abc.MutableSet.remove', [('self', OSET), ('value', INST)], returns=NONE, trusted=True, reason=WHY,
           ensures={'view': 'self.view == seq_remove(old(self.view), value)', 'removed-is-absent': 'value not in self.view',
                    'other-members-kept': 'all(implies(v is not value, (v in self.view) == old(v in self.view)) for v in anyref("Class"))'},
           raises=[Raises('KeyError', when='value not in self.view')], modifies=['self.view'])
M.contract('xtuml.tools.OrderedSet.__init__@seq', [('self', OSET), ('iterable', SeqT(INST))], returns=NONE, trusted=True, reason=WHY,
           requires={'elements': 'all(x is not None for x in iterable)'},
           ensures={'all-arrivals-present': 'all(x in self.view for x in iterable)', 'nothing-else': 'all(x in iterable for x in self.view)',
                    'distinct-elements-keep-their-arrival-order':
                    'implies(all(all(implies(i < j, iterable[i] is not iterable[j]) for j in range(0, len(iterable))) for i in range(0, len(iterable))), '
                    'len(self.view) == len(iterable) and all(self.view[j] is iterable[j] for j in range(0, len(iterable))))'},
           modifies=['self.view'])
