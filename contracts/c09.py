"""C09 — queries and navigation."""
from pyvc.spec import Module, Raises, Loop
from pyvc.sorts import INT, BOOL, STR, VAL, NONE, RefT, SeqT, SetT, MapT, TupT, PyTuple
from .base import INST, MC, MM, LINK, ASSOC, OSET, QSET

M = Module('contracts.c09', prop='C09')
M.use('contracts.base')

M.contract('xtuml.meta.MetaClass.select_many', [('self', MC), ('*args', None)], returns=QSET, trusted=True,
           reason='TODO verify',
           ensures={'pool-in-creation-order': 'implies(len(args) == 0, result is not None and fresh(result) and result.view == self.storage)'},
           modifies=[], ghost={'allocates': True})

M.spec('''
def subtype_of(inst, rel_id):
    return subtype_witness(inst, rel_id)
''')
M.contract('xtuml.meta.MetaModel.select_many', [('self', MM), ('kind', STR), ('*args', None)], returns=QSET, trusted=True,
           reason='TODO verify',
           requires={'class-known': 'upper(kind) in self.metaclasses'},
           ensures={'pool-in-creation-order': 'implies(len(args) == 0, result is not None and fresh(result) and result.view == self.metaclasses[upper(kind)].storage)'},
           modifies=[], ghost={'allocates': True})
