"""C09 — queries and navigation."""
from pyvc.spec import Module, Raises, Loop
from pyvc.sorts import INT, BOOL, STR, VAL, NONE, RefT, SeqT, SetT, MapT, TupT, PyTuple
from .base import INST, MC, MM, LINK, ASSOC, OSET, QSET

M = Module('contracts.c09', prop='C09')
M.use('contracts.base')

M.contract('xtuml.meta.MetaClass.select_many', [('self', MC), ('*args', None)], returns=QSET, trusted=True,
           reason='for the form without operators: proved element-wise as select_many@noargs below (same length, the same instance at each position, from the arrival-order clause of OrderedSet.__init__ in contracts.c17); what is assumed here is only the step from the element-wise form to sequence equality (extensionality, which the solver does not derive within the budget); with operators: bounded tier (c09 item select)',
           ensures={'pool-in-creation-order': 'implies(len(args) == 0, result is not None and fresh(result) and result.view == self.storage)'},
           modifies=[], ghost={'allocates': True})

M.spec('''
def subtype_of(inst, rel_id):
    return subtype_witness(inst, rel_id)
''')
M.contract('xtuml.meta.MetaModel.select_many', [('self', MM), ('kind', STR), ('*args', None)], returns=QSET, trusted=True,
           reason='for the form without operators: proved element-wise as select_many@noargs below (same length, the same instance at each position, from the arrival-order clause of OrderedSet.__init__ in contracts.c17); what is assumed here is only the step from the element-wise form to sequence equality (extensionality, which the solver does not derive within the budget); with operators: bounded tier (c09 item select)',
           requires={'class-known': 'upper(kind) in self.metaclasses'},
           ensures={'pool-in-creation-order': 'implies(len(args) == 0, result is not None and fresh(result) and result.view == self.metaclasses[upper(kind)].storage)'},
           modifies=[], ghost={'allocates': True})

# ---- equality filters
WE = RefT('WhereEqual')
M.fields({'WhereEqual._dict_': MapT(STR, VAL)})
M.klass('WhereEqual', dictfield='_dict_')
M.uninterpreted('attr_value', [INST, STR], VAL)
M.klass('Class', getattr='builtins.getattr@Class')
M.contract('builtins.getattr@Class', [('obj', INST), ('name', STR)], returns=VAL, trusted=True,
           reason='PY-6: attribute read of an instance under any spelling; pure (contracts.c10 proves Class.__getattr__ against the CPython lookup)',
           ensures={'value': 'result == attr_value(obj, name)'}, modifies=[])
M.uninterpreted('wmatch', [INST, WE], BOOL)
M.axiom('wmatch-definition',
        'all(all(wmatch(x, w) == all(attr_value(x, map_keys(w._dict_)[j]) == w._dict_[map_keys(w._dict_)[j]] '
        'for j in range(0, len(map_keys(w._dict_)))) for x in anyref("Class")) for w in anyref("WhereEqual"))')
M.assume('definition of wmatch(inst, w) (all items of the filter equal the attribute values) is evaluated on the entry heap: '
         'sound here because no function under contract in contracts.c09 modifies a WhereEqual dictionary')
M.spec('''
def filtered(s, w, k):
    return [] if k <= 0 else (filtered(s, w, k - 1) + [s[k - 1]] if wmatch(s[k - 1], w) else filtered(s, w, k - 1))
''', sorts={'filtered': ([SeqT(INST), WE, INT], SeqT(INST), [])})
M.contract('xtuml.meta.WhereEqual.__call__', [('self', WE), ('s', SeqT(INST))], kind='generator', yields=INST, tiers=(),
           ensures={'exactly-the-matching-instances-in-order': 'result == filtered(s, self, len(s))'},
           modifies=[],
           loops={0: Loop(inv={'matching-prefix-yielded': '_yielded == filtered(s, self, _i)', 'iterates': '_seq == s',
                               'items': 'len(items) == len(map_keys(self._dict_)) and all(items[j][0] == map_keys(self._dict_)[j] and items[j][1] == self._dict_[map_keys(self._dict_)[j]] for j in range(0, len(items)))'}),
                  1: Loop(inv={'all-earlier-items-match': 'all(attr_value(inst, map_keys(self._dict_)[j]) == self._dict_[map_keys(self._dict_)[j]] for j in range(0, _i))', 'iterates': '_seq == items'})})

# ---- select_many without operators: the pool itself, instance by instance, in creation order (composition of apply_query_operators
#      with no operator and the arrival-order clause of OrderedSet.__init__ proved in contracts.c17)
M.use('contracts.oset_client')
M.klass('QuerySet', bases=['OrderedSet'], init_variants={0: 'xtuml.tools.OrderedSet.__init__@none', 1: 'xtuml.tools.OrderedSet.__init__@seq'})
M.contract('xtuml.meta.MetaClass.select_many@noargs', [('self', MC)], returns=QSET, statics={'args': PyTuple(())},
           requires={'pool-of-distinct-instances': 'all(x is not None for x in self.storage) and '
                     'all(all(implies(i < j, self.storage[i] is not self.storage[j]) for j in range(0, len(self.storage))) for i in range(0, len(self.storage)))'},
           ensures={'a-new-query-set': 'result is not None and fresh(result)',
                    'the-pool-instance-by-instance-in-creation-order':
                    'len(result.view) == len(self.storage) and all(result.view[j] is self.storage[j] for j in range(0, len(self.storage)))'},
           modifies=[])

M.contract('xtuml.meta.MetaModel.select_many@noargs', [('self', MM), ('kind', STR)], returns=QSET, statics={'args': PyTuple(())},
           requires={'class-known': 'upper(kind) in self.metaclasses and self.metaclasses[upper(kind)] is not None',
                     'pool-of-distinct-instances': 'all(x is not None for x in self.metaclasses[upper(kind)].storage) and '
                     'all(all(implies(i < j, self.metaclasses[upper(kind)].storage[i] is not self.metaclasses[upper(kind)].storage[j]) '
                     'for j in range(0, len(self.metaclasses[upper(kind)].storage))) for i in range(0, len(self.metaclasses[upper(kind)].storage)))'},
           ensures={'the-pool-of-the-class-in-any-spelling-instance-by-instance-in-creation-order':
                    'result is not None and len(result.view) == len(self.metaclasses[upper(kind)].storage) '
                    'and all(result.view[j] is self.metaclasses[upper(kind)].storage[j] for j in range(0, len(self.metaclasses[upper(kind)].storage)))'},
           modifies=[])

# ---- single-instance forms without query operators: the first element in model order, or None
M.uninterpreted('queried', [SeqT(INST), INT], SeqT(INST))
M.contract('xtuml.meta.apply_query_operators', [('iterable', SeqT(INST)), ('ops', None)], returns=SeqT(INST), trusted=True,
           reason='bounded tier (c09 item select): with no operator the iterable is returned as it is — the first line of the function',
           ensures={'no-operators-no-change': 'result == iterable'}, modifies=[])
M.contract('xtuml.meta.MetaClass.select_one@noargs', [('self', MC)], returns=INST, statics={'args': PyTuple(())},
           ensures={'first-stored-instance-or-none': 'result is (self.storage[0] if len(self.storage) > 0 else None)'}, modifies=[])
M.contract('xtuml.meta.MetaClass.select_one', [('self', MC), ('*args', None)], returns=INST, trusted=True,
           reason='verified as select_one@noargs for the form without operators; with operators: bounded tier',
           ensures={'first-stored-instance-or-none': 'implies(len(args) == 0, result is (self.storage[0] if len(self.storage) > 0 else None))'}, modifies=[])
M.contract('xtuml.meta.MetaModel.find_metaclass', [('self', MM), ('kind', STR)], returns=MC, trusted=True,
           reason='contracts.c10 (proved there)', requires={}, ensures={'found': 'implies(upper(kind) in self.metaclasses, result is self.metaclasses[upper(kind)])'},
           raises=[Raises('UnknownClassException', when='upper(kind) not in self.metaclasses')], modifies=[])
M.contract('xtuml.meta.MetaModel.select_one@noargs', [('self', MM), ('kind', STR)], returns=INST, statics={'args': PyTuple(())},
           requires={'class-known': 'upper(kind) in self.metaclasses and self.metaclasses[upper(kind)] is not None'},
           ensures={'first-stored-instance-of-the-class-in-any-spelling-or-none':
                    'result is (self.metaclasses[upper(kind)].storage[0] if len(self.metaclasses[upper(kind)].storage) > 0 else None)'}, modifies=[])
NAV1 = RefT('NavOneChain')
M.fields({'NavOneChain.handle': SeqT(INST)})
M.klass('NavOneChain', bases=[])
M.contract('xtuml.meta.NavOneChain.__call__@noargs', [('self', NAV1)], returns=INST, statics={'args': PyTuple(())},
           ensures={'first-navigated-instance-or-none': 'result is (self.handle[0] if len(self.handle) > 0 else None)'}, modifies=[])

# ---- navigation that hops over an association (link) class: every link instance counts, not only the first
M.use('contracts.oset_client')
M.uninterpreted('assoc_link1', [MC, VAL, VAL, VAL], LINK)
M.uninterpreted('assoc_link2', [MC, VAL, VAL, VAL], LINK)
M.contract('xtuml.meta.Link.navigate', [('self', LINK), ('instance', INST)], returns=SeqT(INST), trusted=True,
           reason='contracts.c02 (proved there)', ensures={'partners-in-link-order': 'result == partners(self, instance)'}, modifies=[])
M.contract('xtuml.meta.MetaClass._find_assoc_links', [('self', MC), ('kind', VAL), ('rel_id', VAL), ('phrase', VAL, "''")], returns=TupT(LINK, LINK),
           trusted=True, reason='assumed: the pair of links through the association class (bounded c09 item navigate); abstract here',
           ensures={'the-two-hops': 'result[0] is assoc_link1(self, kind, rel_id, phrase) and result[1] is assoc_link2(self, kind, rel_id, phrase) '
                                    'and result[0] is not None and result[1] is not None'},
           raises=[], modifies=[])
M.contract('_collections_abc.MutableSet.__ior__@seq', [('self', OSET), ('it', SeqT(INST))], returns=OSET, trusted=True,
           reason='proved in contracts.c17 together with the representation invariant; restated over the abstract view',
           requires={'elements': 'all(x is not None for x in it)'},
           ensures={'returns-self': 'result is self',
                    'old-elements-keep-their-places': 'len(self.view) >= len(old(self.view)) and all(self.view[j] is old(self.view)[j] for j in range(0, len(old(self.view))))',
                    'all-arrivals-present': 'all(x in self.view for x in it)',
                    'nothing-else': 'all(x in old(self.view) or x in it for x in self.view)'},
           modifies=['self.view'])
M.contract('xtuml.meta.MetaClass.navigate@across-a-link-class', [('self', MC), ('inst', INST), ('kind', STR), ('rel_id', VAL), ('phrase', STR, "''")],
           returns=OSET,
           lets={'l1': 'assoc_link1(self, kind, rel_id, phrase)', 'l2': 'assoc_link2(self, kind, rel_id, phrase)'},
           requires={'not-a-direct-link': '(upper(kind), rel_id, phrase) not in self.links',
                     'partners-are-instances': 'all(all(x is not None for x in partners(l2, y)) for y in anyref("Class"))',
                     'partner-sets-exist': 'all(implies(k in l2._dict_, allocated(l2._dict_[k])) and implies(k in l1._dict_, allocated(l1._dict_[k])) for k in anyref("Class"))'},
           ensures={'every-instance-behind-any-link-instance-and-nothing-else':
                    'result is not None and fresh(result) and all((x in result.view) == any(x in partners(l2, partners(l1, inst)[j]) for j in range(0, len(partners(l1, inst)))) for x in anyref("Class"))',
                    },
           modifies=[],
           loops={0: Loop(inv={'walks-the-link-instances': '_seq == partners(l1, old(inst))',
                               'collected-so-far': 'inst_set is not None and fresh(inst_set) and all((x in inst_set.view) == any(x in partners(l2, _seq[j]) for j in range(0, _i)) for x in anyref("Class"))',
                               'other-sets-untouched': 'all(implies(s is not inst_set, s.view == old(s.view)) for s in anyref("OrderedSet"))'},
                          modifies=['OrderedSet.view'])})
M.contract('xtuml.meta.MetaClass.navigate@direct', [('self', MC), ('inst', INST), ('kind', STR), ('rel_id', STR), ('phrase', STR, "''")],
           returns=SeqT(INST),
           requires={'a-direct-link': '(upper(kind), rel_id, phrase) in self.links and self.links[(upper(kind), rel_id, phrase)] is not None'},
           ensures={'the-partners-across-that-link-in-link-order-class-name-in-any-spelling':
                    'result == partners(self.links[(upper(kind), rel_id, phrase)], inst)'}, modifies=[])
