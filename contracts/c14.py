"""C14 — component extraction: the calls that define associations (call-trace contracts over the abstract BridgePoint population).

m.define_association is abstract here: its assumed contract appends the tuple of its eleven arguments to the ghost sequence
MetaModel.defined, so each mk_*_association is proved to define exactly the associations the BridgePoint relationship models, with
every multiplicity / conditionality / phrase / key list taken from the modeled end the property names."""
from pyvc.spec import Module, Raises, Loop
from pyvc.sorts import INT, BOOL, STR, VAL, REAL, NONE, RefT, SeqT, SetT, MapT, TupT
from .base import INST

M = Module('contracts.c14', prop='C14')
M.use('contracts.base')
M.klass('Class', instance_attrs=True)
DOM = RefT('Domain')
KEYS = SeqT(VAL)
REC = TupT(VAL, VAL, VAL, KEYS, KEYS, VAL, VAL, VAL, VAL, VAL, VAL)
M.fields({'Domain.defined': SeqT(REC)})
M.uninterpreted('attr_value', [INST, STR], VAL)
M.uninterpreted('nav_all', [INST, STR, INT], SeqT(INST))
M.uninterpreted('ref_attrs', [INST, INST], KEYS)
M.uninterpreted('id_attrs', [INST, INST], KEYS)

M.contract('xtuml.meta.MetaModel.define_association',
           [('self', DOM), ('rel_id', VAL), ('source_kind', VAL), ('source_keys', KEYS), ('source_many', VAL), ('source_conditional', VAL),
            ('source_phrase', VAL), ('target_kind', VAL), ('target_keys', KEYS), ('target_many', VAL), ('target_conditional', VAL), ('target_phrase', VAL)],
           returns=NONE, trusted=True, reason='call-trace abstraction: the definition is recorded (C02/C18 own the real function)',
           ensures={'recorded': 'self.defined == old(self.defined) + [(rel_id, source_kind, target_kind, source_keys, target_keys, source_many, '
                                'source_conditional, source_phrase, target_many, target_conditional, target_phrase)]'},
           modifies=['self.defined'])
M.contract('bridgepoint.ooaofooa._get_related_attributes', [('r_rgo', INST), ('r_rto', INST)], returns=TupT(KEYS, KEYS), trusted=True,
           reason='assumed: the referential / identifying attribute name lists of the pair of ends, pairwise by position; decided by the bounded tier (c14 item compound-keys)',
           ensures={'lists': 'result[0] == ref_attrs(r_rgo, r_rto) and result[1] == id_attrs(r_rgo, r_rto)'}, modifies=[])

M.spec('''
def first_of(x, chain):
    return nav_all(x, chain, 0)[0] if len(nav_all(x, chain, 0)) > 0 else None

def a(x, name):
    return attr_value(x, name)

def linked_rec(rel, rgo, src, s1, s2):
    return (a(rel, 'NUMB'), a(src, 'KEY_LETT'), a(first_of(first_of(s1, 'R_RTO[R204]'), 'R_OIR[R203].O_OBJ[R201]'), 'KEY_LETT'),
            ref_attrs(rgo, first_of(s1, 'R_RTO[R204]')), id_attrs(rgo, first_of(s1, 'R_RTO[R204]')),
            a(s2, 'MULT'), a(s2, 'COND'), ('' if a(s1, 'OBJ_ID') != a(s2, 'OBJ_ID') else a(s1, 'TXT_PHRS')),
            False, False, ('' if a(s1, 'OBJ_ID') != a(s2, 'OBJ_ID') else a(s2, 'TXT_PHRS')))
''')
M.contract('bridgepoint.ooaofooa.mk_linked_association', [('m', DOM), ('r_assoc', INST)], returns=NONE,
           lets={'rel': 'first_of(r_assoc, "R_REL[R206]")', 'rgo': 'first_of(r_assoc, "R_ASSR[R211].R_RGO[R205]")',
                 'src': 'first_of(first_of(r_assoc, "R_ASSR[R211].R_RGO[R205]"), "R_OIR[R203].O_OBJ[R201]")',
                 'aone': 'first_of(r_assoc, "R_AONE[R209]")', 'aoth': 'first_of(r_assoc, "R_AOTH[R210]")', 'n': 'len(m.defined)'},
           requires={'model': 'm is not None and r_assoc is not None'},
           ensures={'two-associations-from-the-link-class': 'len(m.defined) == n + 2 and all(m.defined[i] == old(m.defined)[i] for i in range(0, n))',
                    'one-side-with-the-other-sides-multiplicity': 'm.defined[n] == linked_rec(rel, rgo, src, aone, aoth)',
                    'other-side-with-the-one-sides-multiplicity': 'm.defined[n + 1] == linked_rec(rel, rgo, src, aoth, aone)'},
           modifies=['m.defined'])

M.spec('''
def subsup_rec(rel, rto, tgt, sub):
    return (a(rel, 'NUMB'), a(first_of(first_of(sub, 'R_RGO[R205]'), 'R_OIR[R203].O_OBJ[R201]'), 'KEY_LETT'), a(tgt, 'KEY_LETT'),
            ref_attrs(first_of(sub, 'R_RGO[R205]'), rto), id_attrs(first_of(sub, 'R_RGO[R205]'), rto),
            False, True, '', False, False, '')
''')
M.contract('bridgepoint.ooaofooa.mk_subsuper_association', [('m', DOM), ('r_subsup', INST)], returns=NONE,
           lets={'rel': 'first_of(r_subsup, "R_REL[R206]")', 'rto': 'first_of(r_subsup, "R_SUPER[R212].R_RTO[R204]")',
                 'tgt': 'first_of(first_of(r_subsup, "R_SUPER[R212].R_RTO[R204]"), "R_OIR[R203].O_OBJ[R201]")',
                 'subs': 'nav_all(r_subsup, "R_SUB[R213]", 0)', 'n': 'len(m.defined)'},
           requires={'model': 'm is not None and r_subsup is not None'},
           ensures={'one-conditional-single-valued-association-per-subtype':
                    'len(m.defined) == n + len(subs) and all(m.defined[i] == old(m.defined)[i] for i in range(0, n)) '
                    'and all(m.defined[n + j] == subsup_rec(rel, rto, tgt, subs[j]) for j in range(0, len(subs)))'},
           modifies=['m.defined'],
           loops={0: Loop(inv={'defined-so-far': 'len(m.defined) == n + _i and all(m.defined[i] == old(m.defined)[i] for i in range(0, n)) '
                                                 'and all(m.defined[n + j] == subsup_rec(rel, rto, tgt, subs[j]) for j in range(0, _i))',
                               'iterates': '_seq == subs'})})

M.spec('''
def simple_rec(rel, form, part):
    return (a(rel, 'NUMB'),
            a(first_of(first_of(form, 'R_RGO[R205]'), 'R_OIR[R203].O_OBJ[R201]'), 'KEY_LETT'),
            a(first_of(first_of(part, 'R_RTO[R204]'), 'R_OIR[R203].O_OBJ[R201]'), 'KEY_LETT'),
            ref_attrs(first_of(form, 'R_RGO[R205]'), first_of(part, 'R_RTO[R204]')), id_attrs(first_of(form, 'R_RGO[R205]'), first_of(part, 'R_RTO[R204]')),
            a(form, 'MULT'), a(form, 'COND'),
            ('' if a(first_of(first_of(form, 'R_RGO[R205]'), 'R_OIR[R203].O_OBJ[R201]'), 'OBJ_ID') != a(first_of(first_of(part, 'R_RTO[R204]'), 'R_OIR[R203].O_OBJ[R201]'), 'OBJ_ID') else a(part, 'TXT_PHRS')),
            a(part, 'MULT'), a(part, 'COND'),
            ('' if a(first_of(first_of(form, 'R_RGO[R205]'), 'R_OIR[R203].O_OBJ[R201]'), 'OBJ_ID') != a(first_of(first_of(part, 'R_RTO[R204]'), 'R_OIR[R203].O_OBJ[R201]'), 'OBJ_ID') else a(form, 'TXT_PHRS')))
''')
M.contract('bridgepoint.ooaofooa.mk_simple_association', [('m', DOM), ('r_simp', INST)], returns=NONE,
           lets={'rel': 'first_of(r_simp, "R_REL[R206]")', 'form': 'first_of(r_simp, "R_FORM[R208]")', 'part': 'first_of(r_simp, "R_PART[R207]")',
                 'n': 'len(m.defined)'},
           requires={'formalized-relationship': 'm is not None and r_simp is not None and form is not None'},
           ensures={'one-association-formaliser-to-participant':
                    'len(m.defined) == n + 1 and all(m.defined[i] == old(m.defined)[i] for i in range(0, n)) and m.defined[n] == simple_rec(rel, form, part)'},
           modifies=['m.defined'])

# ---- the pyxtuml type of a BridgePoint data type: core types by their upper-cased name, enumerations INTEGER, user types their base
M.uninterpreted('tname', [INST], VAL)
M.spec('''
def core_supported(d):
    return (first_of(d, "S_CDT[R17]") is not None and is_int(a(first_of(d, "S_CDT[R17]"), "CORE_TYP"))
            and 1 <= as_int(a(first_of(d, "S_CDT[R17]"), "CORE_TYP")) and as_int(a(first_of(d, "S_CDT[R17]"), "CORE_TYP")) < 6)
''')
M.axiom('tname-definition',
        'all(implies(d is not None, same(tname(d), (upper(as_str(a(d, "NAME"))) if core_supported(d) else ("INTEGER" if first_of(d, "S_EDT[R17]") is not None '
        'else (tname(first_of(d, "S_UDT[R17].S_DT[R18]")) if first_of(d, "S_UDT[R17].S_DT[R18]") is not None else None))))) for d in anyref("Class"))')
M.contract('bridgepoint.ooaofooa._get_data_type_name', [('s_dt', INST)], returns=VAL,
           requires={'data-type': 's_dt is not None and is_str(a(s_dt, "NAME"))',
                     'names-are-strings': 'all(implies(d is not None, is_str(a(d, "NAME"))) for d in anyref("Class"))'},
           ensures={'core-upper-case-enum-integer-user-its-base': 'same(result, tname(s_dt))'},
           modifies=[])

# ---- the pairing itself: the i-th referential name and the i-th identifying name come from the same O_REF row, in row order
M.spec('''
def paired(l1, l2, refs):
    return (len(l1) == len(refs) and len(l2) == len(refs)
            and all(same(l1[i], a(first_of(refs[i], "O_RATTR[R108].O_ATTR[R106]"), "NAME"))
                    and same(l2[i], a(first_of(refs[i], "O_RTIDA[R111].O_OIDA[R110].O_ATTR[R105]"), "NAME")) for i in range(0, len(refs))))
''')
M.contract('bridgepoint.ooaofooa._get_related_attributes@pairing', [('r_rgo', INST), ('r_rto', INST)], returns=TupT(KEYS, KEYS),
           requires={'ends': 'r_rgo is not None and r_rto is not None'},
           ensures={'same-row-same-position-in-row-order':
                    'any(paired(result[0], result[1], nav_all(r_rto, "O_RTIDA[R110].O_REF[R111]", f)) for f in ints())'},
           modifies=[], locals={'l1': KEYS, 'l2': KEYS},
           loops={0: Loop(inv={'paired-so-far': 'paired(l1, l2, seq_take(_seq, _i))',
                               'walks-the-reference-rows': 'any(_seq == nav_all(r_rto, "O_RTIDA[R110].O_REF[R111]", f) for f in ints())'})})

# ---- the type of an attribute: a referential attribute takes the type of the attribute it refers to, transitively (partial correctness:
# termination on an acyclic O_REF chain is not proved)
M.spec('''
def base_type(o_attr):
    return (base_type(first_of(o_attr, "O_RATTR[R106].O_BATTR[R113].O_ATTR[R106]"))
            if first_of(o_attr, "O_RATTR[R106].O_BATTR[R113].O_ATTR[R106]") is not None else first_of(o_attr, "S_DT[R114]"))
''', sorts={'base_type': ([INST], INST, [])})
M.contract('bridgepoint.ooaofooa.get_attribute_type', [('o_attr', INST)], returns=INST,
           ensures={'type-of-the-attribute-referred-to-transitively': 'result is base_type(o_attr)'}, modifies=[])

# ---- scoping of packageable elements (used to decide what belongs to a component and what is global)
M.uninterpreted('kind_of', [INST], STR)
M.assume('A-NAV-KIND: a navigation ends in None or an instance of the class named by its last step; type(x).__name__ of a model instance is that class name (xtuml.meta: the class object is created with the key letters as its name)')
M.spec('''
def pe_of(x):
    return x if kind_of(x) == 'PE_PE' else first_of(x, "PE_PE[R8001]")

def global_pe(pe):
    return (False if first_of(pe, "C_C[R8003]") is not None
            else (True if first_of(pe, "EP_PKG[R8000].PE_PE[R8001]") is None else global_pe(first_of(pe, "EP_PKG[R8000].PE_PE[R8001]"))))

def defining_component(pe):
    return (defining_component(pe_of(first_of(pe, "EP_PKG[R8000]"))) if first_of(pe, "EP_PKG[R8000]") is not None else first_of(pe, "C_C[R8003]"))
''', sorts={'global_pe': ([INST], BOOL, []), 'defining_component': ([INST], INST, [])})
M.contract('bridgepoint.ooaofooa.is_global', [('pe_pe', INST)], returns=BOOL,
           requires={'element': 'pe_pe is not None'},
           ensures={'global-iff-no-enclosing-component-up-the-package-chain': 'result == global_pe(pe_of(pe_pe))'}, modifies=[])
M.contract('bridgepoint.ooaofooa.get_defining_component', [('pe_pe', INST)], returns=INST,
           ensures={'component-at-the-top-of-the-package-chain': 'result is (None if pe_pe is None else defining_component(pe_of(pe_pe)))'}, modifies=[])

M.spec('''
def refs_of(pkg):
    return nav_all(pkg, "EP_PKG[R1402,'is referenced by']", 0)

def contained(x, root):
    return (False if x is None else
            (root is first_of(pe_of(x), "EP_PKG[R8000]") or root is first_of(pe_of(x), "C_C[R8003]")
             or contained(first_of(pe_of(x), "EP_PKG[R8000]"), root) or contained(first_of(pe_of(x), "C_C[R8003]"), root)
             or any(contained(refs_of(first_of(pe_of(x), "EP_PKG[R8000]"))[j], root) for j in range(0, len(refs_of(first_of(pe_of(x), "EP_PKG[R8000]")))))))
''', sorts={'contained': ([INST, INST], BOOL, [])})
M.contract('bridgepoint.ooaofooa.is_contained_in', [('pe_pe', INST), ('root', INST)], returns=BOOL,
           ensures={'reachable-upwards-through-packages-components-and-package-references': 'result == contained(pe_pe, root)'}, modifies=[],
           loops={0: Loop(inv={'walks-the-referencing-packages': '_seq == refs_of(first_of(pe_of(old(pe_pe)), "EP_PKG[R8000]"))',
                               'none-so-far-contains-it': 'all(not contained(_seq[j], root) for j in range(0, _i))'})})
