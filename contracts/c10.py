"""C10 — names are case-insensitive and every spelling addresses one stored value: Class.__getattr__/__setattr__/__delattr__,
MetaClass.attribute_type, MetaModel.find_metaclass.

PY-6 (assumed): CPython looks an attribute up in the instance dictionary, then on the class (the referential `property` objects that
Association.formalize installs), and calls __getattr__ only when both fail.  The class-level part is abstract here:
has_class_attr / class_value / has_property are uninterpreted; object.__getattribute__ and object.__setattr__ get their CPython
meaning as assumed contracts."""
from pyvc.spec import Module, Raises, Loop
from pyvc.sorts import INT, BOOL, STR, VAL, NONE, RefT, SeqT, SetT, MapT, TupT
from .base import INST, MC, MM

M = Module('contracts.c10', prop='C10')
M.use('contracts.base', 'contracts.c02')

M.uninterpreted('has_class_attr', [INST, STR], BOOL)     # the class of the instance defines the name (property, method, ...)
M.uninterpreted('class_value', [INST, STR], VAL)         # what the class-level lookup yields (e.g. the referential property's getter)
M.uninterpreted('has_property', [INST, STR], BOOL)       # the class defines a data descriptor that refuses assignment (referential attribute)

M.contract('builtins.object.__getattribute__', [('obj', INST), ('name', STR)], returns=VAL, trusted=True,
           reason='PY-6: CPython generic attribute lookup, without the __getattr__ fallback (called explicitly on object)',
           ensures={'instance-dict-then-class': 'result == (obj.__dict__[name] if name in obj.__dict__ else class_value(obj, name))'},
           raises=[Raises('AttributeError', when='name not in obj.__dict__ and not has_class_attr(obj, name)')], modifies=[])
M.contract('builtins.object.__setattr__', [('obj', INST), ('name', STR), ('value', VAL)], returns=NONE, trusted=True,
           reason='PY-6: CPython generic attribute store: a data descriptor on the class (the referential property, whose setter raises '
                  'MetaException: Association.formalize.fset) wins, otherwise the instance dictionary is written',
           ensures={'stored-in-instance-dict': 'obj.__dict__ == map_set(old(obj.__dict__), name, value)'},
           raises=[Raises('MetaException', when='has_property(obj, name)')], modifies=['obj.__dict__'])

M.spec('''
def same_name(a, b):
    return upper(a) == upper(b)

def declared_at(mc, name, j):
    return (0 <= j and j < len(mc.attributes) and same_name(mc.attributes[j][0], name)
            and all(not same_name(mc.attributes[i][0], name) for i in range(0, j)))

def is_declared(mc, name):
    return any(same_name(a[0], name) for a in mc.attributes)
''')

M.contract('xtuml.meta.Class.__getattr__', [('self', INST), ('name', STR)], returns=VAL,
           requires={'metaclass': 'self.__metaclass__ is not None'},
           ensures={'declared-name-reads-the-one-stored-value':
                    'implies(is_declared(self.__metaclass__, name), any(declared_at(self.__metaclass__, name, j) and result == '
                    '(self.__dict__[self.__metaclass__.attributes[j][0]] if self.__metaclass__.attributes[j][0] in self.__dict__ '
                    'else class_value(self, self.__metaclass__.attributes[j][0])) for j in range(0, len(self.__metaclass__.attributes))))',
                    'undeclared-name-is-a-plain-lookup':
                    'implies(not is_declared(self.__metaclass__, name), result == (self.__dict__[name] if name in self.__dict__ else class_value(self, name)))'},
           raises=[Raises('AttributeError', when='(not is_declared(self.__metaclass__, name) and name not in self.__dict__ and not has_class_attr(self, name)) or '
                          'any(declared_at(self.__metaclass__, name, j) and self.__metaclass__.attributes[j][0] not in self.__dict__ '
                          'and not has_class_attr(self, self.__metaclass__.attributes[j][0]) for j in range(0, len(self.__metaclass__.attributes)))')],
           modifies=[],
           loops={0: Loop(inv={'no-earlier-declared-spelling': 'all(not same_name(_seq[i][0], name) for i in range(0, _i))',
                               'iterates': '_seq == self.__metaclass__.attributes'})})

M.contract('xtuml.meta.Class.__setattr__', [('self', INST), ('name', STR), ('value', VAL)], returns=NONE,
           requires={'metaclass': 'self.__metaclass__ is not None'},
           ensures={'declared-name-writes-the-one-stored-value':
                    'implies(is_declared(self.__metaclass__, name), any(declared_at(self.__metaclass__, name, j) and '
                    'self.__dict__ == map_set(old(self.__dict__), self.__metaclass__.attributes[j][0], value) for j in range(0, len(self.__metaclass__.attributes))))',
                    'undeclared-name-is-stored-as-given':
                    'implies(not is_declared(self.__metaclass__, name), self.__dict__ == map_set(old(self.__dict__), name, value))'},
           raises=[Raises('MetaException', when='any(declared_at(self.__metaclass__, name, j) and self.__metaclass__.attributes[j][0] not in self.__dict__ '
                          'and has_property(self, self.__metaclass__.attributes[j][0]) for j in range(0, len(self.__metaclass__.attributes)))')],
           modifies=['self.__dict__'],
           loops={0: Loop(inv={'no-earlier-declared-spelling': 'all(not same_name(_seq[i][0], name) for i in range(0, _i))',
                               'iterates': '_seq == self.__metaclass__.attributes',
                               'nothing-written-yet': 'same(self.__dict__, old(self.__dict__))'})})

M.contract('xtuml.meta.Class.__delattr__', [('self', INST), ('name', STR)], returns=NONE,
           ensures={'removes-exactly-the-first-stored-spelling':
                    'any(same_name(map_keys(old(self.__dict__))[j], name) and all(not same_name(map_keys(old(self.__dict__))[i], name) for i in range(0, j)) '
                    'and self.__dict__ == map_del(old(self.__dict__), map_keys(old(self.__dict__))[j]) for j in range(0, len(map_keys(old(self.__dict__)))))'},
           raises=[Raises('AttributeError', when='all(not same_name(k, name) for k in map_keys(self.__dict__))')],
           modifies=['self.__dict__'],
           loops={0: Loop(inv={'no-earlier-stored-spelling': 'all(not same_name(_seq[i], name) for i in range(0, _i))',
                               'iterates': '_seq == map_keys(old(self.__dict__))',
                               'nothing-removed-yet': 'same(self.__dict__, old(self.__dict__))'})})

M.contract('xtuml.meta.MetaClass.attribute_type', [('self', MC), ('attribute_name', STR)], returns=VAL,
           ensures={'type-of-first-declared-spelling':
                    'implies(is_declared(self, attribute_name), any(declared_at(self, attribute_name, j) and result == self.attributes[j][1] for j in range(0, len(self.attributes))))',
                    'none-when-undeclared': 'implies(not is_declared(self, attribute_name), result is None)'},
           modifies=[],
           loops={0: Loop(inv={'no-earlier-declared-spelling': 'all(not same_name(_seq[i][0], old(attribute_name)) for i in range(0, _i))',
                               'iterates': '_seq == self.attributes'})})

M.contract('xtuml.meta.MetaModel.find_metaclass', [('self', MM), ('kind', STR)], returns=MC,
           ensures={'class-registered-under-upper-case-name': 'result is self.metaclasses[upper(kind)]'},
           raises=[Raises('UnknownClassException', when='upper(kind) not in self.metaclasses')], modifies=[])

M.lemma('C10.lemma.value_written_under_one_spelling_is_read_under_every_other',
        [('a', INST), ('n1', STR), ('n2', STR), ('v', VAL)],
        requires={'instance': 'a is not None and a.__metaclass__ is not None',
                  'two-spellings-of-a-declared-plain-attribute':
                  'same_name(n1, n2) and any(declared_at(a.__metaclass__, n1, j) and not has_property(a, a.__metaclass__.attributes[j][0]) '
                  'for j in range(0, len(a.__metaclass__.attributes)))'},
        source='''
def lemma(a, n1, n2, v):
    a.__setattr__(n1, v)
    x = a.__getattr__(n2)
    assert x == v
    a.__setattr__(n2, v)
    y = a.__getattr__(n1)
    assert y == v
''')
