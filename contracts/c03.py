"""C03 — loading links exactly the key-matching pairs: the null rule and the key computations."""
from pyvc.spec import Module, Raises, Loop
from pyvc.sorts import INT, BOOL, STR, VAL, NONE, RefT, SeqT, SetT, MapT, TupT
from .base import INST, MC, MM, LINK

M = Module('contracts.c03', prop='C03')
M.use('contracts.base', 'contracts.c02', 'contracts.c10')

M.uninterpreted('attr_value', [INST, STR], VAL)
M.klass('Class', getattr='builtins.getattr@Class')
M.contract('builtins.getattr@Class', [('obj', INST), ('name', STR)], returns=VAL, trusted=True,
           reason='PY-6: attribute read of an instance (pure); contracts.c10 proves Class.__getattr__ against the CPython lookup',
           ensures={'value': 'result == attr_value(obj, name)'}, modifies=[])

M.spec('''
def raw_value(inst, name):
    return inst.__dict__[name] if name in inst.__dict__ else attr_value(inst, name)

def null_by_type(mc, name, v):
    return any(declared_at(mc, name, j) and ((upper(mc.attributes[j][1]) == 'UNIQUE_ID' and v == 0)
                                             or (upper(mc.attributes[j][1]) == 'STRING' and len(v) == 0))
               for j in range(0, len(mc.attributes)))

def is_null_value(mc, name, v):
    return v is None or ((not v) and null_by_type(mc, name, v))
''')

M.contract('xtuml.meta._is_null', [('instance', INST), ('name', STR)], returns=VAL,
           requires={'instance': 'instance is not None and instance.__metaclass__ is not None',
                     'falsy-values-of-string-attributes-are-strings':
                     "all(implies(declared_at(instance.__metaclass__, name, j) and upper(instance.__metaclass__.attributes[j][1]) == 'STRING' "
                     "and not raw_value(instance, name) and raw_value(instance, name) is not None, is_str(raw_value(instance, name))) "
                     "for j in range(0, len(instance.__metaclass__.attributes)))"},
           ensures={'null-iff-unset-or-zero-id-or-empty-string':
                    'bool(result) == is_null_value(instance.__metaclass__, name, raw_value(instance, name))'},
           modifies=[],
           loops={0: Loop(inv={'no-earlier-declared-spelling': 'all(not same_name(_seq[i][0], old(name)) for i in range(0, _i))',
                               'iterates': '_seq == instance.__metaclass__.attributes'})})

# the value-level null rule used when instances are created through the API (MetaClass.new): same rule as _is_null
M.contract('xtuml.meta.MetaClass._is_null_value', [('self', MC), ('name', STR), ('value', VAL)], returns=BOOL,
           requires={'falsy-values-of-string-attributes-are-strings':
                     "all(implies(declared_at(self, name, j) and upper(self.attributes[j][1]) == 'STRING' and value is not None, is_str(value)) "
                     "for j in range(0, len(self.attributes)))",
                     'declared-types-are-strings': 'all(is_str(a[1]) or True for a in self.attributes)'},
           ensures={'same-null-rule-as-the-loader':
                    'result == (value is None or null_by_type(self, name, value))'},
           modifies=[])

