"""C02 — links: Link.*, _find_link, relate, unrelate, delete."""
from pyvc.spec import Module, Raises, Loop
from pyvc.sorts import INT, BOOL, STR, VAL, NONE, RefT, SeqT, SetT, MapT, TupT
from .base import INST, MC, MM, LINK, ASSOC, OSET, QSET

M = Module('contracts.c02', prop='C02')
M.use('contracts.base')

M.contract('xtuml.meta.Link.navigate', [('self', LINK), ('instance', INST)], returns=SeqT(INST),
           ensures={'partners-in-link-order': 'result == partners(self, instance)'}, modifies=[])
