"""C02 — links stay symmetric, bounded and atomic: Link.*, _find_link, relate, unrelate.

Abstraction: partners(L, x) (contracts.base) = the view of the ordered set L holds for x, [] when x is no key.
link_wf(L): every key holds its own, non-empty, allocated set (ghost owner_link / owner_key record which link and key a set
belongs to, so that changing one set provably leaves every other key and every other link alone)."""
from pyvc.spec import Module, Raises, Loop
from pyvc.sorts import INT, BOOL, STR, VAL, NONE, RefT, SeqT, SetT, MapT, TupT
from .base import INST, MC, MM, LINK, ASSOC, OSET, QSET

M = Module('contracts.c02', prop='C02')
M.use('contracts.base', 'contracts.oset_client')
M.fields({'OrderedSet.owner_link': LINK, 'OrderedSet.owner_key': INST})

M.spec('''
def distinct(v):
    return all(all(implies(i < j, v[i] is not v[j]) for j in range(0, len(v))) for i in range(0, len(v)))

def link_wf(L):
    return all(implies(k in L._dict_, allocated(L._dict_[k]) and L._dict_[k].owner_link is L and L._dict_[k].owner_key is k
                       and len(L._dict_[k].view) > 0 and k is not None)
               for k in anyref('Class'))

def foreign_sets_untouched(L):
    return all(implies(old(s.owner_link) is not L and not fresh(s),
                       s.view == old(s.view) and s.owner_link is old(s.owner_link) and s.owner_key is old(s.owner_key))
               for s in anyref('OrderedSet'))

def other_keys_untouched(L, x):
    return all(implies(k is not x, (k in L._dict_) == old(k in L._dict_) and partners(L, k) == old(partners(L, k)))
               for k in anyref('Class'))
''')

LINKREP = ['self._dict_', 'OrderedSet.view', 'OrderedSet.owner_link', 'OrderedSet.owner_key']

M.contract('xtuml.meta.Link.navigate', [('self', LINK), ('instance', INST)], returns=SeqT(INST),
           ensures={'partners-in-link-order': 'result == partners(self, instance)'}, modifies=[])
M.contract('xtuml.meta.Link.navigate_one', [('self', LINK), ('instance', INST)], returns=INST,
           ensures={'first-partner-or-none': 'result is (partners(self, instance)[0] if len(partners(self, instance)) > 0 else None)'},
           modifies=[])

M.contract('xtuml.meta.Link.connect', [('self', LINK), ('instance', INST), ('another_instance', INST), ('check', BOOL, 'True')],
           returns=BOOL,
           requires={'wf': 'link_wf(self)', 'instances': 'instance is not None and another_instance is not None'},
           ensures={
               'accepted-unless-second-partner-on-single-valued-end':
                   'result == (old(another_instance in partners(self, instance)) or not (old(len(partners(self, instance))) > 0 and not self.many and check))',
               'partners': 'partners(self, instance) == (old(partners(self, instance)) + [another_instance] '
                           'if result and not old(another_instance in partners(self, instance)) else old(partners(self, instance)))',
               'other-keys': 'other_keys_untouched(self, instance)',
               'wf': 'link_wf(self)', 'other-links': 'foreign_sets_untouched(self)'},
           modifies=LINKREP,
           ghost={'exit': [('self._dict_[instance].owner_link', 'self'), ('self._dict_[instance].owner_key', 'instance')]})

M.contract('xtuml.meta.Link.disconnect', [('self', LINK), ('instance', INST), ('another_instance', INST)], returns=BOOL,
           requires={'wf': 'link_wf(self)', 'instances': 'instance is not None and another_instance is not None'},
           ensures={
               'accepted-iff-connected': 'result == old(another_instance in partners(self, instance))',
               'partners': 'partners(self, instance) == seq_remove(old(partners(self, instance)), another_instance)',
               'removed-is-absent': 'another_instance not in partners(self, instance)',
               'other-partners-kept': 'all(implies(v is not another_instance, (v in partners(self, instance)) == old(v in partners(self, instance))) for v in anyref("Class"))',
               'other-keys': 'other_keys_untouched(self, instance)',
               'wf': 'link_wf(self)', 'other-links': 'foreign_sets_untouched(self)'},
           modifies=LINKREP)

# ---- finding the association two instances are related across
M.spec('''
def norm_rel(rel_id):
    return ('R' + int_str(rel_id)) if is_int(rel_id) else rel_id

def kind_of(inst):
    return inst.__metaclass__.kind

def src_match(ass, i1, i2, rel, phrase):
    return (ass.rel_id == rel and ass.source_link.from_metaclass.kind == kind_of(i1)
            and ass.source_link.to_metaclass.kind == kind_of(i2) and ass.source_link.phrase == phrase)

def tgt_match(ass, i1, i2, rel, phrase):
    return (ass.rel_id == rel and ass.target_link.from_metaclass.kind == kind_of(i1)
            and ass.target_link.to_metaclass.kind == kind_of(i2) and ass.target_link.phrase == phrase)

def any_match(m, i1, i2, rel, phrase):
    return any(src_match(a, i1, i2, rel, phrase) or tgt_match(a, i1, i2, rel, phrase) for a in m.associations)

def first_match_at(m, i1, i2, rel, phrase, j):
    return (0 <= j and j < len(m.associations)
            and (src_match(m.associations[j], i1, i2, rel, phrase) or tgt_match(m.associations[j], i1, i2, rel, phrase))
            and all(not src_match(m.associations[i], i1, i2, rel, phrase) and not tgt_match(m.associations[i], i1, i2, rel, phrase)
                    for i in range(0, j)))

def inst_ok(i):
    return i is not None and i.__metaclass__ is not None and i.__metaclass__.metamodel is not None

def assocs_ok(m):
    return all(a is not None and a.source_link is not None and a.target_link is not None
               and a.source_link.from_metaclass is not None and a.source_link.to_metaclass is not None
               and a.target_link.from_metaclass is not None and a.target_link.to_metaclass is not None for a in m.associations)
''')

M.contract('xtuml.meta.get_metaclass', [('class_or_instance', INST)], returns=MC,
           requires={'instance': 'class_or_instance is not None'},
           ensures={'metaclass-of-instance': 'result is class_or_instance.__metaclass__'}, modifies=[])

FOUND = TupT(INST, INST, ASSOC)
M.contract('xtuml.meta._find_link', [('inst1', INST), ('inst2', INST), ('rel_id', VAL), ('phrase', STR)], returns=FOUND,
           requires={'instances': 'inst_ok(inst1) and inst_ok(inst2)', 'rel-id-shape': 'is_int(rel_id) or is_str(rel_id)',
                     'associations': 'assocs_ok(inst1.__metaclass__.metamodel)'},
           ensures={'first-matching-association-oriented':
                    'any(first_match_at(inst1.__metaclass__.metamodel, inst1, inst2, norm_rel(rel_id), phrase, j) '
                    'and result[2] is inst1.__metaclass__.metamodel.associations[j] '
                    'and ((result[0] is inst1 and result[1] is inst2) if src_match(result[2], inst1, inst2, norm_rel(rel_id), phrase) '
                    'else (result[0] is inst2 and result[1] is inst1)) '
                    'for j in range(0, len(inst1.__metaclass__.metamodel.associations)))'},
           raises=[Raises('UnknownLinkException', when='not any_match(inst1.__metaclass__.metamodel, inst1, inst2, norm_rel(rel_id), phrase)')],
           modifies=[],
           loops={0: Loop(inv={'no-earlier-match': 'all(not src_match(_seq[i], inst1, inst2, norm_rel(old(rel_id)), phrase) and not tgt_match(_seq[i], inst1, inst2, norm_rel(old(rel_id)), phrase) for i in range(0, _i))',
                               'iterates': '_seq == inst1.__metaclass__.metamodel.associations'})})

# ---- relate / unrelate: both directed links change together or not at all
M.spec('''
def mirror(a):
    return all(all(implies(x is not None and y is not None,
                           (y in partners(a.source_link, x)) == (x in partners(a.target_link, y)))
                   for y in anyref('Class')) for x in anyref('Class'))

def second_partner(L, x, y):
    return (y not in partners(L, x)) and len(partners(L, x)) > 0 and not L.many

def mm(i):
    return i.__metaclass__.metamodel

def both(a, b):
    return a is not None and b is not None

def link_unchanged(L):
    return all((k in L._dict_) == old(k in L._dict_) and partners(L, k) == old(partners(L, k)) for k in anyref('Class'))

def model_as_before(a):
    return link_unchanged(a.source_link) and link_unchanged(a.target_link) and sets_of_other_links_untouched(a.source_link, a.target_link)

def sets_of_other_links_untouched(L1, L2):
    return all(implies(old(s.owner_link) is not L1 and old(s.owner_link) is not L2 and not fresh(s), s.view == old(s.view))
               for s in anyref('OrderedSet'))
''')

RELREP = ['Link._dict_', 'OrderedSet.view', 'OrderedSet.owner_link', 'OrderedSet.owner_key']
REL_LETS = {'f': '_find_link(from_instance, to_instance, rel_id, phrase)'}
REL_REQ = {'instances': 'implies(both(from_instance, to_instance), inst_ok(from_instance) and inst_ok(to_instance) '
                        'and assocs_ok(mm(from_instance)))',
           'rel-id-shape': 'is_int(rel_id) or is_str(rel_id)',
           'found-association-well-formed': 'implies(both(from_instance, to_instance) and any_match(mm(from_instance), from_instance, to_instance, norm_rel(rel_id), phrase), '
                                            'f[0] is not None and f[1] is not None and f[2] is not None and f[2].source_link is not None and f[2].target_link is not None '
                                            'and f[2].source_link is not f[2].target_link and link_wf(f[2].source_link) and link_wf(f[2].target_link) and mirror(f[2]))'}
M.contract('xtuml.meta.relate', [('from_instance', INST), ('to_instance', INST), ('rel_id', VAL), ('phrase', STR, "''")],
           returns=BOOL, lets=REL_LETS, requires=REL_REQ,
           ensures={
               'none-is-refused-without-effect': 'implies(not both(from_instance, to_instance), result == False and unchanged())',
               'accepted': 'implies(both(from_instance, to_instance), result == True)',
               'source-side': 'implies(both(from_instance, to_instance), partners(f[2].source_link, f[0]) == '
                              '(old(partners(f[2].source_link, f[0])) if old(f[1] in partners(f[2].source_link, f[0])) else old(partners(f[2].source_link, f[0])) + [f[1]]))',
               'target-side': 'implies(both(from_instance, to_instance), partners(f[2].target_link, f[1]) == '
                              '(old(partners(f[2].target_link, f[1])) if old(f[0] in partners(f[2].target_link, f[1])) else old(partners(f[2].target_link, f[1])) + [f[0]]))',
               'other-keys': 'implies(both(from_instance, to_instance), other_keys_untouched(f[2].source_link, f[0]) and other_keys_untouched(f[2].target_link, f[1]))',
               'other-links': 'implies(both(from_instance, to_instance), sets_of_other_links_untouched(f[2].source_link, f[2].target_link))',
               'still-mirrored': 'implies(both(from_instance, to_instance), mirror(f[2]))',
               'links-well-formed': 'implies(both(from_instance, to_instance), link_wf(f[2].source_link) and link_wf(f[2].target_link))',
           },
           raises=[Raises('UnknownLinkException', when='both(from_instance, to_instance) and not any_match(mm(from_instance), from_instance, to_instance, norm_rel(rel_id), phrase)'),
                   Raises('RelateException', when='both(from_instance, to_instance) and any_match(mm(from_instance), from_instance, to_instance, norm_rel(rel_id), phrase) and '
                          '(second_partner(f[2].source_link, f[0], f[1]) or second_partner(f[2].target_link, f[1], f[0]))',
                          post={'model-exactly-as-before': 'model_as_before(f[2])'})],
           modifies=RELREP)

M.contract('xtuml.meta.unrelate', [('from_instance', INST), ('to_instance', INST), ('rel_id', VAL), ('phrase', STR, "''")],
           returns=BOOL, lets=REL_LETS, requires=REL_REQ,
           ensures={
               'none-is-refused-without-effect': 'implies(not both(from_instance, to_instance), result == False and unchanged())',
               'accepted': 'implies(both(from_instance, to_instance), result == True)',
               'source-side': 'implies(both(from_instance, to_instance), partners(f[2].source_link, f[0]) == seq_remove(old(partners(f[2].source_link, f[0])), f[1]))',
               'target-side': 'implies(both(from_instance, to_instance), partners(f[2].target_link, f[1]) == seq_remove(old(partners(f[2].target_link, f[1])), f[0]))',
               'other-keys': 'implies(both(from_instance, to_instance), other_keys_untouched(f[2].source_link, f[0]) and other_keys_untouched(f[2].target_link, f[1]))',
               'other-links': 'implies(both(from_instance, to_instance), sets_of_other_links_untouched(f[2].source_link, f[2].target_link))',
               'still-mirrored': 'implies(both(from_instance, to_instance), mirror(f[2]))',
               'links-well-formed': 'implies(both(from_instance, to_instance), link_wf(f[2].source_link) and link_wf(f[2].target_link))',
           },
           raises=[Raises('UnknownLinkException', when='both(from_instance, to_instance) and not any_match(mm(from_instance), from_instance, to_instance, norm_rel(rel_id), phrase)'),
                   Raises('UnrelateException', when='both(from_instance, to_instance) and any_match(mm(from_instance), from_instance, to_instance, norm_rel(rel_id), phrase) and '
                          'f[1] not in partners(f[2].source_link, f[0])',
                          post={'model-exactly-as-before': 'model_as_before(f[2])'})],
           modifies=RELREP)

M.lemma('C02.lemma.unrelate_exactly_undoes_relate',
        [('from_instance', INST), ('to_instance', INST), ('rel_id', VAL), ('phrase', STR)], lets=REL_LETS, tiers=('thorough',),
        requires=dict(REL_REQ, **{'both': 'both(from_instance, to_instance)',
                                  'link-exists': 'any_match(mm(from_instance), from_instance, to_instance, norm_rel(rel_id), phrase)',
                                  'not-yet-related': 'f[1] not in partners(f[2].source_link, f[0])',
                                  'relate-allowed': 'not second_partner(f[2].source_link, f[0], f[1]) and not second_partner(f[2].target_link, f[1], f[0])'}),
        source='''
def lemma(from_instance, to_instance, rel_id, phrase):
    t = _find_link(from_instance, to_instance, rel_id, phrase)
    s0 = t[2].source_link.navigate(t[0])
    t0 = t[2].target_link.navigate(t[1])
    relate(from_instance, to_instance, rel_id, phrase)
    unrelate(from_instance, to_instance, rel_id, phrase)
    assert t[2].source_link.navigate(t[0]) == s0
    assert t[2].target_link.navigate(t[1]) == t0
''')

# ---- delete, pool part (variant without disconnecting; the unlinking loop iterates a partner set that unrelate shrinks: bounded tier)
M.contract('xtuml.meta.MetaClass.delete@keep-links', [('self', MC), ('instance', INST), ('disconnect', BOOL, 'True')], returns=NONE,
           requires={'links-are-kept': 'disconnect == False'},
           ensures={'removed-from-the-pool-order-of-the-rest-kept': 'self.storage == seq_remove(old(self.storage), instance)'},
           raises=[Raises('DeleteException', when='instance not in self.storage')],
           modifies=['self.storage'])
M.contract('xtuml.meta.delete@keep-links', [('instance', INST), ('disconnect', BOOL, 'True')], returns=NONE,
           requires={'links-are-kept': 'disconnect == False', 'metaclass': 'implies(instance is not None, instance.__metaclass__ is not None)'},
           ensures={'removed-from-the-pool-of-its-class-order-of-the-rest-kept':
                    'instance.__metaclass__.storage == seq_remove(old(instance.__metaclass__.storage), instance)',
                    'pools-of-other-classes-untouched': 'all(implies(mc is not instance.__metaclass__, mc.storage == old(mc.storage)) for mc in anyref("MetaClass"))'},
           raises=[Raises('DeleteException', when='instance is None or instance not in instance.__metaclass__.storage')],
           modifies=['MetaClass.storage'])
