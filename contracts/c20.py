"""C20 — XSD generation: the type-name mapping and the element structure built by gen_xsd_schema.

Navigations of the ooaofooa population are abstract: one(x).A[R1].B[R2](f) is the value u_nav_all(x, "A[R1].B[R2]", f) (first
element or None for the one/any forms) — the assumed contract of the navigation DSL (C09).  Attribute reads of instances are
attr_value(inst, UPPER-CASE NAME): every spelling addresses one value (C10).  ElementTree constructors are abstract tree
constructors (A-IO): an Element has a tag, an attribute map and a child sequence."""
from pyvc.spec import Module, Raises, Loop
from pyvc.sorts import INT, BOOL, STR, VAL, REAL, NONE, RefT, SeqT, SetT, MapT, TupT
from .base import INST

M = Module('contracts.c20', prop='C20')
M.use('contracts.base')
M.klass('Class', instance_attrs=True)
EL = RefT('Element')
M.fields({'Element.tag': STR, 'Element.attrs': MapT(STR, VAL), 'Element.children': SeqT(EL)})
M.uninterpreted('attr_value', [INST, STR], VAL)
M.uninterpreted('nav_all', [INST, STR, INT], SeqT(INST))
KW = [('name', VAL, 'None'), ('base', VAL, 'None'), ('value', VAL, 'None'), ('type', VAL, 'None'), ('minOccurs', VAL, 'None'), ('maxOccurs', VAL, 'None')]
M.spec('''
def attrs_of(name, base, value, type, minOccurs, maxOccurs, m):
    return ((('name' in m) == (name is not None)) and implies(name is not None, same(m['name'], name))
            and (('base' in m) == (base is not None)) and implies(base is not None, same(m['base'], base))
            and (('value' in m) == (value is not None)) and implies(value is not None, same(m['value'], value))
            and (('type' in m) == (type is not None)) and implies(type is not None, same(m['type'], type)))
''')
WHY = 'A-IO: xml.etree.ElementTree constructors as abstract tree constructors'
M.contract('xml.etree.ElementTree.Element', [('tag', STR)] + KW, returns=EL, trusted=True, reason=WHY,
           ensures={'fresh-leaf': 'result is not None and fresh(result) and result.tag == tag and len(result.children) == 0 '
                                  'and attrs_of(name, base, value, type, minOccurs, maxOccurs, result.attrs)'},
           modifies=['Element.tag', 'Element.attrs', 'Element.children'], ghost={'allocates': True})
M.contract('xml.etree.ElementTree.SubElement', [('parent', EL), ('tag', STR)] + KW, returns=EL, trusted=True, reason=WHY,
           requires={'parent': 'parent is not None'},
           ensures={'fresh-leaf': 'result is not None and fresh(result) and result.tag == tag and len(result.children) == 0 '
                                  'and attrs_of(name, base, value, type, minOccurs, maxOccurs, result.attrs)',
                    'appended-to-parent': 'parent.children == old(parent.children) + [result] and parent.tag == old(parent.tag) and same(parent.attrs, old(parent.attrs))',
                    'others-untouched': 'all(implies(e is not parent and not fresh(e), e.tag == old(e.tag) and e.children == old(e.children) and same(e.attrs, old(e.attrs))) for e in anyref("Element"))'},
           modifies=['Element.tag', 'Element.attrs', 'Element.children'], ghost={'allocates': True})

M.spec('''
def xs_of(n):
    return ('xs:boolean' if n == 'boolean' else 'xs:integer' if n == 'integer' else 'xs:decimal' if n == 'real'
            else 'xs:string' if n == 'string' else 'xs:integer' if n == 'unique_id' else '')

def first_of(x, chain):
    return nav_all(x, chain, 0)[0] if len(nav_all(x, chain, 0)) > 0 else None
''')
M.contract('bridgepoint.gen_xsd_schema.build_core_type', [('s_cdt', INST)], returns=EL,
           lets={'dt': 'first_of(s_cdt, "S_DT[R17]")'},
           requires={'data-type': 'dt is not None and is_str(attr_value(dt, "NAME"))'},
           ensures={'supported-core-types-map-to-their-xsd-base':
                    'implies(xs_of(as_str(attr_value(dt, "NAME"))) != "", result is not None and fresh(result) and result.tag == "xs:simpleType" '
                    'and "name" in result.attrs and same(result.attrs["name"], attr_value(dt, "NAME")) and len(result.children) == 1 '
                    'and result.children[0].tag == "xs:restriction" and "base" in result.children[0].attrs '
                    'and result.children[0].attrs["base"] == xs_of(as_str(attr_value(dt, "NAME"))))',
                    'void-and-unknown-core-types-are-omitted': 'implies(xs_of(as_str(attr_value(dt, "NAME"))) == "", result is None)'},
           modifies=['Element.tag', 'Element.attrs', 'Element.children'])

M.spec('''
def has(x, chain):
    return first_of(x, chain) is not None

def xsd_named(s_dt):
    return ((has(s_dt, "S_CDT[R17]") and is_int(attr_value(first_of(s_dt, "S_CDT[R17]"), "CORE_TYP"))
             and 1 <= as_int(attr_value(first_of(s_dt, "S_CDT[R17]"), "CORE_TYP")) and as_int(attr_value(first_of(s_dt, "S_CDT[R17]"), "CORE_TYP")) < 6)
            or has(s_dt, "S_EDT[R17]") or has(s_dt, "S_UDT[R17]"))
''')
M.contract('bridgepoint.gen_xsd_schema.get_type_name', [('s_dt', INST)], returns=VAL,
           requires={'data-type': 's_dt is not None'},
           ensures={'named-as-modeled-when-supported': 'implies(xsd_named(s_dt), same(result, attr_value(s_dt, "NAME")))',
                    'nothing-for-unsupported-types': 'implies(not xsd_named(s_dt), result is None)'},
           modifies=[])
M.contract('bridgepoint.gen_xsd_schema.build_user_type', [('s_udt', INST)], returns=EL,
           lets={'user': 'first_of(s_udt, "S_DT[R17]")', 'base': 'first_of(s_udt, "S_DT[R18]")'},
           requires={'data-types': 'user is not None and base is not None and is_str(attr_value(user, "NAME"))'},
           ensures={'element': 'implies(xsd_named(base) and bool(attr_value(base, "NAME")), result is not None and fresh(result) and result.tag == "xs:simpleType")',
                    'named-as-the-user-type': 'implies(xsd_named(base) and bool(attr_value(base, "NAME")), "name" in result.attrs and same(result.attrs["name"], attr_value(user, "NAME")))',
                    'one-restriction-child': 'implies(xsd_named(base) and bool(attr_value(base, "NAME")), len(result.children) == 1 and result.children[0].tag == "xs:restriction")',
                    'restriction-of-its-base-type': 'implies(xsd_named(base) and bool(attr_value(base, "NAME")), "base" in result.children[0].attrs and same(result.children[0].attrs["base"], attr_value(base, "NAME")))',
                    'omitted-when-the-base-is-unsupported': 'implies(not xsd_named(base), result is None)'},
           modifies=['Element.tag', 'Element.attrs', 'Element.children'])


# ---- the attribute a referential attribute finally refers to (partial correctness: termination on an acyclic chain is not proved)
M.spec('''
def referred_root(o_attr):
    return (referred_root(first_of(o_attr, "O_RATTR[R106].O_BATTR[R113].O_ATTR[R106]"))
            if first_of(o_attr, "O_RATTR[R106].O_BATTR[R113].O_ATTR[R106]") is not None else o_attr)
''', sorts={'referred_root': ([INST], INST, [])})
M.contract('bridgepoint.gen_xsd_schema.get_refered_attribute', [('o_attr', INST)], returns=INST,
           ensures={'end-of-the-reference-chain': 'result is referred_root(o_attr)'}, modifies=[])

# ---- build_type: one subtype of S_DT decides which builder runs — core before enumeration before user-defined; anything else
#      (structured types, instance references) yields no type element
M.fields({'Element.enum_of': INST})
M.contract('bridgepoint.gen_xsd_schema.build_enum_type', [('s_edt', INST)], returns=EL, trusted=True,
           reason='abstract here: the element built for an enumeration is recorded with the S_EDT it was built from (ghost enum_of); '
                  'its enumerator walk along R56 is decided by the bounded tier (c20 item type-layers)',
           requires={'enumeration': 's_edt is not None'},
           ensures={'a-new-simple-type-for-that-enumeration': 'result is not None and fresh(result) and result.tag == "xs:simpleType" and result.enum_of is s_edt'},
           modifies=['Element.tag', 'Element.attrs', 'Element.children', 'fresh:Element.enum_of'], ghost={'allocates': True})
M.contract('bridgepoint.gen_xsd_schema.build_type', [('s_dt', INST)], returns=EL,
           lets={'cdt': 'first_of(s_dt, "S_CDT[R17]")', 'edt': 'first_of(s_dt, "S_EDT[R17]")', 'udt': 'first_of(s_dt, "S_UDT[R17]")'},
           requires={'data-type': 's_dt is not None',
                     'subtypes-complete': 'implies(cdt is not None, first_of(cdt, "S_DT[R17]") is not None and is_str(attr_value(first_of(cdt, "S_DT[R17]"), "NAME"))) and '
                                          'implies(udt is not None, first_of(udt, "S_DT[R17]") is not None and first_of(udt, "S_DT[R18]") is not None '
                                          'and is_str(attr_value(first_of(udt, "S_DT[R17]"), "NAME")))'},
           ensures={'a-core-type-is-built-as-core-type':
                    'implies(cdt is not None, (result is None) == (xs_of(as_str(attr_value(first_of(cdt, "S_DT[R17]"), "NAME"))) == "") and '
                    'implies(result is not None, fresh(result) and result.tag == "xs:simpleType" and len(result.children) == 1 and "base" in result.children[0].attrs '
                    'and result.children[0].attrs["base"] == xs_of(as_str(attr_value(first_of(cdt, "S_DT[R17]"), "NAME")))))',
                    'an-enumeration-is-built-as-enumeration': 'implies(cdt is None and edt is not None, result is not None and fresh(result) and result.enum_of is edt)',
                    'a-user-type-is-built-as-restriction-of-its-base':
                    'implies(cdt is None and edt is None and udt is not None and xsd_named(first_of(udt, "S_DT[R18]")) and bool(attr_value(first_of(udt, "S_DT[R18]"), "NAME")), '
                    'result is not None and fresh(result) and "name" in result.attrs and same(result.attrs["name"], attr_value(first_of(udt, "S_DT[R17]"), "NAME")) '
                    'and len(result.children) == 1 and "base" in result.children[0].attrs '
                    'and same(result.children[0].attrs["base"], attr_value(first_of(udt, "S_DT[R18]"), "NAME")))',
                    'any-other-data-type-yields-nothing': 'implies(cdt is None and edt is None and udt is None, result is None)'},
           modifies=['Element.tag', 'Element.attrs', 'Element.children', 'fresh:Element.enum_of'])
