"""C01 — the value codec: serialize_value / deserialize_value, and the lemmas dec(enc(v)) == v per core type.

LIB assumptions (listed in the evidence): '%d' % n and int(s) are SMT-LIB str.from_int / str.to_int with an explicit sign
(proved inverse by the solver); str.replace("'", "''") / ("''", "'") are the uninterpreted esc/unesc with L-ESC: unesc(esc(s)) == s
(assumed; cross-checked exhaustively on short strings in selftest); uuid.UUID(int=v) / uuid.UUID(text).int are uuid_str / uuid_int
with uuid_int(uuid_str(v)) == v for 0 <= v < 2**128; '%f' % x and float(s) are opaque (A-FLOAT: six decimals are bounded only)."""
from pyvc.spec import Module, Raises, Loop
from pyvc.sorts import INT, BOOL, STR, VAL, REAL, NONE, RefT, SeqT, SetT, MapT, TupT

M = Module('contracts.c01', prop='C01')

UUIDT = RefT('UUID')
M.fields({'UUID.int': INT, 'UUID.text': STR})
M.klass('UUID', str='self.text', ctor='uuid.UUID')
M.uninterpreted('uuid_str', [INT], STR)
M.uninterpreted('uuid_int', [STR], INT)
M.uninterpreted('uuid_wf', [STR], BOOL)
M.uninterpreted('str_replace_all', [STR, STR, STR], STR)
M.axiom('A-UUID-codec', 'all(implies(0 <= v and v < 340282366920938463463374607431768211456, uuid_wf(uuid_str(v)) and uuid_int(uuid_str(v)) == v '
                        "and all(uuid_str(v)[i] != '\"' for i in range(0, len(uuid_str(v))))) for v in ints())")
M.axiom('L-ESC', 'all(str_replace_all(str_replace_all(s, "\'", "\'\'"), "\'\'", "\'") == s for s in strs())')
M.axiom('replace-in-empty-string', 'str_replace_all("", "\'", "\'\'") == "" and str_replace_all("", "\'\'", "\'") == ""')
M.assume('L-ESC: s.replace("\'", "\'\'").replace("\'\'", "\'") == s for every string (induction, not provable by SMT; cross-checked on all strings over {\', a, -} up to length 9)')
M.assume('A-UUID-codec: uuid.UUID(str(uuid.UUID(int=v))).int == v for 0 <= v < 2**128, and the canonical text contains no double quote')
M.assume('A-FLOAT: "%f" % x and float(s) are opaque functions')

M.contract('uuid.UUID', [('hex', VAL, 'None'), ('int', VAL, 'None')], returns=UUIDT, trusted=True,
           reason='standard library: uuid.UUID(int=v) for 0 <= v < 2**128, uuid.UUID(text) raises ValueError on malformed text',
           ensures={'from-int': 'implies(int is not None, result is not None and result.int == as_int(int) and result.text == uuid_str(as_int(int)))',
                    'from-text': 'implies(int is None, result is not None and result.int == uuid_int(as_str(hex)))'},
           raises=[Raises('ValueError', when='(int is not None and (as_int(int) < 0 or as_int(int) >= 340282366920938463463374607431768211456)) or '
                          '(int is None and not uuid_wf(as_str(hex)))')],
           modifies=['UUID.int', 'UUID.text'], ghost={'allocates': True})

M.spec('''
def esc(s):
    return str_replace_all(s, "'", "''")

def unesc(s):
    return str_replace_all(s, "''", "'")
''')

M.contract('xtuml.persist.serialize_value', [('value', VAL), ('ty', STR)], returns=STR,
           requires={'typed-value':
                     "implies(value is not None, (implies(upper(ty) == 'BOOLEAN', is_bool(value)) and implies(upper(ty) == 'INTEGER', is_int(value)) "
                     "and implies(upper(ty) == 'STRING', is_str(value)) and implies(upper(ty) == 'REAL', is_real(value)) "
                     "and implies(upper(ty) == 'UNIQUE_ID', is_int(value) and 0 <= as_int(value) and as_int(value) < 340282366920938463463374607431768211456)))"},
           ensures={'boolean': "implies(upper(ty) == 'BOOLEAN', result == ('1' if (value is not None and bool(value)) else '0'))",
                    'integer': "implies(upper(ty) == 'INTEGER', result == int_str(0 if value is None else as_int(value)))",
                    'string': "implies(upper(ty) == 'STRING', result == \"'\" + esc('' if value is None else as_str(value)) + \"'\")",
                    'unique-id': "implies(upper(ty) == 'UNIQUE_ID', result == '\"' + uuid_str(0 if value is None else as_int(value)) + '\"')"},
           raises=[Raises('KeyError', when="upper(ty) != 'BOOLEAN' and upper(ty) != 'INTEGER' and upper(ty) != 'REAL' and upper(ty) != 'STRING' and upper(ty) != 'UNIQUE_ID'")],
           modifies=['UUID.int', 'UUID.text'])

M.contract('xtuml.load._deserialize_value', [('ty', STR), ('value', STR)], returns=VAL,
           ensures={
               'boolean': "implies(upper(ty) == 'BOOLEAN', (implies(is_digits(value), is_bool(result) and result == (int(value) != 0))) "
                          "and implies(not is_digits(value) and upper(value) == 'TRUE', result == True) and implies(not is_digits(value) and upper(value) == 'FALSE', result == False))",
               'integer': "implies(upper(ty) == 'INTEGER' and '\"' not in value, is_int(result) and result == int(value))",
               'string': "implies(upper(ty) == 'STRING' and len(value) >= 2, is_str(result) and as_str(result) == unesc(value[1:len(value) - 1]))",
               'unique-id-from-guid-text': "implies((upper(ty) == 'UNIQUE_ID' or upper(ty) == 'INTEGER') and '\"' in value and len(value) >= 2, is_int(result) and result == uuid_int(value[1:len(value) - 1]))",
               'unique-id-from-number': "implies(upper(ty) == 'UNIQUE_ID' and '\"' not in value, is_int(result) and result == int(value))"},
           raises=[Raises('ValueError', when="((upper(ty) == 'INTEGER' or upper(ty) == 'UNIQUE_ID') and (('\"' in value and not uuid_wf(value[1:len(value) - 1])) or ('\"' not in value and not int_literal(value)))) "
                          "or (upper(ty) == 'REAL' and not float_literal(value))")],
           modifies=['UUID.int', 'UUID.text'])

M.contract('xtuml.load.deserialize_value', [('ty', STR), ('value', STR)], returns=VAL,
           ensures={'none-instead-of-value-error':
                    "implies(((upper(ty) == 'INTEGER' or upper(ty) == 'UNIQUE_ID') and (('\"' in value and not uuid_wf(value[1:len(value) - 1])) or ('\"' not in value and not int_literal(value)))) "
                    "or (upper(ty) == 'REAL' and not float_literal(value)), result is None)",
                    'integer': "implies(upper(ty) == 'INTEGER' and '\"' not in value and int_literal(value), is_int(result) and result == int(value))",
                    'string': "implies(upper(ty) == 'STRING' and len(value) >= 2, is_str(result) and as_str(result) == unesc(value[1:len(value) - 1]))"},
           modifies=['UUID.int', 'UUID.text'])

# ---- dec(enc(v)) == v per core type (lemmas over the two contracts and the LIB axioms)
M.lemma('C01.lemma.integer_round_trip', [('v', INT), ('ty', STR)], requires={'ty': "upper(ty) == 'INTEGER'"}, source='''
def lemma(v, ty):
    s = serialize_value(v, ty)
    w = deserialize_value(ty, s)
    assert is_int(w) and w == v
''')
M.lemma('C01.lemma.string_round_trip', [('v', STR), ('ty', STR)], requires={'ty': "upper(ty) == 'STRING'"}, source='''
def lemma(v, ty):
    s = serialize_value(v, ty)
    w = deserialize_value(ty, s)
    assert is_str(w) and as_str(w) == v
''')
M.lemma('C01.lemma.boolean_round_trip', [('v', BOOL), ('ty', STR)], requires={'ty': "upper(ty) == 'BOOLEAN'"}, source='''
def lemma(v, ty):
    s = serialize_value(v, ty)
    w = _deserialize_value(ty, s)
    assert is_bool(w) and w == v
''')
M.lemma('C01.lemma.unique_id_round_trip', [('v', INT), ('ty', STR)],
        requires={'ty': "upper(ty) == 'UNIQUE_ID'", 'id': '0 <= v and v < 340282366920938463463374607431768211456'}, source='''
def lemma(v, ty):
    s = serialize_value(v, ty)
    w = _deserialize_value(ty, s)
    assert is_int(w) and w == v
''')
M.lemma('C01.lemma.unset_is_written_as_the_null_of_its_type', [('ty', STR)], requires={'ty': "upper(ty) == 'INTEGER' or upper(ty) == 'STRING' or upper(ty) == 'BOOLEAN'"}, source='''
def lemma(ty):
    s = serialize_value(None, ty)
    assert implies(upper(ty) == 'INTEGER', s == '0') and implies(upper(ty) == 'BOOLEAN', s == '0') and implies(upper(ty) == 'STRING', s == "''")
''')

# ---- association text: each end's cardinality, class, key attributes and phrase where the loader reads them back
from .base import LINK, ASSOC, MC
M.use('contracts.base')
M.contract('xtuml.meta.Link.cardinality', [('self', LINK)], returns=STR, kind='property',
           ensures={'cardinality-letters': "result == ('M' if self.many else '1') + ('C' if self.conditional else '')"}, modifies=[])
M.spec('''
def card_text(link):
    return ('M' if link.many else '1') + ('C' if link.conditional else '')

def end_text(link, keys, phrase):
    return card_text(link) + ' ' + link.to_metaclass.kind + ' (' + join(', ', keys) + ')' + ((" PHRASE '" + str_replace_all(phrase, "'", "''") + "'") if len(phrase) > 0 else '')
''')
M.contract('xtuml.persist.serialize_association', [('ass', ASSOC)], returns=STR,
           requires={'association': 'ass is not None and ass.source_link is not None and ass.target_link is not None '
                                    'and ass.source_link.to_metaclass is not None and ass.target_link.to_metaclass is not None'},
           ensures={'create-rop-statement-with-each-end-in-its-place':
                    "result == 'CREATE ROP REF_ID ' + ass.rel_id + ' FROM ' + end_text(ass.source_link, ass.source_keys, ass.target_link.phrase) "
                    "+ ' TO ' + end_text(ass.target_link, ass.target_keys, ass.source_link.phrase) + ';\\n'"},
           modifies=[])
