"""C15 — callable model elements: return delivery, body scoping (bridgepoint/interpret.py).
Evaluation of children is abstract as in contracts.c04; here accept() may also end with the control-flow exceptions of the language
(return, control stop), decided by uninterpreted predicates of the child and the trace position."""
from pyvc.spec import Module, Raises, Loop
from pyvc.sorts import INT, BOOL, STR, VAL, REAL, NONE, RefT, SeqT, SetT, MapT, TupT
from .base import INST

M = Module('contracts.c15', prop='C15')
M.use('contracts.base')
W = RefT('ActionWalker')
NODE = RefT('Node')
ACC = RefT('Acc')
SYM = RefT('SymbolTable')
M.fields({'ActionWalker.trace': SeqT(NODE), 'ActionWalker.symtab': SYM, 'ActionWalker.instance': INST, 'ActionWalker.return_value': VAL,
          'Acc.fgetv': VAL, 'Acc.truth': BOOL, 'ReturnNode.expression': NODE, 'BodyNode.block': NODE,
          'SymbolTable.depth': INT, 'SymbolTable.installed': SeqT(TupT(STR, VAL, INT))})
M.klass('ReturnNode', bases=['Node'])
M.klass('BodyNode', bases=['Node'])
M.klass('Acc', truth='self.truth')
M.uninterpreted('evalv', [NODE, INT], VAL)
M.uninterpreted('returns_at', [NODE, INT], BOOL)
M.uninterpreted('stops_at', [NODE, INT], BOOL)
M.uninterpreted('breaks_at', [NODE, INT], BOOL)
M.uninterpreted('continues_at', [NODE, INT], BOOL)
WHY = 'structural induction: the evaluation of a child node is abstract'
# a child may declare variables: the record of installations of every symbol table only grows
KEEPS = ('all(len(t.installed) >= len(old(t.installed)) and seq_take(t.installed, len(old(t.installed))) == old(t.installed) '
         'for t in anyref("SymbolTable"))')
M.contract('bridgepoint.interpret.ActionWalker.accept', [('self', W), ('node', NODE)], returns=ACC, trusted=True, reason=WHY,
           ensures={'nothing-for-a-missing-child': 'implies(node is None, result is None and self.trace == old(self.trace))',
                    'symbols-are-only-added': KEEPS,
                    'recorded': 'implies(node is not None, self.trace == old(self.trace) + [node] and result is not None '
                                'and same(result.fgetv, evalv(node, len(old(self.trace)))))'},
           raises=[Raises('ReturnException', when='node is not None and returns_at(node, len(self.trace))',
                          post={'recorded': 'self.trace == old(self.trace) + [node]', 'symbols-are-only-added': KEEPS}),
                   Raises('StopException', when='node is not None and not returns_at(node, len(self.trace)) and stops_at(node, len(self.trace))',
                          post={'recorded': 'self.trace == old(self.trace) + [node]', 'symbols-are-only-added': KEEPS})],
           modifies=['self.trace', 'Acc.fgetv', 'Acc.truth', 'SymbolTable.installed'], ghost={'allocates': True})
M.contract('builtins.Acc.fget', [('self', ACC)], returns=VAL, trusted=True, reason='getter of the returned property object',
           ensures={'value': 'same(result, self.fgetv)'}, modifies=[])
M.contract('bridgepoint.interpret.SymbolTable.enter_scope', [('self', SYM)], returns=NONE, trusted=True, reason='scope depth abstraction',
           ensures={'deeper': 'self.depth == old(self.depth) + 1'}, modifies=['self.depth'])
M.contract('bridgepoint.interpret.SymbolTable.leave_scope', [('self', SYM)], returns=VAL, trusted=True, reason='scope depth abstraction',
           ensures={'shallower': 'self.depth == old(self.depth) - 1'}, modifies=['self.depth'])
M.contract('bridgepoint.interpret.SymbolTable.install_symbol', [('self', SYM), ('name', STR), ('handle', VAL)], returns=NONE, trusted=True,
           reason='the installation is recorded with the scope depth it happens at',
           ensures={'recorded': 'self.installed == old(self.installed) + [(name, handle, self.depth)]'}, modifies=['self.installed'])

M.contract('bridgepoint.interpret.ActionWalker.accept_ReturnNode', [('self', W), ('node', RefT('ReturnNode'))], returns=NONE,
           lets={'n': 'len(self.trace)'},
           requires={'node': 'node is not None', 'expression-does-not-itself-return': 'node.expression is None or (not returns_at(node.expression, n) and not stops_at(node.expression, n) '
                                                         'and not breaks_at(node.expression, n) and not continues_at(node.expression, n))'},
           raises=[Raises('ReturnException', when='True',
                          post={'delivers-the-value-of-the-expression': 'implies(node.expression is not None, same(self.return_value, evalv(node.expression, n)))',
                                'bare-return-delivers-nothing': 'implies(node.expression is None, same(self.return_value, old(self.return_value)))'})],
           modifies=['self.trace', 'self.return_value', 'Acc.fgetv', 'Acc.truth'])

M.contract('bridgepoint.interpret.ActionWalker.accept_BodyNode', [('self', W), ('node', RefT('BodyNode'))], returns=NONE,
           lets={'n': 'len(self.trace)'},
           requires={'node': 'node is not None and self.symtab is not None and node.block is not None',
                     'no-break-or-continue-outside-a-loop': 'not breaks_at(node.block, n) and not continues_at(node.block, n)'},
           ensures={'own-scope-entered-and-left': 'self.symtab.depth == old(self.symtab.depth)',
                    'return-and-stop-end-the-body-quietly': 'self.trace == old(self.trace) + [node.block]',
                    'self-bound-to-the-receiving-instance':
                    'implies(self.instance is not None, len(self.symtab.installed) >= len(old(self.symtab.installed)) + 1 '
                    'and self.symtab.installed[len(old(self.symtab.installed))][0] == "self" '
                    'and self.symtab.installed[len(old(self.symtab.installed))][2] == old(self.symtab.depth) + 1) '
                    'and seq_take(self.symtab.installed, len(old(self.symtab.installed))) == old(self.symtab.installed)'},
           modifies=['self.trace', 'self.symtab.depth', 'self.symtab.installed', 'Acc.fgetv', 'Acc.truth'])

# ---- control flow inside a body: blocks, statement lists, break / continue / stop, while
M.fields({'SymbolTable.blocks': INT, 'Node.statement_list': NODE, 'Node.children': SeqT(NODE), 'Node.expression': NODE, 'Node.block': NODE})
ct = M.contracts['bridgepoint.interpret.ActionWalker.accept']
other = 'node is not None and not returns_at(node, len(self.trace)) and not stops_at(node, len(self.trace))'
ct.raises += [Raises('BreakException', when=other + ' and breaks_at(node, len(self.trace))', post={'recorded': 'self.trace == old(self.trace) + [node]', 'symbols-are-only-added': KEEPS}),
              Raises('ContinueException', when=other + ' and not breaks_at(node, len(self.trace)) and continues_at(node, len(self.trace))',
                     post={'recorded': 'self.trace == old(self.trace) + [node]', 'symbols-are-only-added': KEEPS})]
M.contract('bridgepoint.interpret.SymbolTable.enter_block', [('self', SYM)], returns=NONE, trusted=True, reason='block depth abstraction',
           ensures={'deeper': 'self.blocks == old(self.blocks) + 1'}, modifies=['self.blocks'])
M.contract('bridgepoint.interpret.SymbolTable.leave_block', [('self', SYM)], returns=NONE, trusted=True, reason='block depth abstraction',
           requires={'inside-a-block': 'self.blocks > 0'}, ensures={'shallower': 'self.blocks == old(self.blocks) - 1'}, modifies=['self.blocks'])
for h, exc in (('accept_BreakNode', 'BreakException'), ('accept_ContinueNode', 'ContinueException'), ('accept_ControlNode', 'StopException')):
    M.contract('bridgepoint.interpret.ActionWalker.' + h, [('self', W), ('node', NODE)], returns=NONE,
               raises=[Raises(exc, when='True', post={'nothing-else-happens': 'unchanged()'})], modifies=[])
M.contract('bridgepoint.interpret.ActionWalker.accept_BlockNode', [('self', W), ('node', NODE)], returns=NONE, no_other_exception=False,
           requires={'node': 'node is not None and node.statement_list is not None and self.symtab is not None and self.symtab.blocks >= 0'},
           ensures={'own-block-entered-and-left': 'self.symtab.blocks == old(self.symtab.blocks)',
                    'executes-its-statement-list': 'self.trace == old(self.trace) + [node.statement_list]'},
           modifies=['self.trace', 'self.symtab.blocks', 'Acc.fgetv', 'Acc.truth'])
M.spec('''
def executed(trace, before, kids, k):
    return (len(trace) == len(before) + k and seq_take(trace, len(before)) == before
            and all(trace[len(before) + j] is kids[j] for j in range(0, k)))
''')
M.contract('bridgepoint.interpret.ActionWalker.accept_StatementListNode', [('self', W), ('node', NODE)], returns=NONE, no_other_exception=False,
           requires={'node': 'node is not None and all(c is not None for c in node.children)'},
           ensures={'every-statement-once-in-source-order': 'executed(self.trace, old(self.trace), node.children, len(node.children))'},
           modifies=['self.trace', 'Acc.fgetv', 'Acc.truth'],
           loops={0: Loop(inv={'walks-the-children': '_seq == node.children', 'in-order-so-far': 'executed(self.trace, old(self.trace), node.children, _i)'})})
M.spec('''
def rounds(trace, base, upto, e, blk):
    return all(implies((p - base) % 2 == 0, trace[p] is e and bool(evalv(e, p)))
               and implies((p - base) % 2 == 1, trace[p] is blk and not breaks_at(blk, p)) for p in range(base, upto))
''')
M.contract('bridgepoint.interpret.ActionWalker.accept_WhileNode', [('self', W), ('node', NODE)], returns=NONE, no_other_exception=False,
           lets={'n': 'len(self.trace)'},
           requires={'node': 'node is not None and node.expression is not None and node.block is not None and node.expression is not node.block'},
           ensures={'alternates-true-condition-and-body-until-a-false-condition-or-a-break':
                    'len(self.trace) > n and seq_take(self.trace, n) == old(self.trace) and rounds(self.trace, n, len(self.trace) - 1, node.expression, node.block) and '
                    '(((len(self.trace) - 1 - n) % 2 == 0 and self.trace[len(self.trace) - 1] is node.expression and not bool(evalv(node.expression, len(self.trace) - 1))) or '
                    '((len(self.trace) - 1 - n) % 2 == 1 and self.trace[len(self.trace) - 1] is node.block and breaks_at(node.block, len(self.trace) - 1)))'},
           modifies=['self.trace', 'Acc.fgetv', 'Acc.truth'],
           loops={0: Loop(inv={'history-kept': 'len(self.trace) >= n and seq_take(self.trace, n) == old(self.trace)',
                               'whole-rounds-so-far': '(len(self.trace) - n) % 2 == 0 and rounds(self.trace, n, len(self.trace), node.expression, node.block)'})})

# every handler that evaluates children may, through them, install symbols; it re-establishes "only added" for its own node
for _h in ('accept_ReturnNode', 'accept_BodyNode', 'accept_BlockNode', 'accept_StatementListNode', 'accept_WhileNode'):
    _c = M.contracts['bridgepoint.interpret.ActionWalker.' + _h]
    _c.modifies = [m for m in _c.modifies if m != 'self.symtab.installed'] + ['SymbolTable.installed']
    _c.ensures.setdefault('symbols-are-only-added', KEEPS)
    for _r in _c.raises:
        if 'unchanged' not in _r.post:
            _r.post.setdefault('symbols-are-only-added', KEEPS)
    for _l in _c.loops.values():
        _l.inv['symbols-are-only-added'] = KEEPS
