"""C04 / C08 — the expression kernel and the select/if handlers of the OAL interpreter (bridgepoint/interpret.py).

Structural induction: evaluating a child, `self.accept(child)`, is an abstract effectful call.  Its assumed contract appends the
child to the ghost trace of accepted nodes and returns an object whose getter value is evalv(child, position in the trace) —
an uninterpreted value, so each handler is proved to implement the language's equation for its node GIVEN the children, and to
evaluate exactly the children the rule names, in order (event trace).  Keyword-bearing fields (operator, cardinality, boolean
literal text) enter only through lower()/upper(): results are functions of the case-folded text (C08)."""
from pyvc.spec import Module, Raises, Loop
from pyvc.sorts import INT, BOOL, STR, VAL, REAL, NONE, RefT, SeqT, SetT, MapT, TupT
from .base import INST

M = Module('contracts.c04', prop='C04')
M.use('contracts.base')

W = RefT('ActionWalker')
NODE = RefT('Node')
ACC = RefT('Acc')          # what accept() returns: an object with a getter value and a truth value
M.fields({
    'ActionWalker.trace': SeqT(NODE), 'ActionWalker.domain': RefT('Domain'), 'ActionWalker.symtab': RefT('SymbolTable'),
    'Acc.fgetv': VAL, 'Acc.truth': BOOL,
    'BinaryOperationNode.operator': STR, 'BinaryOperationNode.left': NODE, 'BinaryOperationNode.right': NODE,
    'UnaryOperationNode.operator': STR, 'UnaryOperationNode.operand': NODE,
    'BooleanNode.value': STR, 'IntegerNode.value': STR, 'StringNode.value': STR,
    'IfNode.expression': NODE, 'IfNode.block': NODE, 'IfNode.elif_list': NODE, 'IfNode.else_clause': NODE,
    'ElIfNode.expression': NODE, 'ElIfNode.block': NODE, 'ElseNode.block': NODE,
    'ElIfListNode.children': SeqT(NODE),
    'SelectFromNode.cardinality': STR, 'SelectFromNode.variable_name': STR, 'SelectFromNode.key_letter': STR,
    'SelectFromWhereNode.cardinality': STR, 'SelectRelatedNode.cardinality': STR, 'SelectRelatedWhereNode.cardinality': STR,
    'SymbolTable.installed': SeqT(TupT(STR, VAL)),
})
for k in ('BinaryOperationNode', 'UnaryOperationNode', 'BooleanNode', 'IntegerNode', 'StringNode', 'IfNode', 'ElIfNode', 'ElseNode',
          'ElIfListNode', 'SelectFromNode', 'SelectFromWhereNode', 'SelectRelatedNode', 'SelectRelatedWhereNode'):
    M.klass(k, bases=['Node'])
M.klass('Acc', truth='self.truth')
M.uninterpreted('evalv', [NODE, INT], VAL)
M.uninterpreted('truthv', [NODE, INT], BOOL)
M.uninterpreted('sel_many', [RefT('Domain'), STR], VAL)
M.uninterpreted('sel_any', [RefT('Domain'), STR], VAL)
M.uninterpreted('card_of', [VAL], INT)

WHY = 'structural induction: the evaluation of a child node is abstract (uninterpreted value, recorded in the ghost trace)'
M.contract('bridgepoint.interpret.ActionWalker.accept', [('self', W), ('node', NODE)], returns=ACC, trusted=True, reason=WHY,
           ensures={'recorded': 'self.trace == old(self.trace) + [node]',
                    'value': 'result is not None and same(result.fgetv, evalv(node, len(old(self.trace)))) and result.truth == truthv(node, len(old(self.trace)))'},
           modifies=['self.trace', 'Acc.fgetv', 'Acc.truth'], ghost={'allocates': True})
M.contract('builtins.Acc.fget', [('self', ACC)], returns=VAL, trusted=True, reason='getter of the returned property object',
           ensures={'value': 'same(result, self.fgetv)'}, modifies=[])
M.contract('xtuml.meta.cardinality', [('instance_or_set', VAL)], returns=INT, trusted=True,
           reason='xtuml.cardinality: verified below as xtuml.meta.cardinality on its three input shapes',
           ensures={'value': 'result == card_of(instance_or_set)'}, modifies=[])
M.contract('bridgepoint.ooaofooa.Domain.select_many', [('self', RefT('Domain')), ('kind', STR), ('*args', None)], returns=VAL, trusted=True,
           reason='C09', ensures={'value': 'implies(len(args) == 0, same(result, sel_many(self, kind)))'}, modifies=[])
M.contract('bridgepoint.ooaofooa.Domain.select_any', [('self', RefT('Domain')), ('kind', STR), ('*args', None)], returns=VAL, trusted=True,
           reason='C09', ensures={'value': 'implies(len(args) == 0, same(result, sel_any(self, kind)))'}, modifies=[])
M.contract('bridgepoint.interpret.SymbolTable.install_symbol', [('self', RefT('SymbolTable')), ('name', STR), ('handle', VAL)], returns=NONE,
           trusted=True, reason='C15 (scoping); here only the event is recorded',
           ensures={'recorded': 'self.installed == old(self.installed) + [(name, handle)]'}, modifies=['self.installed'])

# ---- operators: meaning taken from the property (arithmetic, comparison, boolean)
M.spec('''
def arith_or_compare(op):
    return op == '+' or op == '-' or op == '*' or op == '<' or op == '<=' or op == '>' or op == '>=' or op == '==' or op == '!='

def binop_value(op, l, r):
    return (l + r if op == '+' else l - r if op == '-' else l * r if op == '*'
            else (l < r) if op == '<' else (l <= r) if op == '<=' else (l > r) if op == '>' else (l >= r) if op == '>='
            else (l == r) if op == '==' else (l != r) if op == '!=' else (l and r) if op == 'and' else (l or r))
''')
BIN = RefT('BinaryOperationNode')
M.contract('bridgepoint.interpret.ActionWalker.accept_BinaryOperationNode', [('self', W), ('node', BIN)], returns=ACC,
           lets={'n': 'len(self.trace)', 'op': 'lower(node.operator)'},
           requires={'node': 'node is not None',
                     'operator-of-the-language': "arith_or_compare(op) or op == 'and' or op == 'or'",
                     'typed-operands': 'implies(arith_or_compare(op), is_int(evalv(node.left, n)) and is_int(evalv(node.right, n + 1))) and '
                                       "implies(op == 'and' or op == 'or', is_bool(evalv(node.left, n)) and is_bool(evalv(node.right, n + 1)))"},
           ensures={'evaluates-left-then-right-once': 'self.trace == old(self.trace) + [node.left, node.right]',
                    'computes-the-operator-of-the-language': 'result is not None and result.fgetv == binop_value(op, evalv(node.left, n), evalv(node.right, n + 1))'},
           modifies=['self.trace', 'Acc.fgetv', 'Acc.truth'])

UN = RefT('UnaryOperationNode')
M.spec('''
def unop_value(op, v):
    return (-v if op == '-' else v if op == '+' else (not v) if op == 'not' else card_of(v) if op == 'cardinality'
            else (not v) if op == 'empty' else (not (not v)))
''')
M.contract('bridgepoint.interpret.ActionWalker.accept_UnaryOperationNode', [('self', W), ('node', UN)], returns=ACC,
           lets={'n': 'len(self.trace)', 'op': 'lower(node.operator)'},
           requires={'node': 'node is not None',
                     'operator-of-the-language': "op == '-' or op == '+' or op == 'not' or op == 'cardinality' or op == 'empty' or op == 'not_empty'",
                     'typed-operand': "implies(op == '-' or op == '+', is_int(evalv(node.operand, n))) and implies(op == 'not', is_bool(evalv(node.operand, n)))"},
           ensures={'evaluates-the-operand-once': 'self.trace == old(self.trace) + [node.operand]',
                    'computes-the-operator-of-the-language': 'result is not None and result.fgetv == unop_value(op, evalv(node.operand, n))'},
           modifies=['self.trace', 'Acc.fgetv', 'Acc.truth'])

M.contract('bridgepoint.interpret.ActionWalker.accept_BooleanNode', [('self', W), ('node', RefT('BooleanNode'))], returns=ACC,
           requires={'node': 'node is not None'},
           ensures={'true-in-any-letter-case': "result is not None and result.fgetv == (upper(node.value) == 'TRUE')", 'no-child-evaluated': 'self.trace == old(self.trace)'},
           modifies=['Acc.fgetv', 'Acc.truth'])
M.contract('bridgepoint.interpret.ActionWalker.accept_IntegerNode', [('self', W), ('node', RefT('IntegerNode'))], returns=ACC,
           requires={'node': 'node is not None', 'digits': 'int_literal(node.value)'},
           ensures={'value-of-the-literal': 'result is not None and result.fgetv == int(node.value)', 'no-child-evaluated': 'self.trace == old(self.trace)'},
           modifies=['Acc.fgetv', 'Acc.truth'])
M.contract('bridgepoint.interpret.ActionWalker.accept_StringNode', [('self', W), ('node', RefT('StringNode'))], returns=ACC,
           requires={'node': 'node is not None', 'quoted': 'len(node.value) >= 2'},
           ensures={'text-between-the-quotes': 'result is not None and is_str(result.fgetv) and len(as_str(result.fgetv)) == len(node.value) - 2 and '
                                               'all(as_str(result.fgetv)[i] == node.value[i + 1] for i in range(0, len(node.value) - 2))',
                    'no-child-evaluated': 'self.trace == old(self.trace)'},
           modifies=['Acc.fgetv', 'Acc.truth'])

# ---- cardinality of a handle (C04: cardinality / empty / not_empty)
M.contract('xtuml.meta.cardinality@none', [('instance_or_set', NONE)], returns=INT, ensures={'none-is-zero': 'result == 0'}, modifies=[])
M.contract('xtuml.meta.cardinality@instance', [('instance_or_set', INST)], returns=INT,
           ensures={'instance-is-one-none-is-zero': 'result == (0 if instance_or_set is None else 1)'}, modifies=[])
M.contract('xtuml.meta.cardinality@set', [('instance_or_set', RefT('QuerySet'))], returns=INT,
           requires={'set': 'instance_or_set is not None'},
           ensures={'number-of-elements': 'result == len(instance_or_set.view)'}, modifies=[])

# ---- if / elif / else: first true guard wins, nothing else is evaluated
IFN = RefT('IfNode')
M.contract('bridgepoint.interpret.ActionWalker.accept_IfNode', [('self', W), ('node', IFN)], returns=NONE,
           lets={'n': 'len(self.trace)'},
           requires={'node': 'node is not None'},
           ensures={'first-true-guard-wins':
                    'self.trace == old(self.trace) + [node.expression] + '
                    '([node.block] if bool(evalv(node.expression, n)) else '
                    '([node.elif_list] if truthv(node.elif_list, n + 1) else [node.elif_list, node.else_clause]))'},
           modifies=['self.trace', 'Acc.fgetv', 'Acc.truth'])
M.contract('bridgepoint.interpret.ActionWalker.accept_ElIfNode', [('self', W), ('node', RefT('ElIfNode'))], returns=VAL,
           lets={'n': 'len(self.trace)'},
           requires={'node': 'node is not None'},
           ensures={'block-runs-iff-guard-holds':
                    'self.trace == old(self.trace) + ([node.expression, node.block] if bool(evalv(node.expression, n)) else [node.expression])',
                    'reports-whether-it-ran': 'bool(result) == bool(evalv(node.expression, n))'},
           modifies=['self.trace', 'Acc.fgetv', 'Acc.truth'])
M.contract('bridgepoint.interpret.ActionWalker.accept_ElseNode', [('self', W), ('node', RefT('ElseNode'))], returns=NONE,
           requires={'node': 'node is not None'},
           ensures={'runs-the-block': 'self.trace == old(self.trace) + [node.block]'},
           modifies=['self.trace', 'Acc.fgetv', 'Acc.truth'])
ELL = RefT('ElIfListNode')
M.contract('bridgepoint.interpret.ActionWalker.accept_ElIfListNode', [('self', W), ('node', ELL)], returns=VAL,
           lets={'n': 'len(self.trace)'},
           requires={'node': 'node is not None'},
           ensures={'stops-at-the-first-clause-that-ran':
                    'any(self.trace == old(self.trace) + seq_take(node.children, k + 1) and truthv(node.children[k], n + k) '
                    'and all(not truthv(node.children[j], n + j) for j in range(0, k)) and bool(result) for k in range(0, len(node.children))) '
                    'or (self.trace == old(self.trace) + node.children and all(not truthv(node.children[j], n + j) for j in range(0, len(node.children))) and not bool(result))'},
           modifies=['self.trace', 'Acc.fgetv', 'Acc.truth'],
           loops={0: Loop(inv={'earlier-clauses-did-not-run': 'self.trace == old(self.trace) + seq_take(node.children, _i) and all(not truthv(node.children[j], n + j) for j in range(0, _i))',
                               'iterates': '_seq == node.children'})})

# ---- select from instances: `many` in any letter case selects the set, anything else one instance
for _cls in ('SelectFromNode', 'SelectFromWhereNode', 'SelectRelatedNode', 'SelectRelatedWhereNode'):
    M.contract('bridgepoint.oal.%s.many' % _cls, [('self', RefT(_cls))], returns=BOOL, kind='property',
               ensures={'many-in-any-letter-case': "result == (lower(self.cardinality) == 'many')"}, modifies=[])
SFN = RefT('SelectFromNode')
M.contract('bridgepoint.interpret.ActionWalker.accept_SelectFromNode', [('self', W), ('node', SFN)], returns=NONE,
           requires={'node': 'node is not None and self.domain is not None and self.symtab is not None'},
           ensures={'installs-set-or-instance-by-cardinality':
                    'len(self.symtab.installed) == len(old(self.symtab.installed)) + 1 and '
                    'self.symtab.installed[len(old(self.symtab.installed))][0] == node.variable_name and '
                    'same(self.symtab.installed[len(old(self.symtab.installed))][1], '
                    "(sel_many(self.domain, node.key_letter) if lower(node.cardinality) == 'many' else sel_any(self.domain, node.key_letter)))",
                    'no-child-evaluated': 'self.trace == old(self.trace)'},
           modifies=['self.symtab.installed'])

# ---- statements that act on the population: the model operation performed is recorded as a ghost event of the walker
M.fields({'Node.key_letter': STR, 'Node.variable_name': STR,
          'Node.from_variable_name': STR, 'Node.to_variable_name': STR, 'Node.using_variable_name': STR, 'Node.rel_id': VAL, 'Node.phrase': STR,
          'Node.expression': NODE, 'Node.variable_access': NODE, 'Acc.assigned': SeqT(VAL)})
M.uninterpreted('lookup', [RefT('SymbolTable'), STR], VAL)
M.uninterpreted('str_replace_all', [STR, STR, STR], STR)
EV = "the model operation is abstract here (contracts.c02 / c19 own it): it is recorded with its arguments"
M.contract('bridgepoint.ooaofooa.Domain.new', [('self', RefT('Domain')), ('kind', STR)], returns=INST, trusted=True, reason=EV,
           ensures={'a-new-instance': 'result is not None and fresh(result)'}, modifies=[])
M.contract('bridgepoint.interpret.SymbolTable.find_symbol', [('self', RefT('SymbolTable')), ('name', STR)], returns=VAL, trusted=True,
           reason='C15 (scoping): the value a name denotes at this point', ensures={'value': 'same(result, lookup(self, name))'}, modifies=[])
for op in ('relate', 'unrelate'):
    M.contract('xtuml.meta.' + op, [('a', VAL), ('b', VAL), ('rel_id', VAL), ('phrase', STR, "''")], returns=BOOL, trusted=True, reason=EV,
               statics={}, ensures={'recorded': 'world().events == old(world().events) + [("%s", a, b, rel_id, phrase)]' % op},
               modifies=['world().events'])
M.contract('xtuml.meta.delete', [('instance', VAL)], returns=NONE, trusted=True, reason=EV,
           ensures={'recorded': 'world().deleted == old(world().deleted) + [instance]'}, modifies=['world().deleted'])
M.fields({'World.events': SeqT(TupT(STR, VAL, VAL, VAL, STR)), 'World.deleted': SeqT(VAL)})
M.contract('builtins.Acc.fset', [('self', ACC), ('value', VAL)], returns=NONE, trusted=True, reason='setter of the returned property object',
           ensures={'recorded': 'self.assigned == old(self.assigned) + [value]'}, modifies=['self.assigned'])
SREQ = {'walker': 'node is not None and self.symtab is not None and self.domain is not None'}
M.spec('''
def unquoted(p):
    return str_replace_all(p, "'", '')
''')
M.contract('bridgepoint.interpret.ActionWalker.accept_CreateObjectNode', [('self', W), ('node', NODE)], returns=NONE, requires=SREQ,
           ensures={'a-new-instance-bound-to-the-variable':
                    'len(self.symtab.installed) == len(old(self.symtab.installed)) + 1 and self.symtab.installed[len(old(self.symtab.installed))][0] == node.variable_name '
                    'and is_ref(self.symtab.installed[len(old(self.symtab.installed))][1]) and fresh(as_ref(self.symtab.installed[len(old(self.symtab.installed))][1]))',
                    'nothing-else': 'self.trace == old(self.trace) and world().events == old(world().events)'},
           modifies=['self.symtab.installed'])
M.contract('bridgepoint.interpret.ActionWalker.accept_DeleteNode', [('self', W), ('node', NODE)], returns=NONE, requires=SREQ,
           ensures={'deletes-what-the-variable-denotes': 'world().deleted == old(world().deleted) + [lookup(self.symtab, node.variable_name)]',
                    'nothing-else': 'self.trace == old(self.trace) and self.symtab.installed == old(self.symtab.installed) and world().events == old(world().events)'},
           modifies=['world().deleted'])
for h, op in (('accept_RelateNode', 'relate'), ('accept_UnrelateNode', 'unrelate')):
    M.contract('bridgepoint.interpret.ActionWalker.' + h, [('self', W), ('node', NODE)], returns=NONE, requires=SREQ,
               ensures={'one-%s-of-the-two-variables-across-the-association' % op:
                        'world().events == old(world().events) + [("%s", lookup(self.symtab, node.from_variable_name), lookup(self.symtab, node.to_variable_name), '
                        'node.rel_id, unquoted(node.phrase))]' % op,
                        'nothing-else': 'self.trace == old(self.trace) and self.symtab.installed == old(self.symtab.installed)'},
               modifies=['world().events'])
for h, op in (('accept_RelateUsingNode', 'relate'), ('accept_UnrelateUsingNode', 'unrelate')):
    M.contract('bridgepoint.interpret.ActionWalker.' + h, [('self', W), ('node', NODE)], returns=NONE, requires=SREQ,
               ensures={'both-halves-through-the-link-instance':
                        'world().events == old(world().events) + [("%s", lookup(self.symtab, node.from_variable_name), lookup(self.symtab, node.using_variable_name), '
                        'node.rel_id, unquoted(node.phrase)), ("%s", lookup(self.symtab, node.using_variable_name), lookup(self.symtab, node.to_variable_name), '
                        'node.rel_id, unquoted(node.phrase))]' % (op, op),
                        'nothing-else': 'self.trace == old(self.trace) and self.symtab.installed == old(self.symtab.installed)'},
               modifies=['world().events'])
M.contract('bridgepoint.interpret.ActionWalker.accept_AssignmentNode', [('self', W), ('node', NODE)], returns=NONE,
           lets={'n': 'len(self.trace)'},
           requires={'walker': 'node is not None and node.expression is not None and node.variable_access is not None'},
           ensures={'right-side-first-then-the-target': 'self.trace == old(self.trace) + [node.expression, node.variable_access]',
                    'the-target-receives-the-value-of-the-right-side':
                    'any(r is not None and len(r.assigned) > 0 and same(r.assigned[len(r.assigned) - 1], evalv(node.expression, n)) for r in anyref("Acc"))'},
           modifies=['self.trace', 'Acc.fgetv', 'Acc.truth', 'Acc.assigned'])

# ---- what a child may do besides being recorded: install symbols, act on the population, assign through a setter.  The induction
# hypothesis does not freeze these (a block nested in an `if` creates, relates, assigns); every handler that evaluates children carries
# the same licence, so that none of them is "proved" to leave the model or the symbol table alone.
EFFECTS = ['SymbolTable.installed', 'World.events', 'World.deleted', 'Acc.assigned']
for _q, _c in M.contracts.items():
    if _q.endswith('ActionWalker.accept') or (not _c.trusted and 'self.trace' in _c.modifies):
        _c.modifies = list(_c.modifies) + [e for e in EFFECTS if e not in _c.modifies]
