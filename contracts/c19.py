"""C19 — New instances get typed defaults and fresh non-null identifiers: contracts on the id generators and default_value."""
from pyvc.spec import Module, Raises, Loop
from pyvc.sorts import PyTuple, PyDict, INT, BOOL, STR, VAL, NONE, RefT, SeqT, MapT, TupT

M = Module('contracts.c19', prop='C19')
M.use('contracts.base', 'contracts.c10')

M.fields({
    'IdGenerator._current': INT,
    'MetaClass.metamodel': RefT('MetaModel'),
    'MetaModel.id_generator': RefT('IdGenerator'),
})

GEN = RefT('IdGenerator')
IGEN = RefT('IntegerGenerator')

# ---- generic generator: next returns what peek showed and draws exactly one new value; peek never advances
M.contract('xtuml.tools.IdGenerator.readfunc', [('self', GEN)], returns=INT, trusted=True,
           reason='abstract hook (readfunc = None in the base class); subclasses are verified against their own contracts')
M.contract('xtuml.tools.IdGenerator.peek', [('self', GEN)], returns=INT,
           ensures={'shows-current': 'result == self._current'}, modifies=[])
M.contract('xtuml.tools.IdGenerator.next', [('self', GEN)], returns=INT,
           ensures={'returns-peeked': 'result == old(self._current)'}, modifies=['self._current'])
M.contract('xtuml.tools.IdGenerator.__next__', [('self', GEN)], returns=INT,
           ensures={'returns-peeked': 'result == old(self._current)'}, modifies=['self._current'])

# ---- integer generator: 1, 2, 3, ...
M.contract('xtuml.tools.IntegerGenerator.readfunc', [('self', IGEN)], returns=INT,
           ensures={'successor': 'result == self._current + 1'}, modifies=[])
M.contract('xtuml.tools.IdGenerator.__init__@IntegerGenerator', [('self', IGEN)], returns=NONE,
           requires={'fresh-object': "class_defaults(self, 'IntegerGenerator')"},
           ensures={'starts-at-one': 'self._current == 1'}, modifies=['self._current'])
M.contract('xtuml.tools.IdGenerator.next@IntegerGenerator', [('self', IGEN)], returns=INT,
           ensures={'returns-peeked': 'result == old(self._current)', 'advances-by-one': 'self._current == old(self._current) + 1'},
           modifies=['self._current'])
M.contract('xtuml.tools.IdGenerator.__next__@IntegerGenerator', [('self', IGEN)], returns=INT,
           ensures={'returns-peeked': 'result == old(self._current)', 'advances-by-one': 'self._current == old(self._current) + 1'},
           modifies=['self._current'])
M.contract('xtuml.tools.IdGenerator.peek@IntegerGenerator', [('self', IGEN)], returns=INT,
           ensures={'shows-current': 'result == self._current'}, modifies=[])

M.lemma('C19.lemma.integer_generator_counts_from_one', [],
        source='''
def lemma():
    g = IntegerGenerator()
    a = g.next()
    p = g.peek()
    q = g.peek()
    b = g.next()
    c = next(g)
    assert a == 1
    assert p == 2 and q == 2
    assert b == 2
    assert c == 3
''')
M.lemma('C19.lemma.integer_generator_inductive_step', [('g', IGEN), ('k', INT)],
        requires={'k-calls-so-far': 'g is not None and g._current == k + 1 and k >= 0'},
        source='''
def lemma(g, k):
    a = g.next()
    assert a == k + 1 and a != 0
    assert g._current == (k + 1) + 1
''')

# ---- typed defaults
MC = RefT('MetaClass')
M.spec('''
def known_type(t):
    return upper(t) == 'BOOLEAN' or upper(t) == 'INTEGER' or upper(t) == 'REAL' or upper(t) == 'STRING' or upper(t) == 'UNIQUE_ID'
''')
M.contract('xtuml.meta.MetaClass.default_value', [('self', MC), ('type_name', STR)], returns=VAL,
           requires={'self': 'self is not None', 'generator-present': 'self.metamodel is None or self.metamodel.id_generator is not None'},
           ensures={
               'boolean-false': "implies(upper(type_name) == 'BOOLEAN', is_bool(result) and result == False)",
               'integer-zero': "implies(upper(type_name) == 'INTEGER', is_int(result) and result == 0)",
               'real-zero': "implies(upper(type_name) == 'REAL', is_real(result) and result == 0.0)",
               'string-empty': "implies(upper(type_name) == 'STRING', is_str(result) and result == '')",
               'unique-id-from-generator': "implies(upper(type_name) == 'UNIQUE_ID' and self.metamodel is not None, "
                                           "is_int(result) and result == old(self.metamodel.id_generator._current))",
               'generator-untouched-otherwise': "implies(upper(type_name) != 'UNIQUE_ID', unchanged())",
           },
           raises=[Raises('MetaException', when='not known_type(type_name)')],
           modifies=['self.metamodel.id_generator._current'])

# ---- MetaClass.new without arguments: every plain attribute gets its typed default (composition of default_value and contracts.c10's __setattr__)
from .base import INST
M.fields({'type.metaclass': MC})
M.spec('''
def nonref(mc, j):
    return mc.attributes[j][0] not in mc.referential_attributes

def typed_default(v, ty):
    t = upper(ty)
    return ((t != 'BOOLEAN' or (is_bool(v) and v == False)) and (t != 'INTEGER' or (is_int(v) and v == 0)) and (t != 'REAL' or (is_real(v) and v == 0.0))
            and (t != 'STRING' or (is_str(v) and v == '')) and (t != 'UNIQUE_ID' or is_int(v)))

def distinct_names(mc):
    return all(all(implies(i != j, upper(mc.attributes[i][0]) != upper(mc.attributes[j][0])) for j in range(0, len(mc.attributes))) for i in range(0, len(mc.attributes)))

def defaults_set(mc, inst, k):
    return all(implies(nonref(mc, j), mc.attributes[j][0] in inst.__dict__ and typed_default(inst.__dict__[mc.attributes[j][0]], mc.attributes[j][1])) for j in range(0, k))
''')
M.contract('xtuml.meta.MetaClass.new@defaults', [('self', MC)], returns=INST, statics={'args': PyTuple(()), 'kwargs': PyDict({})},
           requires={'wf': 'self.clazz is not None and self.clazz.metaclass is self and self.metamodel is not None and self.metamodel.id_generator is not None',
                     'declared-names-distinct': 'distinct_names(self)',
                     'known-types': 'all(known_type(a[1]) for a in self.attributes)',
                     'plain-attributes-are-not-properties': 'all(all(implies(nonref(self, j), not has_property(x, self.attributes[j][0])) for j in range(0, len(self.attributes))) for x in anyref("Class"))'},
           ensures={'a-new-stored-instance': 'fresh(result) and self.storage == old(self.storage) + [result] and result.__metaclass__ is self',
                    'every-plain-attribute-has-its-typed-default-or-the-next-identifiers': 'defaults_set(self, result, len(self.attributes))',
},
           modifies=['self.storage', 'self.metamodel.id_generator._current'],
           loops={0: Loop(inv={'iterates': '_seq == self.attributes', 'set-so-far': 'defaults_set(self, inst, _i)',
                               'stored': 'self.storage == old(self.storage) + [inst] and inst.__metaclass__ is self and fresh(inst)',
                               'others-untouched': 'all(implies(x is not inst, same(x.__dict__, old(x.__dict__))) for x in anyref("Class"))'}, modifies=['Class.__dict__']),
                  },
           locals={'referential_attributes': MapT(STR, VAL)})

# ---- MetaClass.new with positional arguments only (class without referential attributes): after the defaults, the j-th positional
#      value is what the j-th declared attribute holds; attributes beyond the arguments keep their typed default
M.spec('''
def positional_set(mc, inst, args, k):
    return all(mc.attributes[j][0] in inst.__dict__ and same(inst.__dict__[mc.attributes[j][0]], args[j]) for j in range(0, k))

def rest_defaulted(mc, inst, k):
    return all(implies(k <= j, mc.attributes[j][0] in inst.__dict__ and typed_default(inst.__dict__[mc.attributes[j][0]], mc.attributes[j][1])) for j in range(0, len(mc.attributes)))

def min2(a, b):
    return a if a < b else b
''')
M.contract('xtuml.meta.MetaClass.new@positional', [('self', MC), ('*args', SeqT(VAL))], returns=INST, statics={'kwargs': PyDict({})},
           requires={'wf': 'self.clazz is not None and self.clazz.metaclass is self and self.metamodel is not None and self.metamodel.id_generator is not None',
                     'declared-names-distinct': 'distinct_names(self)',
                     'known-types': 'all(known_type(a[1]) for a in self.attributes)',
                     'no-referential-attributes': 'all(a[0] not in self.referential_attributes for a in self.attributes)',
                     'plain-attributes-are-not-properties': 'all(all(not has_property(x, self.attributes[j][0]) for j in range(0, len(self.attributes))) for x in anyref("Class"))'},
           ensures={'a-new-stored-instance': 'fresh(result) and self.storage == old(self.storage) + [result] and result.__metaclass__ is self',
                    'positional-values-in-attribute-order': 'positional_set(self, result, args, min2(len(args), len(self.attributes)))',
                    'remaining-attributes-keep-their-typed-default': 'rest_defaulted(self, result, min2(len(args), len(self.attributes)))'},
           modifies=['self.storage', 'self.metamodel.id_generator._current'],
           loops={0: Loop(inv={'iterates': '_seq == self.attributes', 'set-so-far': 'defaults_set(self, inst, _i)',
                               'stored': 'self.storage == old(self.storage) + [inst] and inst.__metaclass__ is self and fresh(inst)',
                               'others-untouched': 'all(implies(x is not inst, same(x.__dict__, old(x.__dict__))) for x in anyref("Class"))'}, modifies=['Class.__dict__']),
                  1: Loop(inv={'pairs': 'len(_seq) == min2(len(args), len(self.attributes)) and all(_seq[j][0] == self.attributes[j] and same(_seq[j][1], args[j]) for j in range(0, len(_seq)))',
                               'applied-so-far': 'positional_set(self, inst, args, _i)',
                               'rest-defaulted': 'rest_defaulted(self, inst, _i)',
                               'no-referential-value-collected': 'len(map_keys(referential_attributes)) == 0',
                               'stored': 'self.storage == old(self.storage) + [inst] and inst.__metaclass__ is self and fresh(inst)',
                               'others-untouched': 'all(implies(x is not inst, same(x.__dict__, old(x.__dict__))) for x in anyref("Class"))'}, modifies=['Class.__dict__'])},
           locals={'referential_attributes': MapT(STR, VAL)})

# ---- clone: every declared attribute of the copy holds the value read from the original under the same name (composition of the
#      attribute reads with new@positional; classes without referential attributes, original of the same class)
M.uninterpreted('attr_value', [INST, STR], VAL)
M.klass('Class', getattr='builtins.getattr@Class')
M.contract('builtins.getattr@Class', [('obj', INST), ('name', STR)], returns=VAL, trusted=True,
           reason='PY-6: attribute read of an instance under any spelling (pure); contracts.c10 proves Class.__getattr__ against the CPython lookup',
           ensures={'value': 'same(result, attr_value(obj, name))'}, modifies=[])
M.contract('xtuml.meta.get_metaclass', [('class_or_instance', INST)], returns=MC, trusted=True, reason='contracts.c02 (proved there)',
           requires={'instance': 'class_or_instance is not None'},
           ensures={'metaclass-of-instance': 'result is class_or_instance.__metaclass__'}, modifies=[])
M.contract('xtuml.meta.MetaClass.clone', [('self', MC), ('instance', INST)], returns=INST,
           requires={'wf': 'self.clazz is not None and self.clazz.metaclass is self and self.metamodel is not None and self.metamodel.id_generator is not None',
                     'an-instance-of-this-class': 'instance is not None and instance.__metaclass__ is self',
                     'declared-names-distinct': 'distinct_names(self)',
                     'known-types': 'all(known_type(a[1]) for a in self.attributes)',
                     'no-referential-attributes': 'all(a[0] not in self.referential_attributes for a in self.attributes)',
                     'plain-attributes-are-not-properties': 'all(all(not has_property(x, self.attributes[j][0]) for j in range(0, len(self.attributes))) for x in anyref("Class"))'},
           ensures={'a-new-instance-of-this-class': 'fresh(result) and result.__metaclass__ is self',
                    'stored-last-in-the-pool-the-others-keep-their-places': 'len(self.storage) == len(old(self.storage)) + 1 and self.storage[len(old(self.storage))] is result '
                    'and all(self.storage[j] is old(self.storage)[j] for j in range(0, len(old(self.storage))))',
                    'every-attribute-holds-the-value-of-the-original': 'all(self.attributes[j][0] in result.__dict__ and '
                    'same(result.__dict__[self.attributes[j][0]], attr_value(instance, self.attributes[j][0])) for j in range(0, len(self.attributes)))'},
           modifies=['self.storage', 'self.metamodel.id_generator._current', 'Class.__dict__', 'Class.__metaclass__'],
           loops={0: Loop(inv={'iterates': '_seq == self.attributes',
                               'values-read-so-far': 'len(args) == _i and all(same(args[j], attr_value(instance, self.attributes[j][0])) for j in range(0, _i))',
                               'nothing-created-yet': 'unchanged()'})},
           locals={'args': SeqT(VAL)})
