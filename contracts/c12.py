"""C12 — a rejected text leaves the loader's accumulated content exactly as before; an accepted text appends its statements, in order.

ModelLoader.input is verified against an assumed contract of PLY's LRParser.parse (A-PLY): it returns the list of statements the
grammar actions built, or lets the ParsingException of t_error / p_error escape, and touches the loader only through the rule
functions.  That those rule functions leave the loader's state alone is what the tier-F frame obligations (finite/frames.py: every
p_* and t_* function of ModelLoader, syntactic effect analysis of the current source) establish; together: parse() does not modify
`statements`, so the only write is the `extend` after a successful parse."""
from pyvc.spec import Module, Raises, Loop
from pyvc.sorts import INT, BOOL, STR, VAL, NONE, RefT, SeqT, SetT, MapT, TupT

M = Module('contracts.c12', prop='C12')
LOADER, STMT, PARSER, LEXER = RefT('ModelLoader'), RefT('Stmt'), RefT('LRParser'), RefT('Lexer')
M.klass('ModelLoader', bases=[])
M.klass('Stmt', bases=[])
M.klass('LRParser', bases=[])
M.klass('Lexer', bases=[])
M.fields({'ModelLoader.statements': SeqT(STMT), 'ModelLoader.parser': PARSER, 'Lexer.filename': VAL})
M.uninterpreted('accepted', [STR], BOOL)                 # the text is a sentence of the SQL grammar and every token is legal
M.uninterpreted('parsed', [STR], SeqT(STMT))             # the statements the grammar actions build for it, in text order
PLY = ('A-PLY: the LR driver tokenises with the t_ rules, reduces with the p_ rules, raises what t_error / p_error raise, and writes '
       'nothing to the loader except through those rule functions (whose frames are the tier-F obligations of finite/frames.py)')
M.contract('os.path.dirname', [('p', STR)], returns=STR, trusted=True, reason='A-IO: opaque path computation', ensures={}, modifies=[])
M.contract('ply.lex.lex', [('debuglog', VAL, 'None'), ('errorlog', VAL, 'None'), ('optimize', INT, '0'), ('module', VAL, 'None'),
                           ('outputdir', VAL, 'None'), ('lextab', VAL, 'None')], returns=LEXER, trusted=True, reason=PLY,
           ensures={'a-new-lexer': 'result is not None and fresh(result)'}, modifies=[], ghost={'allocates': True})
M.contract('ply.yacc.LRParser.parse', [('self', PARSER), ('lexer', LEXER, 'None'), ('input', STR, "''"), ('tracking', INT, '0')],
           returns=SeqT(STMT), trusted=True, reason=PLY,
           ensures={'the-statements-of-the-text': 'accepted(input) and result == parsed(input)'},
           raises=[Raises('ParsingException', when='not accepted(input)')], modifies=[])
M.contract('xtuml.load.ModelLoader.input', [('self', LOADER), ('data', STR), ('name', STR, "'<string>'")], returns=NONE,
           requires={'a-loader': 'self.parser is not None'},
           ensures={'accepted-text-appends-its-statements-in-order': 'accepted(data) and self.statements == old(self.statements) + parsed(data)'},
           raises=[Raises('ParsingException', when='not accepted(data)',
                          post={'rejected-text-leaves-the-loader-exactly-as-before': "unchanged('ModelLoader.statements', 'ModelLoader.parser')"})],
           modifies=['self.statements'])
