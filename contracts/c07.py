"""C07 — the expression productions of the OAL grammar build the tree that mirrors the production: the operand written on the left
is the left child, the operator text is kept as written, a parenthesised expression is the expression itself.  (Which production is
reduced when is decided by the LALR table: finite/lalr.py.)"""
from pyvc.spec import Module, Raises, Loop
from pyvc.sorts import INT, BOOL, STR, VAL, NONE, RefT, SeqT, SetT, MapT, TupT

M = Module('contracts.c07', prop='C07')
PARSER, PROD = RefT('OALParser'), RefT('YaccProduction')
M.fields({'YaccProduction.slots': MapT(INT, VAL), 'BinaryOperationNode.left': VAL, 'BinaryOperationNode.operator': VAL, 'BinaryOperationNode.right': VAL,
          'UnaryOperationNode.operator': VAL, 'UnaryOperationNode.operand': VAL})
M.klass('YaccProduction', dictfield='slots')
M.klass('Node', bases=[])
M.klass('BinaryOperationNode', bases=['Node'])
M.klass('UnaryOperationNode', bases=['Node'])
M.klass('OALParser', bases=[])
REQ = {'a-production-with-its-symbols': 'p is not None and 1 in p.slots and 2 in p.slots and 3 in p.slots'}
for rule in ('p_arithmetic_expression', 'p_boolean_expression'):
    M.contract('bridgepoint.oal.OALParser.' + rule, [('self', PARSER), ('p', PROD)], returns=NONE, requires=REQ,
               ensures={'left-operand-left-operator-as-written-right-operand-right':
                        '0 in p.slots and is_ref(p.slots[0]) and fresh(as_ref(p.slots[0], "BinaryOperationNode")) '
                        'and same(as_ref(p.slots[0], "BinaryOperationNode").left, p.slots[1]) '
                        'and same(as_ref(p.slots[0], "BinaryOperationNode").operator, p.slots[2]) '
                        'and same(as_ref(p.slots[0], "BinaryOperationNode").right, p.slots[3])',
                        'symbols-untouched': 'same(p.slots[1], old(p.slots[1])) and same(p.slots[2], old(p.slots[2])) and same(p.slots[3], old(p.slots[3]))'},
               modifies=['p.slots'])
M.contract('bridgepoint.oal.OALParser.p_unary_expression', [('self', PARSER), ('p', PROD)], returns=NONE,
           requires={'a-production-with-its-symbols': 'p is not None and 1 in p.slots and 2 in p.slots'},
           ensures={'operator-as-written-applied-to-the-operand':
                    '0 in p.slots and is_ref(p.slots[0]) and fresh(as_ref(p.slots[0], "UnaryOperationNode")) '
                    'and same(as_ref(p.slots[0], "UnaryOperationNode").operator, p.slots[1]) and same(as_ref(p.slots[0], "UnaryOperationNode").operand, p.slots[2])'},
           modifies=['p.slots'])
M.contract('bridgepoint.oal.OALParser.p_grouped_expression', [('self', PARSER), ('p', PROD)], returns=NONE, requires=REQ,
           ensures={'parentheses-add-no-node': '0 in p.slots and same(p.slots[0], p.slots[2])'}, modifies=['p.slots'])
