"""C06 — prebuilt instances (bridgepoint/prebuild.py): every statement and every value the translator creates has exactly one
subtype, one block, one data type; positions are copied from the source text; consecutive statements and navigation steps are
chained pairwise with nothing at the ends; literal, comparison, boolean and cardinality values get the type OAL gives them.

Shape of the argument (structural induction over the syntax tree, one handler = one case):
  * self.new(kind, **attrs) and relate(a, b, rel) are abstract.  Their assumed contracts maintain ghost degree counters on the
    participants (n603 = number of R603 links of a statement, n801/n820/n826 of a value, n823/n814/n835 of a variable ...), the
    ghost partner fields typ / in_blk / prev / next, and — through the assumed contract of Class.__setattr__ — the ghost
    position fields.  A created instance starts with all counters 0.
  * accept(child) is the induction hypothesis: it returns the instance built for the child, which is fresh and complete
    (counters 1), it leaves the counters of every instance that existed before untouched, and it records the result in the ghost
    field child.built without touching .built outside the child's subtree (the tree is a tree: A-TREE).
  * every handler under contract is proved to establish the same for its own node, on every path through it.
What stays outside: the dispatch of accept() to the handler (A-DISPATCH), the meaning of relate/new on the real metamodel
(contracts.c02 / c19), the direction of a phrase (K4, K5 are decided by the bounded tier on real models), and the handlers that
are not listed here."""
from pyvc.spec import Module, Raises, Loop
from pyvc.sorts import INT, BOOL, STR, VAL, REAL, NONE, RefT, SeqT, SetT, MapT, TupT, PyDict
from .base import INST

M = Module('contracts.c06', prop='C06')
M.use('contracts.base')
PB = RefT('ActionPrebuilder')
NODE = RefT('Node')
POS = RefT('Position')
SYM = RefT('SymbolTable')

# (relationship number, kind of the counted participant, ghost counter)
COUNTERS = [(603, 'ACT_SMT', 'n603'), (602, 'ACT_SMT', 'n602'), (801, 'V_VAL', 'n801'), (820, 'V_VAL', 'n820'), (826, 'V_VAL', 'n826'),
            (823, 'V_VAR', 'n823'), (814, 'V_VAR', 'n814'), (835, 'V_VAR', 'n835'), (848, 'V_VAR', 'n848')]
PARTNERS = {'typ': [(820, 'V_VAL'), (848, 'V_VAR')], 'in_blk': [(602, 'ACT_SMT'), (826, 'V_VAL'), (823, 'V_VAR')]}
# single navigation steps the handlers take over links they have just made: Class.nav_<KL>_<rel> of x is the partner of kind KL
NAVS = {'nav_V_VAR_R814': (814, 'V_VAR'), 'nav_V_VAL_R801': (801, 'V_VAL'), 'nav_ACT_SMT_R603': (603, 'ACT_SMT'),
        'nav_S_DT_R820': (820, 'S_DT'), 'nav_S_DT_R848': (848, 'S_DT')}
CHAIN = ['nprev', 'nnext']
GHOST_INT = [c[2] for c in COUNTERS] + CHAIN
GHOST_REF = list(PARTNERS) + ['prev', 'next'] + list(NAVS)
GHOST_POS = ['g_line', 'g_start', 'g_end']

fields = {'Node.position': POS, 'Position.start_line': INT, 'Position.start_column': INT, 'Position.end_column': INT, 'Position.end_line': INT,
          'Node.character_stream': STR, 'Node.built': VAL, 'Node.children': SeqT(NODE),
          'ActionPrebuilder.symtab': SYM, 'ActionPrebuilder.act_act': INST, 'SymbolTable.scopes': SeqT(INST), 'SymbolTable.version': INT}
for f in GHOST_INT:
    fields['Class.' + f] = INT
for f in GHOST_REF:
    fields['Class.' + f] = INST
for f in GHOST_POS:
    fields['Class.' + f] = VAL
M.fields(fields)
M.klass('Class', instance_attrs=True)
M.klass('SymbolTable', bases=[])
M.klass('ActionPrebuilder', bases=[])
M.uninterpreted('kind_of', [INST], STR)
M.uninterpreted('innermost', [SeqT(INST), STR], INST)
M.uninterpreted('lookup', [SYM, INT, VAL], INST)
M.uninterpreted('type_named', [STR], INST)
M.uninterpreted('class_named', [VAL], INST)
M.uninterpreted('assoc_numbered', [VAL], INST)
M.uninterpreted('in_subtree', [NODE, NODE], BOOL)
M.uninterpreted('is_statement', [NODE], BOOL)
M.uninterpreted('is_value', [NODE], BOOL)
M.uninterpreted('is_block', [NODE], BOOL)
M.uninterpreted('is_step', [NODE], BOOL)
M.axiom('subtree-reflexive', 'all(in_subtree(n, n) for n in anyref("Node"))')
M.assume('A-DISPATCH: Walker.accept(node) calls accept_<class of node>(node) and returns its result (xtuml/tools.py); the handler contracts '
         'of this module are the cases of the induction, the assumed contract of accept() is the induction hypothesis')
M.assume('A-TREE: the syntax tree is a tree (children of one node have disjoint subtrees); produced by the PLY parser actions')
M.assume('A-NAV-KIND: a navigation one(x).A[r1].B[r2]() yields None or an instance of the class named by its last step (contracts.c09 / bounded c09)')
M.assume('A-RESOLVED: class key letters, association numbers and core type names used by the action exist in the model (the property '
         'quantifies over name-resolved programs)')

ALL_GHOST = GHOST_INT + GHOST_REF + GHOST_POS
FRESH_ONLY = ['fresh:Class.' + f for f in ALL_GHOST]
# what a nested statement may do to instances that existed before it: give a variable its type and migrate its subtype (assignment)
RETYPED = ['n814', 'n848', 'typ', 'nav_S_DT_R848']
NESTED = ['fresh:Class.' + f for f in ALL_GHOST if f not in RETYPED] + ['Class.' + f for f in RETYPED] + ['Node.built']
ONLY_VARIABLES_RETYPED = ('all(implies(old(allocated(x)) and kind_of(x) != "V_VAR", ' + ' and '.join(
    ('same(x.%s, old(x.%s))' % (f, f)) for f in RETYPED) + ') for x in anyref("Class"))')


def both(fmt):
    return ' and '.join(fmt.format(x=x, y=y) for x, y in (('a', 'b'), ('b', 'a')))


rel_ens = {}
for rel, kind, f in COUNTERS:
    rel_ens['degree-%d' % rel] = both('{x}.%s == old({x}.%s) + (1 if rel_id == %d and kind_of({x}) == "%s" else 0)' % (f, f, rel, kind))
for f, cases in PARTNERS.items():
    cond = ' or '.join('(rel_id == %d and kind_of({x}) == "%s")' % c for c in cases)
    rel_ens['partner-' + f] = both('{x}.%s is ({y} if %s else old({x}.%s))' % (f, cond, f))
for f, (rel, kind) in NAVS.items():
    rel_ens['navigable-' + f] = both('{x}.%s is ({y} if rel_id == %d and kind_of({y}) == "%s" else old({x}.%s))' % (f, rel, kind, f))
M.contract('bridgepoint.prebuild.relate', [('a', INST), ('b', INST), ('rel_id', INT), ('phrase', STR, "''")], returns=NONE, trusted=True,
           reason='degree abstraction of xtuml.relate, assumed to succeed on two instances (contracts.c02 states when it does); the '
                  'wrapper asserts the success',
           requires={'both-ends-exist': 'a is not None and b is not None and a is not b'}, ensures=rel_ens,
           modifies=['%s.%s' % (x, f) for x in 'ab' for f in [c[2] for c in COUNTERS] + list(PARTNERS) + list(NAVS)])
M.contract('xtuml.meta.relate', [('a', INST), ('b', INST), ('rel_id', INT), ('phrase', STR, "''")], returns=BOOL, trusted=True,
           reason='chain abstraction of xtuml.relate (reflexive associations R661, R604, R816): relating nothing does nothing',
           requires={'distinct': 'a is None or a is not b'},
           ensures={'nothing-to-relate': 'implies(a is None or b is None, not result and unchanged())',
                    'other-associations': 'implies(a is not None and b is not None and rel_id != 661 and rel_id != 604 and rel_id != 816, result and unchanged())',
                    'chained': 'implies(a is not None and b is not None and (rel_id == 661 or rel_id == 604 or rel_id == 816), result and b.prev is a and a.next is b '
                               'and b.nprev == old(b.nprev) + 1 and a.nnext == old(a.nnext) + 1 and a.nprev == old(a.nprev) and b.nnext == old(b.nnext) '
                               'and a.prev is old(a.prev) and b.next is old(b.next))'},
           modifies=['a.next', 'a.nnext', 'b.prev', 'b.nprev', 'a.prev', 'a.nprev', 'b.next', 'b.nnext'])
M.contract('bridgepoint.prebuild.ActionPrebuilder.new', [('self', PB), ('kind', STR), ('**attrs', None)], returns=INST, trusted=True,
           reason='abstraction of MetaModel.new (C19): a fresh, unrelated instance of the kind; keyword arguments are attribute stores',
           ensures={'fresh-and-unrelated': 'result is not None and fresh(result) and kind_of(result) == kind and '
                    + ' and '.join('result.%s == 0' % f for f in GHOST_INT) + ' and ' + ' and '.join('result.%s is None' % f for f in GHOST_REF)},
           modifies=[], ghost={'allocates': True, 'kwargs_set_attrs': 'attrs'})
M.contract('xtuml.meta.Class.__setattr__', [('self', INST), ('name', STR), ('value', VAL)], returns=NONE, trusted=True,
           reason='attribute stores are case-insensitive (contracts.c10); only the position attributes are tracked',
           ensures={'line': 'same(self.g_line, value if upper(name) == "LINENUMBER" else old(self.g_line))',
                    'start': 'same(self.g_start, value if upper(name) == "STARTPOSITION" else old(self.g_start))',
                    'end': 'same(self.g_end, value if upper(name) == "ENDPOSITION" else old(self.g_end))'},
           modifies=['self.g_line', 'self.g_start', 'self.g_end'])
# ---- symbol table and model queries (abstract)
M.contract('bridgepoint.prebuild.SymbolTable.find_symbol', [('self', SYM), ('name', VAL, 'None'), ('kind', VAL, 'None')], returns=INST,
           trusted=True, reason='scoping is abstract: the innermost scope handle of a kind, or the variable a name denotes at this point',
           ensures={'innermost-of-kind': 'implies(name is None and is_str(kind), result is innermost(self.scopes, as_str(kind)))',
                    'by-name': 'implies(name is not None and kind is None, result is lookup(self, self.version, name) '
                               'and (result is None or (kind_of(result) == "V_VAR" and allocated(result))))'}, modifies=[])
M.contract('bridgepoint.prebuild.SymbolTable.install_symbol', [('self', SYM), ('name', VAL), ('handle', INST)], returns=NONE,
           trusted=True, reason='a new binding: later lookups may differ, names that resolved still resolve',
           ensures={'newer': 'self.version == old(self.version) + 1',
                    'resolved-names-stay-resolved': 'all(implies(lookup(self, old(self.version), n) is not None, lookup(self, self.version, n) is not None) for n in vals())'},
           modifies=['self.version'])
M.contract('bridgepoint.prebuild.SymbolTable.enter_scope', [('self', SYM), ('handle', INST, 'None')], returns=INST, trusted=True,
           reason='scope stack', ensures={'pushed': 'self.scopes == old(self.scopes) + [handle] and self.version == old(self.version) + 1 and result is handle',
                    'innermost-block': 'innermost(self.scopes, "ACT_BLK") is (handle if handle is not None and kind_of(handle) == "ACT_BLK" '
                                       'else innermost(old(self.scopes), "ACT_BLK"))'},
           modifies=['self.scopes', 'self.version'])
M.contract('bridgepoint.prebuild.SymbolTable.leave_scope', [('self', SYM)], returns=INST, trusted=True, reason='scope stack',
           requires={'inside': 'len(self.scopes) > 0'},
           ensures={'popped': 'old(self.scopes) == self.scopes + [result] and self.version == old(self.version) + 1'},
           modifies=['self.scopes', 'self.version'])
Q = 'model query (select_any over the loaded metamodel): no effect; the named element exists (A-RESOLVED)'
M.contract('bridgepoint.prebuild.ActionPrebuilder.s_dt', [('self', PB), ('name', STR)], returns=INST, trusted=True, reason=Q,
           ensures={'the-type': 'result is type_named(name) and result is not None and kind_of(result) == "S_DT" and allocated(result)'}, modifies=[])
M.contract('bridgepoint.prebuild.ActionPrebuilder.o_obj', [('self', PB), ('key_letter', VAL)], returns=INST, trusted=True, reason=Q,
           ensures={'the-class': 'result is class_named(key_letter) and result is not None and kind_of(result) == "O_OBJ" and allocated(result)'}, modifies=[])
M.contract('bridgepoint.prebuild.ActionPrebuilder.r_rel', [('self', PB), ('rel_id', VAL)], returns=INST, trusted=True, reason=Q,
           ensures={'the-association': 'result is assoc_numbered(rel_id) and result is not None and kind_of(result) == "R_REL" and allocated(result)'}, modifies=[])

M.spec('''
def blk(self):
    return innermost(self.symtab.scopes, 'ACT_BLK')

def positions_copied(inst, node):
    return (same(inst.g_line, node.position.start_line) and same(inst.g_start, node.position.start_column)
            and same(inst.g_end, node.position.end_column))

def complete_statement(s, b):
    return s is not None and kind_of(s) == 'ACT_SMT' and s.n603 == 1 and s.n602 == 1 and s.in_blk is b and s.nprev == 0 and s.nnext == 0

def complete_value(v, b):
    return v is not None and kind_of(v) == 'V_VAL' and v.n801 == 1 and v.n820 == 1 and v.n826 == 1 and v.in_blk is b and v.typ is not None and kind_of(v.typ) == 'S_DT' and v.nav_S_DT_R820 is v.typ

def complete_variable(v, b):
    return v is not None and kind_of(v) == 'V_VAR' and v.n823 == 1 and v.n835 == 1 and v.n814 == 1 and v.in_blk is b
''')

# ---- the induction hypothesis
M.contract('bridgepoint.prebuild.ActionPrebuilder.accept', [('self', PB), ('node', NODE), ('**kwargs', None)], returns=VAL, trusted=True,
           reason='induction hypothesis over the syntax tree (A-DISPATCH): what the handlers below establish for their own node',
           requires={'walker': 'self.symtab is not None'},
           ensures={'nothing-for-a-missing-child': 'implies(node is None, result is None)',
                    'records-what-it-built': 'implies(node is not None, same(node.built, result))',
                    'statement': 'implies(node is not None and is_statement(node), is_ref(result) and fresh(as_ref(result)) and complete_statement(as_ref(result), blk(self)) '
                                 'and positions_copied(as_ref(result), node))',
                    'value': 'implies(node is not None and is_value(node), is_ref(result) and fresh(as_ref(result)) and complete_value(as_ref(result), blk(self)) '
                             'and positions_copied(as_ref(result), node))',
                    'step': 'implies(node is not None and is_step(node), is_ref(result) and fresh(as_ref(result)) and kind_of(as_ref(result)) == "ACT_LNK" '
                            'and as_ref(result).nprev == 0 and as_ref(result).nnext == 0)',
                    'block': 'implies(node is not None and is_block(node), is_ref(result) and fresh(as_ref(result)) and kind_of(as_ref(result)) == "ACT_BLK")',
                    'scopes-restored': 'self.symtab.scopes == old(self.symtab.scopes)',
                    'of-older-instances-only-variables-are-retyped': ONLY_VARIABLES_RETYPED,
                    'built-elsewhere-kept': 'all(implies(not in_subtree(m, node), same(m.built, old(m.built))) for m in anyref("Node"))'},
           modifies=NESTED + ['self.symtab.version'], ghost={'allocates': True})

NOKW = {'kwargs': PyDict({})}
REQ = {'walker': 'self.symtab is not None and node is not None and node.position is not None',
       'inside-a-block': 'blk(self) is not None and kind_of(blk(self)) == "ACT_BLK"'}
MOD = FRESH_ONLY
# ---- helpers
M.contract('bridgepoint.prebuild.ActionPrebuilder.act_smt', [('self', PB), ('node', NODE)], returns=INST, requires=REQ,
           ensures={'a-statement-in-the-current-block-without-subtype-yet':
                    'result is not None and fresh(result) and kind_of(result) == "ACT_SMT" and result.n602 == 1 and result.in_blk is blk(self) '
                    'and result.n603 == 0 and result.nprev == 0 and result.nnext == 0',
                    'carries-the-position-of-its-source-text': 'positions_copied(result, node)'},
           modifies=MOD)
M.contract('bridgepoint.prebuild.ActionPrebuilder.v_val', [('self', PB), ('node', NODE), ('**kwargs', None)], returns=INST, statics=NOKW, requires=REQ,
           ensures={'a-value-in-the-current-block-without-subtype-and-type-yet':
                    'result is not None and fresh(result) and kind_of(result) == "V_VAL" and result.n826 == 1 and result.in_blk is blk(self) '
                    'and result.n801 == 0 and result.n820 == 0',
                    'carries-the-position-of-its-source-text': 'positions_copied(result, node)'},
           modifies=MOD)
M.contract('bridgepoint.prebuild.ActionPrebuilder.v_var', [('self', PB), ('node', NODE), ('**kwargs', None)], returns=INST, statics=NOKW, requires=REQ,
           ensures={'a-variable-of-the-current-block-with-a-location-without-subtype-and-type-yet':
                    'result is not None and fresh(result) and kind_of(result) == "V_VAR" and result.n823 == 1 and result.in_blk is blk(self) '
                    'and result.n835 == 1 and result.n814 == 0 and result.n848 == 0'},
           modifies=MOD)

# ---- node attributes read by the handlers (one abstract Node class: the handlers never test the class of a node)
M.fields({'Node.expression': NODE, 'Node.block': NODE, 'Node.statement_list': NODE, 'Node.elif_list': NODE, 'Node.else_clause': NODE,
          'Node.key_letter': VAL, 'Node.variable_name': STR, 'Node.from_variable_name': STR, 'Node.to_variable_name': STR,
          'Node.using_variable_name': STR, 'Node.rel_id': VAL, 'Node.phrase': VAL, 'Node.many': BOOL, 'Node.cardinality': STR,
          'Node.value': VAL, 'Node.operator': STR, 'Node.left': NODE, 'Node.right': NODE, 'Node.operand': NODE,
          'Node.instance_variable_name': STR, 'Node.set_variable_name': STR, 'Node.where_clause': NODE, 'Node.handle': NODE,
          'Node.navigation_chain': NODE, 'ActionPrebuilder.is_lvalue': BOOL})
M.uninterpreted('nav_all', [INST, STR, INT], SeqT(INST))
M.spec('''
def first_of(x, chain):
    return nav_all(x, chain, 0)[0] if len(nav_all(x, chain, 0)) > 0 else None
''')


VARH = {'a-complete-variable-of-the-current-block': 'fresh(result) and result is not None and fresh(result.nav_V_VAR_R814) and complete_variable(result.nav_V_VAR_R814, blk(self))',
        'scopes-kept': 'self.symtab.scopes == old(self.symtab.scopes)',
        'resolved-names-stay-resolved': 'all(implies(lookup(self.symtab, old(self.symtab.version), n) is not None, lookup(self.symtab, self.symtab.version, n) is not None) for n in vals())'}
M.assume('A-NAV: after relate(x, y, r) the one-step navigation from y across r yields x (contracts.c02: relate then navigate); tracked '
         'for R814, R801 and R603 as ghost partner fields the navigation DSL reads')
for h, kind, typed in (('v_int', 'V_INT', True), ('v_ins', 'V_INS', True), ('v_trn', 'V_TRN', False)):
    ens = dict(VARH)
    ens['kind'] = 'kind_of(result) == "%s"' % kind
    ens['typed'] = 'result.nav_V_VAR_R814.n848 == %d' % (1 if typed else 0)
    M.contract('bridgepoint.prebuild.ActionPrebuilder.' + h, [('self', PB), ('node', NODE), ('name', VAL)] + ([('o_obj', INST)] if typed else []),
               returns=INST, requires=dict(REQ, **({'class-known': 'o_obj is not None and kind_of(o_obj) == "O_OBJ"'} if typed else {})), ensures=ens,
               modifies=MOD + ['self.symtab.version'])
M.contract('bridgepoint.prebuild.ActionPrebuilder.find_symbol', [('self', PB), ('node', NODE), ('name', STR)], returns=INST,
           requires=dict(REQ, **{'component-reference-type-exists': 'True'}),
           ensures={'a-known-variable-or-nothing': 'result is None or (kind_of(result) == "V_VAR")',
                    'sender-always-resolves': 'implies(lower(name) == "sender", result is not None)',
                    'only-sender-is-implicit': 'implies(lower(name) != "sender", result is old(lookup(self.symtab, self.symtab.version, name)) '
                                               'and self.symtab.version == old(self.symtab.version))',
                    'scopes-kept': 'self.symtab.scopes == old(self.symtab.scopes)', 'resolved-names-stay-resolved': 'all(implies(lookup(self.symtab, old(self.symtab.version), n) is not None, lookup(self.symtab, self.symtab.version, n) is not None) for n in vals())'},
           modifies=MOD + ['self.symtab.version'])


def statement(handler, extra_req=None, nested=False, extra_ens=None):
    req = dict(REQ)
    req.update(extra_req or {})
    ens = {'one-statement-with-exactly-one-subtype-in-the-current-block': 'fresh(result) and complete_statement(result, blk(self))',
           'carries-the-position-of-its-source-text': 'positions_copied(result, node)',
           'scopes-restored': 'self.symtab.scopes == old(self.symtab.scopes)'}
    ens.update(extra_ens or {})
    M.contract('bridgepoint.prebuild.ActionPrebuilder.' + handler, [('self', PB), ('node', NODE)], returns=INST, requires=req, ensures=ens,
               modifies=(NESTED if nested else MOD) + ['self.symtab.version'])


def resolved(*attrs):
    return {'names-resolved': ' and '.join('(lower(node.%s) == "sender" or lookup(self.symtab, self.symtab.version, node.%s) is not None)' % (a, a) for a in attrs)}


statement('accept_BreakNode')
statement('accept_ContinueNode')
statement('accept_ControlNode')
statement('accept_CreateObjectNoVariableNode')
statement('accept_DeleteNode', resolved('variable_name'))
statement('accept_CreateObjectNode')
statement('accept_RelateNode', resolved('from_variable_name', 'to_variable_name'))
statement('accept_UnrelateNode', resolved('from_variable_name', 'to_variable_name'))
statement('accept_RelateUsingNode', resolved('from_variable_name', 'to_variable_name', 'using_variable_name'))
statement('accept_UnrelateUsingNode', resolved('from_variable_name', 'to_variable_name', 'using_variable_name'))
statement('accept_SelectFromNode')
statement('accept_ReturnNode', {'children': 'node.expression is None or is_value(node.expression)'}, nested=True)
statement('accept_WhileNode', {'children': 'node.expression is not None and is_value(node.expression) and node.block is not None and is_block(node.block)'}, nested=True)
IFREQ = {'act-if': 'act_if is not None and kind_of(act_if) == "ACT_IF"'}
statement('accept_IfNode', {'children': 'node.expression is not None and is_value(node.expression) and node.block is not None and is_block(node.block)'}, nested=True)
for h, extra in (('accept_ElIfNode', 'node.expression is not None and is_value(node.expression) and '), ('accept_ElseNode', '')):
    req = dict(REQ, **IFREQ)
    req['children'] = extra + 'node.block is not None and is_block(node.block)'
    M.contract('bridgepoint.prebuild.ActionPrebuilder.' + h, [('self', PB), ('node', NODE), ('act_if', INST)], returns=INST, requires=req,
               ensures={'one-statement-with-exactly-one-subtype-in-the-current-block': 'fresh(result) and complete_statement(result, blk(self))',
                        'carries-the-position-of-its-source-text': 'positions_copied(result, node)',
                        'scopes-restored': 'self.symtab.scopes == old(self.symtab.scopes)'},
               modifies=NESTED + ['self.symtab.version'])
statement('accept_ForEachNode', dict(resolved('set_variable_name'), **{'children': 'node.block is not None and is_block(node.block)',
          'set-variable-is-typed': 'first_of(lookup(self.symtab, self.symtab.version, node.set_variable_name), "V_INS[R814].O_OBJ[R819]") is not None '
                                   'and lower(node.set_variable_name) != "sender" and lower(node.instance_variable_name) != "sender"'}), nested=True)

# ---- blocks
BLK = {'a-new-block-of-the-action': 'fresh(result) and kind_of(result) == "ACT_BLK"', 'scopes-restored': 'self.symtab.scopes == old(self.symtab.scopes)'}
M.contract('bridgepoint.prebuild.ActionPrebuilder.accept_BlockNode', [('self', PB), ('node', NODE)], returns=INST,
           requires={'walker': 'self.symtab is not None and node is not None and self.act_act is not None and kind_of(self.act_act) != "ACT_BLK"'}, ensures=BLK,
           modifies=NESTED + ['self.symtab.version', 'self.symtab.scopes'])

# ---- values
VREQ = dict(REQ)


def value(handler, typ=None, extra_req=None, nested=False, extra_ens=None):
    req = dict(REQ)
    req.update(extra_req or {})
    ens = {'one-value-with-exactly-one-subtype-one-type-in-the-current-block': 'fresh(result) and complete_value(result, blk(self))',
           'carries-the-position-of-its-source-text': 'positions_copied(result, node)',
           'scopes-restored': 'self.symtab.scopes == old(self.symtab.scopes)'}
    if typ:
        ens['typed-as-the-language-says'] = 'result.typ is type_named("%s")' % typ
    ens.update(extra_ens or {})
    M.contract('bridgepoint.prebuild.ActionPrebuilder.' + handler, [('self', PB), ('node', NODE)], returns=INST, requires=req, ensures=ens,
               modifies=(NESTED if nested else MOD) + ['self.symtab.version'])


value('accept_BooleanNode', 'boolean')
value('accept_IntegerNode', 'integer')
value('accept_RealNode', 'real')
value('accept_StringNode', 'string', {'quoted': 'is_str(node.value)'})
value('accept_SelectedAccessNode', 'inst_ref<Object>')
M.spec('''
def comparison_or_boolean(op):
    return op in ('<', '<=', '==', '!=', '>=', '>', 'and', 'or')
''')
value('accept_UnaryOperationNode', None, {'children': 'node.operand is not None and is_value(node.operand)',
                                          'operand-typed': 'True'}, nested=True,
      extra_ens={'logical-operators-are-boolean': 'implies(lower(node.operator) in ("not", "empty", "not_empty"), result.typ is type_named("boolean"))',
                 'cardinality-is-integer': 'implies(lower(node.operator) == "cardinality", result.typ is type_named("integer"))'})
value('accept_BinaryOperationNode', None, {'children': 'node.left is not None and is_value(node.left) and node.right is not None and is_value(node.right) '
                                                       'and not in_subtree(node.left, node.right) and not in_subtree(node.right, node.left)'}, nested=True,
      extra_ens={'comparisons-and-boolean-operators-are-boolean': 'implies(comparison_or_boolean(lower(node.operator)), result.typ is type_named("boolean"))'})

# ---- chains (R661 between consecutive statements, R604 between navigation steps)
M.spec('''
def b(n):
    return as_ref(n.built)

def chain_so_far(kids, k):
    return (all(is_ref(kids[j].built) and allocated(b(kids[j])) for j in range(0, k))
            and all(all(b(kids[j]) is not b(kids[m]) for m in range(j + 1, k)) for j in range(0, k))
            and all(b(kids[j]).prev is b(kids[j - 1]) and b(kids[j]).nprev == 1 for j in range(1, k))
            and all(b(kids[j]).nnext == 1 and b(kids[j]).next is b(kids[j + 1]) for j in range(0, k - 1))
            and implies(k > 0, b(kids[0]).nprev == 0 and b(kids[k - 1]).nnext == 0))

def tree(kids):
    return (all(kids[j] is not None for j in range(0, len(kids)))
            and all(all(implies(j != m, not in_subtree(kids[j], kids[m])) for m in range(0, len(kids))) for j in range(0, len(kids))))
''')
M.contract('bridgepoint.prebuild.ActionPrebuilder.accept_StatementListNode', [('self', PB), ('node', NODE)], returns=NONE,
           requires={'walker': 'self.symtab is not None and node is not None', 'children-are-statements': 'tree(node.children) and all(is_statement(c) for c in node.children)'},
           ensures={'each-statement-chained-to-its-neighbour-in-source-order-none-at-the-ends': 'chain_so_far(node.children, len(node.children))',
                    'each-statement-complete': 'all(complete_statement_in_chain(b(c), blk(self)) for c in node.children)',
                    'scopes-restored': 'self.symtab.scopes == old(self.symtab.scopes)'},
           modifies=NESTED + ['self.symtab.version'],
           loops={0: Loop(inv={'walks-the-children': '_seq == node.children',
                               'chained-so-far': 'chain_so_far(node.children, _i)',
                               'complete-so-far': 'all(complete_statement_in_chain(b(node.children[j]), blk(self)) for j in range(0, _i))',
                               'previous': '_c0 is (None if _i == 0 else b(node.children[_i - 1]))',
                               'scopes': 'self.symtab.scopes == old(self.symtab.scopes)'})})
M.spec('''
def complete_statement_in_chain(s, blk):
    return s is not None and kind_of(s) == 'ACT_SMT' and s.n603 == 1 and s.n602 == 1 and s.in_blk is blk
''')

M.contract('bridgepoint.prebuild.ActionPrebuilder.accept_NavigationStepNode', [('self', PB), ('node', NODE)], returns=INST,
           requires={'walker': 'self.symtab is not None and node is not None'},
           ensures={'an-unchained-step-with-its-association-and-class': 'fresh(result) and kind_of(result) == "ACT_LNK" and result.nprev == 0 and result.nnext == 0',
                    'scopes-restored': 'self.symtab.scopes == old(self.symtab.scopes)'},
           modifies=MOD)
M.spec('''
def rchain_so_far(kids, k):
    n = len(kids)
    return (all(is_ref(kids[j].built) and allocated(b(kids[j])) and kind_of(b(kids[j])) == 'ACT_LNK' for j in range(n - k, n))
            and all(all(b(kids[j]) is not b(kids[m]) for m in range(j + 1, n)) for j in range(n - k, n))
            and all(b(kids[j]).prev is b(kids[j + 1]) and b(kids[j]).nprev == 1 for j in range(n - k, n - 1))
            and all(b(kids[j]).nnext == 1 and b(kids[j]).next is b(kids[j - 1]) for j in range(n - k + 1, n))
            and implies(k > 0, b(kids[n - 1]).nprev == 0 and b(kids[n - k]).nnext == 0))
''')
M.contract('bridgepoint.prebuild.ActionPrebuilder.accept_NavigationListNode', [('self', PB), ('node', NODE)], returns=VAL,
           requires={'walker': 'self.symtab is not None and node is not None', 'children-are-steps': 'tree(node.children) and all(is_step(c) for c in node.children)'},
           ensures={'each-step-chained-to-its-neighbour-in-source-order-none-at-the-ends': 'rchain_so_far(node.children, len(node.children))',
                    'returns-the-first-step': 'same(result, None if len(node.children) == 0 else node.children[0].built)',
                    'scopes-restored': 'self.symtab.scopes == old(self.symtab.scopes)'},
           modifies=NESTED + ['self.symtab.version'],
           loops={0: Loop(inv={'walks-the-children-backwards': 'len(_seq) == len(node.children) and all(_seq[j] is node.children[len(node.children) - 1 - j] for j in range(0, len(_seq)))',
                               'chained-so-far': 'rchain_so_far(node.children, _i)',
                               'previous': 'same(_c0, None if _i == 0 else node.children[len(node.children) - _i].built)',
                               'scopes': 'self.symtab.scopes == old(self.symtab.scopes)'})})

# ---- body, variable reads
M.contract('bridgepoint.prebuild.ActionPrebuilder.accept_BodyNode', [('self', PB), ('node', NODE)], returns=INST,
           requires={'walker': 'self.symtab is not None and node is not None and node.block is not None and self.act_act is not None and kind_of(self.act_act) != "ACT_BLK"'},
           ensures={'returns-the-action': 'result is self.act_act', 'scopes-restored': 'self.symtab.scopes == old(self.symtab.scopes)'},
           modifies=NESTED + ['self.symtab.version', 'self.symtab.scopes'])
M.spec('''
def typed_variable(v):
    return v is not None and allocated(v) and kind_of(v) == 'V_VAR' and v.nav_S_DT_R848 is not None and kind_of(v.nav_S_DT_R848) == 'S_DT'
''')
M.assume('A-VARS-TYPED: a variable found in the symbol table that is an instance handle or instance set is related to its type across R848 '
         '(established where it is created: v_int / v_ins contracts; carried through the symbol table as an assumption)')
VARREQ = {'variable-resolved-and-typed': 'typed_variable(lookup(self.symtab, self.symtab.version, name)) and lower(name) != "sender"'}
for h, kind, rel in (('v_isr', 'V_ISR', 809), ('v_irf', 'V_IRF', 808)):
    M.contract('bridgepoint.prebuild.ActionPrebuilder.' + h, [('self', PB), ('node', NODE), ('name', STR)], returns=INST, requires=dict(REQ, **VARREQ),
               ensures={'a-complete-value-typed-as-the-variable':
                        'fresh(result) and kind_of(result) == "%s" and fresh(result.nav_V_VAL_R801) and complete_value(result.nav_V_VAL_R801, blk(self)) '
                        'and result.nav_V_VAL_R801.typ is old(lookup(self.symtab, self.symtab.version, name).nav_S_DT_R848)' % kind,
                        'carries-the-position-of-its-source-text': 'positions_copied(result.nav_V_VAL_R801, node)',
                        'scopes-kept': 'self.symtab.scopes == old(self.symtab.scopes)'},
               modifies=MOD + ['self.symtab.version'])
value('accept_SelfAccessNode', None, {'self-resolved-and-typed': 'typed_variable(lookup(self.symtab, self.symtab.version, "self"))'},
      extra_ens={'typed-as-the-variable': 'result.typ is old(lookup(self.symtab, self.symtab.version, "self").nav_S_DT_R848)'})
statement('accept_SelectFromWhereNode', {'children': 'node.where_clause is not None and is_value(node.where_clause)'}, nested=True)

# ---- invocation parameters: R816 chain over the parameter list (built back to front), every parameter a fresh V_PAR with its value
M.uninterpreted('is_param', [NODE], BOOL)
_acc = M.contracts['bridgepoint.prebuild.ActionPrebuilder.accept']
_acc.ensures['parameter'] = ('implies(node is not None and is_param(node), is_ref(result) and fresh(as_ref(result)) and kind_of(as_ref(result)) == "V_PAR" '
                             'and as_ref(result).nprev == 0 and as_ref(result).nnext == 0)')
M.fields({'Node.name': VAL})
for h in ('accept_ParameterNode', 'accept_EventDataItemNode'):
    M.contract('bridgepoint.prebuild.ActionPrebuilder.' + h, [('self', PB), ('node', NODE)], returns=INST,
               requires=dict(REQ, **{'children': 'node.expression is not None and is_value(node.expression)'}),
               ensures={'an-unchained-parameter-carrying-its-value': 'fresh(result) and kind_of(result) == "V_PAR" and result.nprev == 0 and result.nnext == 0',
                        'scopes-restored': 'self.symtab.scopes == old(self.symtab.scopes)'},
               modifies=NESTED + ['self.symtab.version'])
M.spec('''
def pchain_so_far(kids, k):
    n = len(kids)
    return (all(is_ref(kids[j].built) and allocated(b(kids[j])) and kind_of(b(kids[j])) == 'V_PAR' for j in range(n - k, n))
            and all(all(b(kids[j]) is not b(kids[m]) for m in range(j + 1, n)) for j in range(n - k, n))
            and all(b(kids[j]).prev is b(kids[j + 1]) and b(kids[j]).nprev == 1 for j in range(n - k, n - 1))
            and all(b(kids[j]).nnext == 1 and b(kids[j]).next is b(kids[j - 1]) for j in range(n - k + 1, n))
            and implies(k > 0, b(kids[n - 1]).nprev == 0 and b(kids[n - k]).nnext == 0))
''')
M.contract('bridgepoint.prebuild.ActionPrebuilder.accept_ParameterListNode', [('self', PB), ('node', NODE), ('act_smt', INST), ('v_val', INST)], returns=NONE,
           requires={'walker': 'self.symtab is not None and node is not None', 'children-are-parameters': 'tree(node.children) and all(is_param(c) for c in node.children)',
                     'invocation': '(act_smt is None or (allocated(act_smt) and kind_of(act_smt) == "ACT_SMT")) and (v_val is None or (allocated(v_val) and kind_of(v_val) == "V_VAL"))'},
           ensures={'each-parameter-chained-to-its-neighbour-in-source-order-none-at-the-ends': 'pchain_so_far(node.children, len(node.children))',
                    'scopes-restored': 'self.symtab.scopes == old(self.symtab.scopes)'},
           modifies=NESTED + ['self.symtab.version'],
           loops={0: Loop(inv={'walks-the-children-backwards': 'len(_seq) == len(node.children) and all(_seq[j] is node.children[len(node.children) - 1 - j] for j in range(0, len(_seq)))',
                               'chained-so-far': 'pchain_so_far(node.children, _i)',
                               'previous': 'same(_c0, None if _i == 0 else node.children[len(node.children) - _i].built)',
                               'scopes': 'self.symtab.scopes == old(self.symtab.scopes)'})})

# ---- attribute / member values, index access, statements around one value
M.contract('bridgepoint.prebuild.ActionPrebuilder.v_avl', [('self', PB), ('node', NODE), ('o_attr', INST), ('root_v_val', INST)], returns=INST,
           requires=dict(REQ, **{'attribute-typed': 'o_attr is not None and kind_of(o_attr) == "O_ATTR" and (first_of(o_attr, "O_RATTR[R106].O_BATTR[R113].O_ATTR[R106].S_DT[R114]") is not None '
                                                    'or first_of(o_attr, "S_DT[R114]") is not None)',
                                 'root': 'root_v_val is not None and allocated(root_v_val) and kind_of(root_v_val) == "V_VAL"'}),
           ensures={'a-complete-value-typed-as-the-attribute-declares':
                    'fresh(result) and kind_of(result) == "V_AVL" and fresh(result.nav_V_VAL_R801) and complete_value(result.nav_V_VAL_R801, blk(self)) '
                    'and result.nav_V_VAL_R801.typ is (first_of(o_attr, "O_RATTR[R106].O_BATTR[R113].O_ATTR[R106].S_DT[R114]") '
                    'if first_of(o_attr, "O_RATTR[R106].O_BATTR[R113].O_ATTR[R106].S_DT[R114]") is not None else first_of(o_attr, "S_DT[R114]"))',
                    'carries-the-position-of-its-source-text': 'positions_copied(result.nav_V_VAL_R801, node)'},
           modifies=MOD)
M.contract('bridgepoint.prebuild.ActionPrebuilder.v_mvl', [('self', PB), ('node', NODE), ('s_mbr', INST), ('root_v_val', INST)], returns=INST,
           requires=dict(REQ, **{'member-typed': 's_mbr is not None and kind_of(s_mbr) == "S_MBR" and first_of(s_mbr, "S_DT[R45]") is not None',
                                 'root': 'root_v_val is not None and allocated(root_v_val) and kind_of(root_v_val) == "V_VAL"'}),
           ensures={'a-complete-value-typed-as-the-member-declares':
                    'fresh(result) and kind_of(result) == "V_MVL" and fresh(result.nav_V_VAL_R801) and complete_value(result.nav_V_VAL_R801, blk(self)) '
                    'and result.nav_V_VAL_R801.typ is first_of(s_mbr, "S_DT[R45]")',
                    'carries-the-position-of-its-source-text': 'positions_copied(result.nav_V_VAL_R801, node)'},
           modifies=MOD)
M.fields({'Node.variable_access': NODE})
statement('accept_GeneratePreexistingNode', {'children': 'node.variable_access is not None and is_value(node.variable_access)'}, nested=True)
# accept_InvocationStatementNode is deliberately not under contract: its statement gets its subtype inside the invocation handler it
# passes the statement to, which the induction hypothesis of accept() (instances that existed before are left alone) does not cover.

# every handler that evaluates children re-establishes the frame half of the induction hypothesis for its own node
for _q, _ct in M.contracts.items():
    if not _ct.trusted and 'Class.typ' in _ct.modifies:
        _ct.ensures.setdefault('of-older-instances-only-variables-are-retyped', ONLY_VARIABLES_RETYPED)
for _q in ('accept_StatementListNode', 'accept_NavigationListNode', 'accept_ParameterListNode'):
    M.contracts['bridgepoint.prebuild.ActionPrebuilder.' + _q].loops[0].inv['of-older-instances-only-variables-are-retyped'] = ONLY_VARIABLES_RETYPED
