"""C11 — the consistency check reports exactly the violations present."""
from pyvc.spec import Module, Raises, Loop
from pyvc.sorts import INT, BOOL, STR, VAL, NONE, RefT, SeqT, SetT, MapT, TupT
from .base import INST, MC, MM, LINK, ASSOC, OSET, QSET

M = Module('contracts.c11', prop='C11')
M.use('contracts.base', 'contracts.c02', 'contracts.c09')

M.spec('''
def lo(link):
    return 0 if link.conditional else 1

def outside(link, inst):
    return len(partners(link, inst)) < lo(link) or (not link.many and len(partners(link, inst)) > 1)

def viol_prefix(link, insts, k):
    return 0 if k <= 0 else viol_prefix(link, insts, k - 1) + (1 if outside(link, insts[k - 1]) else 0)
''', sorts={'viol_prefix': ([LINK, SeqT(INST), INT], INT, ['Link._dict_', 'OrderedSet.view', 'Link.conditional', 'Link.many'])})

M.contract('xtuml.consistency_check.check_link_integrity', [('m', MM), ('link', LINK)], returns=INT,
           requires={'link': 'link is not None and link.from_metaclass is not None'},
           ensures={'counts-ends-outside-multiplicity':
                    'result == viol_prefix(link, link.from_metaclass.storage, len(link.from_metaclass.storage))'},
           modifies=[],
           loops={0: Loop(inv={'count-so-far': '_returned == viol_prefix(link, _seq, _i)',
                               'iterates-pool': '_seq == link.from_metaclass.storage'})})

# ---- all associations, optionally restricted to one association number
M.spec('''
def link_viol(link):
    return viol_prefix(link, link.from_metaclass.storage, len(link.from_metaclass.storage))

def norm_rel(rel_id):
    return ('R' + int_str(rel_id)) if is_int(rel_id) else rel_id

def selected(ass, rel):
    return rel is None or ass.rel_id == rel

def assoc_sum(m, rel, k):
    return 0 if k <= 0 else assoc_sum(m, rel, k - 1) + ((link_viol(m.associations[k - 1].source_link) + link_viol(m.associations[k - 1].target_link)) if selected(m.associations[k - 1], rel) else 0)

def wf_assocs(m):
    return all(a is not None and a.source_link is not None and a.target_link is not None
               and a.source_link.from_metaclass is not None and a.target_link.from_metaclass is not None for a in m.associations)
''', sorts={'assoc_sum': ([MM, VAL, INT], INT, ['Link._dict_', 'OrderedSet.view', 'Link.conditional', 'Link.many', 'MetaModel.associations',
                                                'Association.source_link', 'Association.target_link', 'Association.rel_id',
                                                'Link.from_metaclass', 'MetaClass.storage'])})

M.contract('xtuml.consistency_check.check_association_integrity', [('m', MM), ('rel_id', VAL, 'None')], returns=INT,
           requires={'model': 'm is not None and wf_assocs(m)', 'rel-id-shape': 'rel_id is None or is_int(rel_id) or is_str(rel_id)'},
           ensures={'sum-over-selected-associations-both-directions':
                    'result == assoc_sum(m, norm_rel(rel_id), len(m.associations))'},
           modifies=[],
           loops={0: Loop(inv={'sum-so-far': '_returned == assoc_sum(m, norm_rel(old(rel_id)), _i)',
                               'rel-normalised': 'rel_id == norm_rel(old(rel_id))',
                               'iterates-associations': '_seq == m.associations'})})

# ---- uniqueness check: the loop counting null identifying values (fragment contract: loop 3 of check_uniqueness_constraint,
#      from arbitrary values of its live variables; the function as a whole is covered by the bounded tier)
M.uninterpreted('attr_value', [INST, STR], VAL)
M.klass('Class', getattr='builtins.getattr@Class')
M.contract('builtins.getattr@Class', [('obj', INST), ('name', STR)], returns=VAL, trusted=True,
           reason='PY-6: attribute read of an instance under any spelling (contracts.c10 proves Class.__getattr__ against it)',
           ensures={'value': 'result == attr_value(obj, name)'}, modifies=[])
M.spec('''
def is_null_id(v, ty):
    return v is None or (upper(ty) == 'UNIQUE_ID' and not v)

def null_prefix(mc, inst, k):
    return 0 if k <= 0 else null_prefix(mc, inst, k - 1) + (1 if (mc.attributes[k - 1][0] in mc.identifying_attributes and is_null_id(attr_value(inst, mc.attributes[k - 1][0]), mc.attributes[k - 1][1])) else 0)
''', sorts={'null_prefix': ([MC, INST, INT], INT, ['MetaClass.attributes', 'MetaClass.identifying_attributes'])})
M.contract('xtuml.consistency_check.check_uniqueness_constraint@null-values-loop',
           [('metaclass', MC), ('inst', INST), ('res', INT)], returns=None,
           requires={'metaclass': 'metaclass is not None and inst is not None'},
           ensures={'counts-null-identifying-values': 'res == old(res) + null_prefix(metaclass, inst, len(metaclass.attributes))'},
           modifies=[], ghost={'fragment': {'loop': 3}},
           loops={3: Loop(inv={'count-so-far': 'res == old(res) + null_prefix(metaclass, inst, _i)', 'iterates': '_seq == metaclass.attributes'})})

# ---- subtype integrity: one violation per supertype instance without a subtype instance across the association
#      (navigate_subtype is abstract here: `subtype_across(inst, rel)` is the instance it finds, None when there is none;
#       its own loop over the links of the supertype is decided by the bounded tier, c11 item subtypes)
M.uninterpreted('subtype_across', [INST, VAL], INST)
M.contract('xtuml.meta.navigate_subtype', [('supertype', INST), ('rel_id', VAL)], returns=INST, trusted=True,
           reason='abstract: the subtype instance reached across the association, or None (bounded tier: c11 item subtypes, c09 item navigate); '
                  'the association number is normalised the same way (an integer n means "Rn")',
           ensures={'the-subtype-or-none': 'result is subtype_across(supertype, norm_rel(rel_id))'}, modifies=[])
M.spec('''
def lacks_subtype(inst, rel):
    return subtype_across(inst, rel) is None

def orphan_prefix(insts, rel, k):
    return 0 if k <= 0 else orphan_prefix(insts, rel, k - 1) + (1 if lacks_subtype(insts[k - 1], rel) else 0)
''', sorts={'orphan_prefix': ([SeqT(INST), VAL, INT], INT, [])})
M.contract('xtuml.consistency_check.check_subtype_integrity', [('m', MM), ('super_kind', STR), ('rel_id', VAL)], returns=INT,
           requires={'model': 'm is not None and upper(super_kind) in m.metaclasses and m.metaclasses[upper(super_kind)] is not None',
                     'rel-id-shape': 'is_int(rel_id) or is_str(rel_id)',
                     'instances': 'all(x is not None for x in m.metaclasses[upper(super_kind)].storage)'},
           ensures={'counts-supertype-instances-without-subtype':
                    'result == orphan_prefix(m.metaclasses[upper(super_kind)].storage, norm_rel(rel_id), len(m.metaclasses[upper(super_kind)].storage))'},
           modifies=[],
           loops={0: Loop(inv={'count-so-far': '_returned == orphan_prefix(_seq, norm_rel(old(rel_id)), _i)',
                               'rel-normalised': 'rel_id == norm_rel(old(rel_id))',
                               'iterates-pool': '_seq == m.metaclasses[upper(super_kind)].storage'})})
