"""Shared abstract state of xtuml.meta (DESIGN.md §2.5a): heap fields with their sorts, class facts, view functions.
No contracts here: each function is verified in the module of the property that owns it."""
from pyvc.spec import Module
from pyvc.sorts import INT, BOOL, STR, VAL, NONE, RefT, SeqT, SetT, MapT, TupT

M = Module('contracts.base', prop=None)

INST = RefT('Class')
MC = RefT('MetaClass')
MM = RefT('MetaModel')
LINK = RefT('Link')
ASSOC = RefT('Association')
OSET = RefT('OrderedSet')
QSET = RefT('QuerySet')
ATTR = TupT(STR, STR)
LINKKEY = TupT(STR, STR, STR)

M.fields({
    # MetaClass
    'MetaClass.metamodel': MM, 'MetaClass.kind': STR, 'MetaClass.attributes': SeqT(ATTR),
    'MetaClass.referential_attributes': SetT(STR), 'MetaClass.identifying_attributes': SetT(STR),
    'MetaClass.indices': MapT(STR, SeqT(STR)), 'MetaClass.links': MapT(LINKKEY, LINK), 'MetaClass.storage': SeqT(INST),
    'MetaClass.clazz': RefT('type'),
    # Link (a dict subclass: the dict itself is the pseudo field _dict_)
    'Link.from_metaclass': MC, 'Link.to_metaclass': MC, 'Link.rel_id': STR, 'Link.phrase': STR,
    'Link.conditional': BOOL, 'Link.many': BOOL, 'Link.key_map': MapT(STR, STR), 'Link._dict_': MapT(INST, OSET),
    # Association
    'Association.rel_id': STR, 'Association.source_link': LINK, 'Association.target_link': LINK,
    'Association.source_keys': SeqT(STR), 'Association.target_keys': SeqT(STR),
    # MetaModel
    'MetaModel.metaclasses': MapT(STR, MC), 'MetaModel.associations': SeqT(ASSOC), 'MetaModel.id_generator': RefT('IdGenerator'),
    # instances
    'Class.__dict__': MapT(STR, VAL), 'Class.__metaclass__': MC,
    # ordered sets, seen from outside through their abstract view (representation: contracts.c17)
    'OrderedSet.view': SeqT(INST),
    'IdGenerator._current': INT,
})

M.klass('Link', dictfield='_dict_')
M.klass('OrderedSet', len='len(self.view)', iter='self.view', contains='x in self.view')
M.klass('QuerySet', bases=['OrderedSet'])

M.spec('''
def partners(link, inst):
    return link._dict_[inst].view if inst in link._dict_ else []
''')

M.assume('PY-7: dict iteration order is insertion order; keys of ordered sets compare by identity (instances) — hash/eq coherent')
