"""print the markdown table of seeded changes and the results of the checks on them (from /verif/seeded/*/result.json)"""
import json, os, re, sys
ROOT = os.path.dirname(os.path.dirname(os.path.abspath(__file__)))
rows = []
for d in sorted(os.listdir(os.path.join(ROOT, 'seeded'))):
    p = os.path.join(ROOT, 'seeded', d)
    if not re.match(r'C\d\d_\d+$', d) or not os.path.exists(p + '/result.json'):
        continue
    r = json.load(open(p + '/result.json'))
    m = json.load(open(p + '/meta.json'))
    files = ', '.join(os.path.basename(f) for f in m.get('files', []))
    det = r.get('detected_by', [])
    tiers = '+'.join(sorted(set(re.search(r'tier=(\w)', x).group(1) for x in det if re.search(r'tier=(\w)', x)))) or '-'
    first = '; '.join(x.strip()[:150] for x in det[:2])
    rows.append('| %s | %s | %s | %s | %s | %s |' % (d, files, (m.get('title') or '')[:150].replace('|', '/'), 'yes' if r.get('caught') else '**no**', tiers, first.replace('|', '/')))
print('| Change | File | What it is | Reported | Tiers | First reporting items [clauses] |')
print('|---|---|---|---|---|---|')
print('\n'.join(rows))
