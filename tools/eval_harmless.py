"""Run the checks of the properties anchored in the files a behaviour-preserving patch touches; a VIOLATION line is a false alarm.
usage: .venv/bin/python tools/eval_harmless.py <dir with patch.diff, meta.json> [--keep name]"""
import json, os, re, shutil, subprocess, sys, time
MAP = {'xtuml/meta.py': 'C02 C03 C09 C10 C11 C16 C19 C01', 'xtuml/tools.py': 'C17 C19', 'xtuml/consistency_check.py': 'C11',
       'xtuml/persist.py': 'C01 C14', 'xtuml/load.py': 'C01 C03 C12 C18', 'bridgepoint/interpret.py': 'C04 C08 C15',
       'bridgepoint/gen_xsd_schema.py': 'C20', 'bridgepoint/oal.py': 'C07 C13 C08 C04', 'bridgepoint/ooaofooa.py': 'C14 C15 C20',
       'bridgepoint/prebuild.py': 'C06 C08'}
def sh(cmd, cwd=None, timeout=3600):
    p = subprocess.run(cmd, shell=True, cwd=cwd, capture_output=True, text=True, timeout=timeout)
    return p.returncode, p.stdout + p.stderr
d = os.path.abspath(sys.argv[1])
keep = sys.argv[sys.argv.index('--keep') + 1] if '--keep' in sys.argv else None
patch = open(d + '/patch.diff').read()
files = re.findall(r'^\+\+\+ b/(\S+)', patch, re.M)
props = sorted(set(p for f in files for p in MAP.get(f, '').split()))
assert sh('git -C /repo status --porcelain')[1].strip() == '', '/repo not clean'
res = dict(dir=d, files=files, checks={})
try:
    rc, out = sh('git -C /repo apply %s/patch.diff' % d)
    assert rc == 0, out
    sh('rm -f /repo/xtuml/__xtuml_*tab.py /repo/bridgepoint/__oal_*tab.py')
    rc, out = sh('/venv/bin/python -m pytest -q -p no:cacheprovider --timeout=900 -x', cwd='/repo', timeout=1800)
    res['suite_passes'] = rc == 0
    for p in props:
        t0 = time.time()
        rc, out = sh('./check %s --tier quick' % p, cwd='/verif')
        lines = out.splitlines()
        res['checks'][p] = dict(exit=rc, wall_s=round(time.time() - t0, 1), violations=[l for l in lines if l.startswith('VIOLATION')][:6],
                                detected_by=sorted(set(l.strip() for l in lines if l.startswith('  %s tier=' % p)))[:6],
                                undecided=[l for l in lines if l.startswith('UNDECIDED')][:6], errors=[l for l in lines if l.startswith('CHECKER-ERROR')][:3])
finally:
    sh('git -C /repo checkout -- .')
    sh('rm -f /repo/xtuml/__xtuml_*tab.py /repo/bridgepoint/__oal_*tab.py')
res['false_alarms'] = [p for p, c in res['checks'].items() if c['exit'] == 1]
res['undecided'] = [p for p, c in res['checks'].items() if c['exit'] == 2]
json.dump(res, open(d + '/result.json', 'w'), indent=1)
print(json.dumps(dict(files=files, suite=res.get('suite_passes'), exits=dict((p, c['exit']) for p, c in res['checks'].items()),
                      false_alarms=res['false_alarms'], undecided=dict((p, res['checks'][p]['undecided'][:2]) for p in res['undecided']),
                      alarm_lines=dict((p, res['checks'][p]['detected_by'][:3]) for p in res['false_alarms'])), indent=1))
if keep:
    dst = os.path.join('/verif/seeded', keep)
    shutil.rmtree(dst, ignore_errors=True)
    shutil.copytree(d, dst)
