"""Confirm a seeded change and run the property's check against it.
usage: .venv/bin/python tools/eval_seed.py <seed dir with patch.diff, demo.py, meta.json> [--tier quick] [--keep <name>]
1. in a scratch worktree of /repo HEAD: demo.py exits 0 without the patch; with the patch the whole suite passes and demo.py exits 1
2. patch applied to /repo itself (git apply), ./check <property>, then undone (git checkout -- .)
Writes result.json next to the patch (and copies the directory to /verif/seeded/<name> with --keep)."""
import json, os, shutil, subprocess, sys, tempfile, time

def sh(cmd, cwd=None, env=None, timeout=3600):
    p = subprocess.run(cmd, shell=True, cwd=cwd, env=env, capture_output=True, text=True, timeout=timeout)
    return p.returncode, (p.stdout + p.stderr)

def main():
    d = os.path.abspath(sys.argv[1])
    tier = sys.argv[sys.argv.index('--tier') + 1] if '--tier' in sys.argv else 'quick'
    keep = sys.argv[sys.argv.index('--keep') + 1] if '--keep' in sys.argv else None
    meta = json.load(open(os.path.join(d, 'meta.json')))
    prop = meta['property']
    res = dict(property=prop, dir=d, tier=tier)
    wt = tempfile.mkdtemp(prefix='seedwt_', dir='/tmp')
    os.rmdir(wt)
    try:
        rc, out = sh('git -C /repo worktree add -q %s HEAD' % wt)
        assert rc == 0, out
        env = dict(os.environ, PYTHONPATH=wt, PYTHONDONTWRITEBYTECODE='1')
        rc0, out0 = sh('/venv/bin/python %s/demo.py' % d, cwd=wt, env=env, timeout=600)
        res['demo_unchanged_exit'] = rc0
        rc, out = sh('git apply %s/patch.diff' % d, cwd=wt)
        res['patch_applies'] = rc == 0
        if rc != 0:
            res['error'] = out[-500:]
        else:
            sh('rm -f xtuml/__xtuml_*tab.py bridgepoint/__oal_*tab.py', cwd=wt)
            rc, out = sh('/venv/bin/python -m pytest -q -p no:cacheprovider --timeout=900 -x', cwd=wt, env=env, timeout=1800)
            res['suite_passes_with_patch'] = rc == 0
            res['suite_tail'] = out.strip().splitlines()[-1] if out.strip() else ''
            rc1, out1 = sh('/venv/bin/python %s/demo.py' % d, cwd=wt, env=env, timeout=600)
            res['demo_patched_exit'] = rc1
            res['demo_patched_tail'] = out1.strip()[-400:]
        res['confirmed'] = bool(res.get('patch_applies') and res.get('suite_passes_with_patch') and rc0 == 0 and res.get('demo_patched_exit') == 1)
    finally:
        sh('git -C /repo worktree remove --force %s' % wt)
    if res['confirmed']:
        assert sh('git -C /repo status --porcelain')[1].strip() == '', '/repo not clean'
        try:
            rc, out = sh('git -C /repo apply %s/patch.diff' % d)
            assert rc == 0, out
            t0 = time.time()
            rc, out = sh('./check %s --tier %s' % (prop, tier), cwd='/verif', timeout=3600)
            res['check_exit'] = rc
            res['check_wall_s'] = round(time.time() - t0, 1)
            lines = out.splitlines()
            res['violation_lines'] = [l for l in lines if l.startswith('VIOLATION')][:12]
            res['detected_by'] = sorted(set(l.strip() for l in lines if l.startswith('  %s tier=' % prop)))[:12]
            res['summary'] = [l for l in lines if 'tier=%s:' % tier in l][-1:]
            res['undecided'] = [l for l in lines if l.startswith('UNDECIDED')][:5]
        finally:
            sh('git -C /repo checkout -- .')
            sh('rm -f /repo/xtuml/__xtuml_*tab.py /repo/bridgepoint/__oal_*tab.py')
        res['caught'] = res.get('check_exit') == 1
    json.dump(res, open(os.path.join(d, 'result.json'), 'w'), indent=1)
    print(json.dumps(dict((k, res[k]) for k in res if k in ('property', 'confirmed', 'caught', 'check_exit', 'summary', 'detected_by', 'demo_unchanged_exit', 'demo_patched_exit', 'suite_passes_with_patch', 'undecided', 'error')), indent=1))
    if keep and res['confirmed']:
        dst = os.path.join('/verif/seeded', keep)
        shutil.rmtree(dst, ignore_errors=True)
        shutil.copytree(d, dst)

main()
