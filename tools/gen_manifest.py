"""Regenerate MANIFEST.json from props/*.py (PROP['manifest']) and NOT_APPLICABLE below.  Run: .venv/bin/python tools/gen_manifest.py"""
import importlib, json, os, sys
ROOT = os.path.dirname(os.path.dirname(os.path.abspath(__file__)))
sys.path[:0] = [ROOT, '/repo']
NOT_APPLICABLE = {
    'C05': 'No contract within reach can express the oracle "the generated text parses to the same tree": it needs PLY\'s LR engine over a '
           '170-production grammar as a spec function; pinning sourcegen\'s accept_* to exact strings would prove a different property '
           '(textual identity) and alarm on harmless spacing/case changes. See DESIGN.md section 8.',
}
ids = [json.loads(l)['id'] for l in open(os.path.join(ROOT, 'properties.jsonl'))]
checks, na = [], []
for pid in ids:
    path = os.path.join(ROOT, 'props', pid.lower() + '.py')
    if pid in NOT_APPLICABLE:
        na.append(dict(property_id=pid, reason=NOT_APPLICABLE[pid]))
        continue
    if not os.path.exists(path):
        na.append(dict(property_id=pid, reason='check not built yet (framework under construction; see DESIGN.md section 5 for the plan)'))
        continue
    P = importlib.import_module('props.' + pid.lower()).PROP
    mf = P['manifest']
    checks.append(dict(property_id=pid, quick_cmd='./check %s --tier quick' % pid, thorough_cmd='./check %s --tier thorough' % pid,
                       evidence_file='evidence/%s.json' % pid, replay_cmd_template='./check replay {path}', engine='pyvc',
                       level_claimed=dict(category=P['level'], text=mf['text'], design_ref=mf.get('design_ref', 'DESIGN.md section 5, ' + pid)),
                       level_note=mf['note'], technique=mf['technique']))
m = dict(version=1, setup_cmd='./setup.sh',
         hooks=dict(guard='PYXTUML_VERIF', enable='no hooks: contracts are sidecar files keyed by qualified function name; nothing in /repo is instrumented',
                    baseline_off_cmd='cd /repo && /venv/bin/python -m pytest -q -p no:cacheprovider --timeout=900', source_commits=[], add_only=True),
         engines=[dict(name='pyvc', path='pyvc/', serves_properties=[c['property_id'] for c in checks],
                       kind_free_text='contract-based deductive verifier written for this task: ast -> z3/cvc5 symbolic executor over the real source of /repo, '
                                      'sidecar contracts in contracts/, finite-state obligations in finite/, bounded run-time-contract stand-ins in bounded/')],
         checks=checks, not_applicable=na,
         notes='Tiers are reported separately in every evidence file: P proved obligations, F exact finite-state decisions, B bounded stand-ins '
               '(never counted as proved), A assumptions. Exit codes: 0 held, 1 violation, 2 undecided (an obligation of unchanged code not '
               'discharged), 3 checker error. On a changed tree, proofs that cannot be redone for a restructured loop or for a function that left the '
               'verified subset are printed as NOT-REESTABLISHED and do not change the exit code (DESIGN.md, build-round status, verdict policy).')
json.dump(m, open(os.path.join(ROOT, 'MANIFEST.json'), 'w'), indent=1)
import jsonschema
jsonschema.validate(m, json.load(open('/root/.vp/MANIFEST.schema.json')))
print('MANIFEST ok:', len(checks), 'checks,', len(na), 'not applicable')
