#!/bin/bash
# run every registered check once (quick by default) and summarise
cd "$(dirname "$0")/.."
TIER=${1:-quick}
for id in $(.venv/bin/python -c "import json; print(' '.join(c['property_id'] for c in json.load(open('MANIFEST.json'))['checks']))"); do
  /usr/bin/time -f "%es" ./check $id --tier $TIER 2>&1 | grep -E "tier=$TIER|VIOLATION|UNDECIDED|CHECKER-ERROR|^[0-9.]+s$" | cut -c1-220
done
