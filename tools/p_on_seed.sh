#!/bin/bash
# tools/p_on_seed.sh <seed name> <contracts module> : deductive tier only, on a scratch copy of HEAD with the seeded patch applied
D=$(mktemp -d /tmp/pseedXXXX); git -C /repo archive HEAD | tar -x -C $D; (cd $D && git apply --unsafe-paths /verif/seeded/$1/patch.diff 2>/dev/null || patch -p1 -s < /verif/seeded/$1/patch.diff)
cd /verif; VERIF_REPO=$D PYTHONPATH=/verif:$D timeout 1800 .venv/bin/python -m pyvc.debug $2 2>&1 | grep -v "^dischar\|^FUNC\|^      " | cut -c1-220 | head -${3:-12}; rm -rf $D
