PROP = dict(
    id='C08', level='exploration',
    pyvc=['contracts.c04'],
    finite=['finite.regex:oal_keyword_case'],
    bounded='bounded.c08',
    bounded_budget=dict(quick=45, thorough=420),
    assumptions=[],
    trusted_base=['z3 5.1 / cvc5 1.0.3', 'pyvc symbolic executor and its encoding of Python (DESIGN.md section 2.3)', 'CPython 3.12, PLY 3.11 (A-PLY)'],
    manifest=dict(text='Deductive core (tier P, 60 obligations): the interpreter handlers read keyword-bearing text only through lower()/upper() (results are functions of the case-folded text). Bounded: 24 catalogue programs x every keyword in 3 spellings, plus C04 programs in 2-5 casings: same parse tree, same interpreted result and final model, same prebuilt instances apart from recorded source text.',
                  note='PLY (A-PLY).',
                  technique='bounded stand-in (run-time contracts on the real functions driven by small-scope enumeration; labelled bounded, never counted as proved) decides the property sentence; contract-based deductive verification: sidecar contracts on the real functions, verification conditions generated from the current source of /repo on every run by pyvc (Python AST -> z3/cvc5), every obligation discharged function by function for the listed kernel functions, reported separately as tier P'),
)
