PROP = dict(
    id='C15', level='exploration',
    pyvc=['contracts.c15'],
    finite=[],
    bounded='bounded.c15',
    bounded_budget=dict(quick=45, thorough=420),
    assumptions=[],
    trusted_base=['z3 5.1 / cvc5 1.0.3', 'pyvc symbolic executor and its encoding of Python (DESIGN.md section 2.3)', 'CPython 3.12, PLY 3.11 (A-PLY)'],
    manifest=dict(text='Deductive core (tier P, 45 obligations): accept_ReturnNode/BodyNode (value delivery, scope restored, self bound), Block/StatementList (order), Break/Continue/Control, While (alternation until false condition or break). Bounded: every callable kind x return form x 11 call contexts, recursion and mutual recursion across all kind pairs, random call graphs of depth <=3, enumerators/constants under every row permutation of the model file.',
                  note='PLY (A-PLY); pure callees inside where clauses.',
                  technique='bounded stand-in (run-time contracts on the real functions driven by small-scope enumeration; labelled bounded, never counted as proved) decides the property sentence; contract-based deductive verification: sidecar contracts on the real functions, verification conditions generated from the current source of /repo on every run by pyvc (Python AST -> z3/cvc5), every obligation discharged function by function for the listed kernel functions, reported separately as tier P'),
)
