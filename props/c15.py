PROP = dict(
    id='C15', level='exploration',
    pyvc=['contracts.c15'],
    finite=[],
    bounded='bounded.c15',
    bounded_budget=dict(quick=45, thorough=420),
    assumptions=[],
    trusted_base=['z3 5.1 / cvc5 1.0.3', 'pyvc symbolic executor and its encoding of Python (DESIGN.md section 2.3)', 'CPython 3.12, PLY 3.11 (A-PLY)'],
    manifest=dict(text='Bounded: every callable kind x return form x 11 call contexts, recursion and mutual recursion across all kind pairs, random call graphs of depth <=3, enumerators/constants under every row permutation of the model file.',
                  note='PLY (A-PLY); pure callees inside where clauses.',
                  technique='bounded stand-in: run-time contracts on the real functions driven by exhaustive small-scope enumeration (labelled bounded, never counted as proved)'),
)
