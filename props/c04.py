PROP = dict(
    id='C04', level='exploration',
    pyvc=['contracts.c04'],
    finite=[],
    bounded='bounded.c04',
    bounded_budget=dict(quick=45, thorough=420),
    assumptions=[],
    trusted_base=['z3 5.1 / cvc5 1.0.3', 'pyvc symbolic executor and its encoding of Python (DESIGN.md section 2.3)', 'CPython 3.12, PLY 3.11 (A-PLY)'],
    manifest=dict(text='Bounded: depth-1 operator applications exhaustive, every single statement x 3 populations, every control-flow nesting up to 3 statements, sampled programs up to 6 statements; result and final population compared with an independent reference evaluator over a plain relational model.',
                  note='PLY (A-PLY); type-correct, error-free programs; integer / and % on negative operands are a separate item (known finding).',
                  technique='bounded stand-in: run-time contracts on the real functions driven by exhaustive small-scope enumeration (labelled bounded, never counted as proved)'),
)
