PROP = dict(
    id='C04', level='exploration',
    pyvc=['contracts.c04'],
    finite=[],
    bounded='bounded.c04',
    bounded_budget=dict(quick=45, thorough=420),
    assumptions=[],
    trusted_base=['z3 5.1 / cvc5 1.0.3', 'pyvc symbolic executor and its encoding of Python (DESIGN.md section 2.3)', 'CPython 3.12, PLY 3.11 (A-PLY)'],
    manifest=dict(text='Deductive core (tier P, 56 obligations): binary/unary operator tables, literals, cardinality, if/elif/else, select-from, create/delete/relate/unrelate(-using) and assignment handlers of the interpreter against the language equations, children abstract. Bounded: depth-1 operator applications exhaustive, every single statement x 3 populations, every control-flow nesting up to 3 statements, sampled programs up to 6 statements; result and final population compared with an independent reference evaluator over a plain relational model.',
                  note='PLY (A-PLY); type-correct, error-free programs; integer / and % on negative operands are a separate item (known finding).',
                  technique='bounded stand-in (run-time contracts on the real functions driven by small-scope enumeration; labelled bounded, never counted as proved) decides the property sentence; contract-based deductive verification: sidecar contracts on the real functions, verification conditions generated from the current source of /repo on every run by pyvc (Python AST -> z3/cvc5), every obligation discharged function by function for the listed kernel functions, reported separately as tier P'),
)
