PROP = dict(
    id='C18', level='exploration',
    pyvc=[],
    finite=[],
    bounded='bounded.c18',
    bounded_budget=dict(quick=45, thorough=420),
    assumptions=[],
    trusted_base=['z3 5.1 / cvc5 1.0.3', 'pyvc symbolic executor and its encoding of Python (DESIGN.md section 2.3)', 'CPython 3.12, PLY 3.11 (A-PLY)'],
    manifest=dict(text='Bounded: all arrangements of 2 inputs, 3 builds, 3 mutations over 9 mutation kinds and 9 scenarios; every other metamodel and later build compared after each event.',
                  note='The user does not mutate Stmt objects or association key lists directly.',
                  technique='bounded stand-in (run-time contracts on the real functions driven by small-scope enumeration; labelled bounded, never counted as proved); no function of this property is within the reach of the deductive tier yet (reasons in DESIGN.md, build-round status)'),
)
