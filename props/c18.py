PROP = dict(
    id='C18', level='exploration',
    pyvc=['contracts.c18', ['contracts.c18b']],
    finite=['finite.frames:sql_rule_frames'],
    bounded='bounded.c18',
    bounded_budget=dict(quick=45, thorough=420),
    assumptions=[],
    trusted_base=['z3 5.1 / cvc5 1.0.3', 'pyvc symbolic executor and its encoding of Python (DESIGN.md section 2.3)', 'CPython 3.12, PLY 3.11 (A-PLY)'],
    manifest=dict(text='Deductive core (tier P, 76 obligations): the instance pass creates one instance per INSERT statement, in statement order, through the named or the positional route as the statement was written (call trace); the three schema passes of a build — ModelLoader.populate_classes, populate_unique_identifiers and populate_associations — replay exactly the accepted statements of their kind, in statement order, with the arguments of each (kind and attribute list; class, identifier name and attribute names; association number, both ends with key attributes, multiplicity, conditionality and phrase), formalize every association they define exactly once, keep earlier definitions and leave the statement list of the loader as it was (call traces of define_class / define_unique_identifier / define_association / formalize). That a rejected input leaves nothing behind for later builds rests on the frame obligations of the grammar rules (tier F, 88 syntactic obligations shared with C12: no rule function writes or leaks loader state). Whether two builds share list objects is outside the encoding (sequences are values). Bounded: all arrangements of 2 inputs, 3 builds, 3 mutations over 9 mutation kinds and 9 scenarios; every other metamodel and later build compared after each event.',
                  note='The user does not mutate Stmt objects or association key lists directly.',
                  technique='bounded stand-in (run-time contracts on the real functions driven by small-scope enumeration; labelled bounded, never counted as proved); contract-based deductive verification (pyvc) only for the four statement passes of a build (classes, identifiers, associations, instances), as call traces, reported separately as tier P; aliasing between builds cannot be expressed in the encoding (Python lists are values there) and is decided by the bounded tier'),
)
