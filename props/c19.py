PROP = dict(
    id='C19', level='proof',
    pyvc=['contracts.c19'],
    bounded=None,
    assumptions=['A-UUID: uuid.uuid4() returns fresh non-zero 128-bit values (property of the standard library, not provable)',
                 'PY-1 int = mathematical integers; PY-2 declared sorts respected by callers'],
    trusted_base=['z3 5.1 / cvc5 1.0.3', 'pyvc symbolic executor (DESIGN.md §2)', 'CPython attribute lookup order (PY-6)'],
)
