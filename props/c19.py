PROP = dict(
    id='C19', level='proof',
    pyvc=['contracts.c19'],
    bounded='bounded.c19',
    bounded_budget=dict(quick=45, thorough=420),
    assumptions=['A-UUID: uuid.uuid4() returns fresh non-zero 128-bit values (property of the standard library, not provable)',
                 'PY-1 int = mathematical integers; PY-2 declared sorts respected by callers'],
    trusted_base=['z3 5.1 / cvc5 1.0.3', 'pyvc symbolic executor (DESIGN.md §2)', 'CPython attribute lookup order (PY-6)'],
    manifest=dict(text='Proof: obligations generated from the current source of IdGenerator.*, IntegerGenerator.readfunc, MetaClass.default_value, MetaClass.new without arguments (every non-referential attribute gets its typed default, the instance is appended to the storage), MetaClass.new with positional arguments (the j-th value is what the j-th declared attribute holds, the rest keep their typed default; classes without referential attributes) and MetaClass.clone (every attribute of the copy holds the value read from the original; composition with the positional form) are discharged by z3/cvc5 for all inputs; the property sentences (1,2,3,..., peek never advances, typed defaults, unknown type rejected) are lemmas over those contracts.',
                  note='Assumes A-UUID (uuid4 freshness), the pyvc encoding of Python (DESIGN section 2.3), and that callers respect declared sorts.',
                  technique="contract-based deductive verification: sidecar contracts on the real functions, verification conditions generated from the current source of /repo on every run by pyvc (Python AST -> z3/cvc5), every obligation discharged function by function; bounded stand-in (run-time contracts on the real functions driven by small-scope enumeration; labelled bounded, never counted as proved) for the functions outside the verifier's reach, reported separately"),
)
