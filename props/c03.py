PROP = dict(
    id='C03', level='exploration',
    pyvc=['contracts.c03', ['contracts.c03b']],
    finite=[],
    bounded='bounded.c03',
    bounded_budget=dict(quick=45, thorough=420),
    assumptions=[],
    trusted_base=['z3 5.1 / cvc5 1.0.3', 'pyvc symbolic executor and its encoding of Python (DESIGN.md section 2.3)', 'CPython 3.12, PLY 3.11 (A-PLY)'],
    manifest=dict(text='Deductive core (tier P, 21 obligations): _is_null and MetaClass._is_null_value (which values count as null keys); Link.compute_lookup_key and compute_index_key return no key as soon as one component is null (variants @null-component: the exit that returns the frozenset is a named obligation proved unreachable). Bounded: loaded links compared with the key-matching rule on all multisets of rows over null/unset/zero/ordinary keys; all permutations of <=6 statements, all splits, 8 packaging layouts; API and clone routes.',
                  note='PLY, os.walk, zipfile (A-IO).',
                  technique='bounded stand-in (run-time contracts on the real functions driven by small-scope enumeration; labelled bounded, never counted as proved) decides the property sentence; contract-based deductive verification: sidecar contracts on the real functions, verification conditions generated from the current source of /repo on every run by pyvc (Python AST -> z3/cvc5), every obligation discharged function by function for the listed kernel functions, reported separately as tier P'),
)
