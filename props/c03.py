PROP = dict(
    id='C03', level='exploration',
    pyvc=[],
    finite=[],
    bounded='bounded.c03',
    bounded_budget=dict(quick=45, thorough=420),
    assumptions=[],
    trusted_base=['z3 5.1 / cvc5 1.0.3', 'pyvc symbolic executor and its encoding of Python (DESIGN.md section 2.3)', 'CPython 3.12, PLY 3.11 (A-PLY)'],
    manifest=dict(text='Bounded: loaded links compared with the key-matching rule on all multisets of rows over null/unset/zero/ordinary keys; all permutations of <=6 statements, all splits, 8 packaging layouts; API and clone routes.',
                  note='PLY, os.walk, zipfile (A-IO).',
                  technique='bounded stand-in: run-time contracts on the real functions driven by exhaustive small-scope enumeration (labelled bounded, never counted as proved)'),
)
