PROP = dict(
    id='C01', level='exploration',
    pyvc=['contracts.c01', ['contracts.c01b']],
    finite=[],
    bounded='bounded.c01',
    bounded_budget=dict(quick=45, thorough=420),
    assumptions=[],
    trusted_base=['z3 5.1 / cvc5 1.0.3', 'pyvc symbolic executor and its encoding of Python (DESIGN.md section 2.3)', 'CPython 3.12, PLY 3.11 (A-PLY)'],
    manifest=dict(text='Deductive core (tier P, 46 obligations): serialize_value, _deserialize_value, deserialize_value and their round trip per type (lemmas), Link.cardinality, serialize_association, serialize_instance (every declared attribute in declared order, written with the value read under its declared name and its declared type). Bounded: round trip and one-round fixed point over generated schemas (<=3 classes x <=3 attributes, 6 relationship shapes, 16 cardinality pairs), the value alphabet of the property, 7 serialisation routes.',
                  note='PLY (A-PLY), float formatting (A-FLOAT); identifiers R<digits> and phrases with quotes are separate items (known findings).',
                  technique='bounded stand-in (run-time contracts on the real functions driven by small-scope enumeration; labelled bounded, never counted as proved) decides the property sentence; contract-based deductive verification: sidecar contracts on the real functions, verification conditions generated from the current source of /repo on every run by pyvc (Python AST -> z3/cvc5), every obligation discharged function by function for the listed kernel functions, reported separately as tier P'),
)
