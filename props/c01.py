PROP = dict(
    id='C01', level='exploration',
    pyvc=['contracts.c01'],
    finite=[],
    bounded='bounded.c01',
    bounded_budget=dict(quick=45, thorough=420),
    assumptions=[],
    trusted_base=['z3 5.1 / cvc5 1.0.3', 'pyvc symbolic executor and its encoding of Python (DESIGN.md section 2.3)', 'CPython 3.12, PLY 3.11 (A-PLY)'],
    manifest=dict(text='Bounded: round trip and one-round fixed point over generated schemas (<=3 classes x <=3 attributes, 6 relationship shapes, 16 cardinality pairs), the value alphabet of the property, 7 serialisation routes.',
                  note='PLY (A-PLY), float formatting (A-FLOAT); identifiers R<digits> and phrases with quotes are separate items (known findings).',
                  technique='bounded stand-in: run-time contracts on the real functions driven by exhaustive small-scope enumeration (labelled bounded, never counted as proved)'),
)
