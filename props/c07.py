PROP = dict(
    id='C07', level='exploration',
    pyvc=['contracts.c07'],
    finite=['finite.lalr:oal_precedence'],
    bounded='bounded.c07',
    bounded_budget=dict(quick=45, thorough=420),
    assumptions=[],
    trusted_base=['z3 5.1 / cvc5 1.0.3', 'pyvc symbolic executor and its encoding of Python (DESIGN.md section 2.3)', 'CPython 3.12, PLY 3.11 (A-PLY)'],
    manifest=dict(text='Finite core (tier F, 261 obligations): the LALR(1) table regenerated from the grammar resolves every operator pair as the precedence table of the property demands. Deductive core (tier P, 18 obligations): the binary, unary and parenthesised expression productions build the tree that mirrors the production (left operand left, operator as written, parentheses add no node). Bounded: print->parse round trip on all operator structures of depth <=2, all 16^3 binary chains, sampled deeper trees, every statement production with random layout, comments and optional words.',
                  note='PLY driver (A-PLY); identifiers and literals lex as single tokens.',
                  technique='bounded stand-in (run-time contracts on the real functions driven by small-scope enumeration; labelled bounded, never counted as proved) decides the property sentence; finite-state obligations decided exactly on the LALR(1) table / token regular expressions regenerated from the current source, reported separately as tier F; contract-based deductive verification (pyvc) of the actions of the expression productions, reported separately as tier P'),
)
