PROP = dict(
    id='C17', level='proof',
    pyvc=['contracts.c17'],
    bounded='bounded.c17',
    bounded_budget=dict(quick=45, thorough=420),
    assumptions=[],
    trusted_base=['z3 5.1 / cvc5 1.0.3', 'pyvc symbolic executor (DESIGN.md §2)'],
    manifest=dict(text='Proof: OrderedSet.__init__ (both forms), add, discard, pop, __len__, __contains__, __iter__, __reversed__, __eq__, QuerySet.first/last and the stdlib mixins remove/__ior__ are proved against the abstract view (a duplicate-free sequence in insertion order) with the doubly linked ring as representation invariant, for every set and every element; construction from an iterable and in-place union place pairwise distinct new arrivals after the old elements in arrival order. A repository class that redefines one of the inherited mixins puts that proof outside the verified subset for the run (override guard). Bounded (separately): operation sequences cross-checked against a list model.',
                  note='hash/eq coherence of elements (PY-7); the remaining MutableSet mixins are bounded.',
                  technique="contract-based deductive verification: sidecar contracts on the real functions, verification conditions generated from the current source of /repo on every run by pyvc (Python AST -> z3/cvc5), every obligation discharged function by function; bounded stand-in (run-time contracts on the real functions driven by small-scope enumeration; labelled bounded, never counted as proved) for the functions outside the verifier's reach, reported separately"),
)
