PROP = dict(
    id='C09', level='exploration',
    pyvc=['contracts.c09'],
    finite=[],
    bounded='bounded.c09',
    bounded_budget=dict(quick=45, thorough=420),
    assumptions=[],
    trusted_base=['z3 5.1 / cvc5 1.0.3', 'pyvc symbolic executor and its encoding of Python (DESIGN.md section 2.3)', 'CPython 3.12, PLY 3.11 (A-PLY)'],
    manifest=dict(text='Deductive core (tier P, 20 obligations): select_many without operators returns the pool itself, instance by instance, in creation order (MetaClass and MetaModel forms; from the arrival-order clause of OrderedSet.__init__ proved in C17); the operator-less single-instance forms MetaClass.select_one, MetaModel.select_one (class name in any spelling) and NavOneChain.__call__ return the first element in model order or None; MetaClass.navigate across an association class reaches exactly the instances behind any link instance. Bounded: select/navigate results compared with an independent relational evaluation on every model state reachable by API histories of depth <=4/5 and on loaded states, all operator sequences up to 3, chains of length 1-4. Everything else of this property is bounded; the deductive part (apply_query_operators, NavChain) is planned in DESIGN section 5.',
                  note='Stable sort of CPython (A-SORT); the reference evaluator is written from the property text.',
                  technique='bounded stand-in (run-time contracts on the real functions driven by small-scope enumeration; labelled bounded, never counted as proved); contract-based deductive verification (pyvc) only for the operator-less single-instance forms and the hop over an association class, reported separately as tier P; the query operators, navigation chains and ordering are outside the reach of the verifier (reasons in DESIGN.md, build-round status)'),
)
