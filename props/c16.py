PROP = dict(
    id='C16', level='exploration',
    pyvc=['contracts.c16'],
    finite=[],
    bounded='bounded.c16',
    bounded_budget=dict(quick=45, thorough=420),
    assumptions=[],
    trusted_base=['z3 5.1 / cvc5 1.0.3', 'pyvc symbolic executor and its encoding of Python (DESIGN.md section 2.3)', 'CPython 3.12, PLY 3.11 (A-PLY)'],
    manifest=dict(text='Deductive core (tier P, 4 obligations): only the two guard paths of sort_reflexive (a collection that is not a QuerySet is rejected with MetaException; an empty QuerySet sorts to an empty QuerySet). Bounded: every arrangement of up to 6/7 instances into chains and rings, both phrases, every creation order; termination under a timer for arbitrary subsets.',
                  note='Orbit lemma (L-ORBIT) not needed at this level; cardinality respected on the reflexive link.',
                  technique='bounded stand-in (run-time contracts on the real functions driven by small-scope enumeration; labelled bounded, never counted as proved); contract-based deductive verification (pyvc) only for the guard paths of sort_reflexive, reported separately as tier P; the search for the opposite phrase (for/else) and the walk (nested generator with a filter closure) are outside the reach of the verifier'),
)
