PROP = dict(
    id='C12', level='exploration',
    pyvc=['contracts.c12'],
    finite=['finite.regex:sql_tokens', 'finite.lalr:sql_conflict_free', 'finite.frames:sql_rule_frames'],
    bounded='bounded.c12',
    bounded_budget=dict(quick=45, thorough=420),
    assumptions=[],
    trusted_base=['z3 5.1 / cvc5 1.0.3', 'pyvc symbolic executor and its encoding of Python (DESIGN.md section 2.3)', 'CPython 3.12, PLY 3.11 (A-PLY)'],
    manifest=dict(text='Deductive core (tier P, 6 obligations): ModelLoader.input appends exactly the statements of an accepted text, in order, and leaves `statements` as it was when the text is rejected (ParsingException), under the assumed contract of the parse() of PLY (A-PLY); that parse() does not touch the loader is discharged rule by rule: every p_*/t_* function of the loader neither writes nor leaks loader state and raises only ParsingException (tier F, 88 syntactic frame obligations on the current source). Finite core (tier F, 15 obligations): no token regex of the loader is exponentially ambiguous; the SQL grammar has no unresolved conflict. Bounded: single-edit mutants of 6 seed texts at every token position, all token sequences of length <=3/4, tokens in 15 statement contexts, arbitrary strings, input histories; only the documented exceptions, bounded time, rejected text leaves the loader unchanged.',
                  note='PLY raises from t_error/p_error and leaves the loader untouched (A-PLY).',
                  technique='bounded stand-in (run-time contracts on the real functions driven by small-scope enumeration; labelled bounded, never counted as proved) decides the property sentence; contract-based deductive verification (pyvc) of ModelLoader.input (a rejected text leaves the loader unchanged, an accepted one appends its statements) with per-rule syntactic frame obligations, reported separately as tier P/F; finite-state obligations decided exactly on the LALR(1) table / token regular expressions regenerated from the current source, reported separately as tier F'),
)
