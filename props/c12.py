PROP = dict(
    id='C12', level='exploration',
    pyvc=[],
    finite=['finite.regex:sql_tokens', 'finite.lalr:sql_conflict_free'],
    bounded='bounded.c12',
    bounded_budget=dict(quick=45, thorough=420),
    assumptions=[],
    trusted_base=['z3 5.1 / cvc5 1.0.3', 'pyvc symbolic executor and its encoding of Python (DESIGN.md section 2.3)', 'CPython 3.12, PLY 3.11 (A-PLY)'],
    manifest=dict(text='Finite core (tier F, 15 obligations): no token regex of the loader is exponentially ambiguous; the SQL grammar has no unresolved conflict. Bounded: single-edit mutants of 6 seed texts at every token position, all token sequences of length <=3/4, tokens in 15 statement contexts, arbitrary strings, input histories; only the documented exceptions, bounded time, rejected text leaves the loader unchanged.',
                  note='PLY raises from t_error/p_error and leaves the loader untouched (A-PLY).',
                  technique='bounded stand-in (run-time contracts on the real functions driven by small-scope enumeration; labelled bounded, never counted as proved) decides the property sentence; finite-state obligations decided exactly on the LALR(1) table / token regular expressions regenerated from the current source, reported separately as tier F'),
)
