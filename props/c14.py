PROP = dict(
    id='C14', level='exploration',
    pyvc=['contracts.c14'],
    finite=[],
    bounded='bounded.c14',
    bounded_budget=dict(quick=45, thorough=420),
    assumptions=[],
    trusted_base=['z3 5.1 / cvc5 1.0.3', 'pyvc symbolic executor and its encoding of Python (DESIGN.md section 2.3)', 'CPython 3.12, PLY 3.11 (A-PLY)'],
    manifest=dict(text='Deductive core (tier P, 29 obligations): get_attribute_type, is_global, get_defining_component, is_contained_in against recursive spec functions; mk_linked/subsuper/simple_association pass exactly the modelled ends, multiplicities, conditionality and phrases to define_association; _get_data_type_name; _get_related_attributes pairs referential and identifying names row by row. Bounded: every single edit (rename/retype/reorder attribute, Mult/Cond, phrases, component restriction, row order) at every site of the repository test models and synthesised class diagrams (<=3 classes, <=3 relationships, 16 cardinality combinations), compared with an independent walk of the BridgePoint model; SQL schema reload.',
                  note='R103 chains acyclic; os/zip access (A-IO).',
                  technique='bounded stand-in (run-time contracts on the real functions driven by small-scope enumeration; labelled bounded, never counted as proved) decides the property sentence; contract-based deductive verification: sidecar contracts on the real functions, verification conditions generated from the current source of /repo on every run by pyvc (Python AST -> z3/cvc5), every obligation discharged function by function for the listed kernel functions, reported separately as tier P'),
)
