PROP = dict(
    id='C20', level='exploration',
    pyvc=['contracts.c20'],
    finite=[],
    bounded='bounded.c20',
    bounded_budget=dict(quick=45, thorough=420),
    assumptions=[],
    trusted_base=['z3 5.1 / cvc5 1.0.3', 'pyvc symbolic executor and its encoding of Python (DESIGN.md section 2.3)', 'CPython 3.12, PLY 3.11 (A-PLY)'],
    manifest=dict(text='Deductive core (tier P, 21 obligations): build_core_type, get_type_name, build_user_type, get_refered_attribute produce the element structure the property names; build_type hands a data type to the builder of its subtype (core before enumeration before user-defined, nothing for any other kind). Bounded: XSD generated under every single edit of the test models and synthesised diagrams parsed back with ElementTree and compared with an independent walk (one element per contained class, one attribute per supported non-derived attribute typed by the referred base type, simple types with enumerators in modeled order).',
                  note='xml.etree writes well-formed XML for the tree it is given (A-IO).',
                  technique='bounded stand-in (run-time contracts on the real functions driven by small-scope enumeration; labelled bounded, never counted as proved) decides the property sentence; contract-based deductive verification: sidecar contracts on the real functions, verification conditions generated from the current source of /repo on every run by pyvc (Python AST -> z3/cvc5), every obligation discharged function by function for the listed kernel functions, reported separately as tier P'),
)
