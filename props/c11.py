PROP = dict(
    id='C11', level='proof',
    pyvc=['contracts.c11'],
    bounded='bounded.c11',
    bounded_budget=dict(quick=45, thorough=420),
    assumptions=['A-IO: optparse and file loading are outside the deductive part (bounded tier)', 'A-LOG: logging calls dropped'],
    trusted_base=['z3 5.1 / cvc5 1.0.3', 'pyvc symbolic executor (DESIGN.md §2)'],
    manifest=dict(text='Proof: check_link_integrity and check_association_integrity are proved, for every model and every partner count, to return the number of (instance, end) pairs outside the end multiplicity, by loop invariants over recursive spec functions.',
                  note='Callee contracts Link.navigate / select_many as stated in contracts/c02.py, contracts/c09.py; optparse and loading are outside the deductive part.',
                  technique="contract-based deductive verification: sidecar contracts on the real functions, verification conditions generated from the current source of /repo on every run by pyvc (Python AST -> z3/cvc5), every obligation discharged function by function; bounded stand-in (run-time contracts on the real functions driven by small-scope enumeration; labelled bounded, never counted as proved) for the functions outside the verifier's reach, reported separately"),
)
