PROP = dict(
    id='C11', level='proof',
    pyvc=['contracts.c11'],
    bounded='bounded.c11',
    bounded_budget=dict(quick=45, thorough=420),
    assumptions=['A-IO: optparse and file loading are outside the deductive part (bounded tier)', 'A-LOG: logging calls dropped'],
    trusted_base=['z3 5.1 / cvc5 1.0.3', 'pyvc symbolic executor (DESIGN.md §2)'],
    manifest=dict(text='Proof: check_link_integrity and check_association_integrity are proved, for every model and every partner count, to return the number of (instance, end) pairs outside the end multiplicity, by loop invariants over recursive spec functions.',
                  note='Callee contracts Link.navigate / select_many as stated in contracts/c02.py, contracts/c09.py; optparse and loading are outside the deductive part.',
                  technique='contract-based deductive verification (pyvc: ast->z3 VCs on the real source) + bounded run-time contracts for the rest'),
)
