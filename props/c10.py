PROP = dict(
    id='C10', level='proof',
    pyvc=['contracts.c10'],
    finite=[],
    bounded='bounded.c10',
    bounded_budget=dict(quick=45, thorough=420),
    assumptions=[],
    trusted_base=['z3 5.1 / cvc5 1.0.3', 'pyvc symbolic executor and its encoding of Python (DESIGN.md section 2.3)', 'CPython 3.12, PLY 3.11 (A-PLY)'],
    manifest=dict(text='Proof: Class.__getattr__/__setattr__/__delattr__, MetaClass.attribute_type and MetaModel.find_metaclass are proved, for every declared attribute list, every spelling and every stored dictionary, to address the first declared spelling and to change exactly that one stored value; the read-after-write sentence is a lemma over these contracts. Bounded: all histories of <=4 attribute writes/reads/deletes/constructor keywords under independently chosen spellings on plain, identifying and referential attributes, with relate/unrelate, serialisation and where_eq observation; class-name spellings.',
                  note='CPython attribute lookup order (PY-6).',
                  technique="contract-based deductive verification: sidecar contracts on the real functions, verification conditions generated from the current source of /repo on every run by pyvc (Python AST -> z3/cvc5), every obligation discharged function by function; bounded stand-in (run-time contracts on the real functions driven by small-scope enumeration; labelled bounded, never counted as proved) for the functions outside the verifier's reach, reported separately"),
)
