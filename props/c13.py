PROP = dict(
    id='C13', level='exploration',
    pyvc=['contracts.c13'],
    finite=['finite.regex:oal_tokens', 'finite.frames:oal_rule_raises'],
    bounded='bounded.c13',
    bounded_budget=dict(quick=45, thorough=420),
    assumptions=[],
    trusted_base=['z3 5.1 / cvc5 1.0.3', 'pyvc symbolic executor and its encoding of Python (DESIGN.md section 2.3)', 'CPython 3.12, PLY 3.11 (A-PLY)'],
    manifest=dict(text='Deductive/finite core (tiers P+F, 506 obligations): find_column, set_positional_info (node positions from the first and last symbol of the production), line/column bookkeeping of every token rule; no token regex is exponentially ambiguous; every raise statement in a rule function of the grammar raises ParseException (169 syntactic obligations, one per rule). Bounded: totality and bounded time on random strings, token sequences, single-edit mutants and growth families; positions compared with an independent tokenizer on generated programs with random layout.',
                  note='PLY span bookkeeping with tracking=1 (A-PLY).',
                  technique='bounded stand-in (run-time contracts on the real functions driven by small-scope enumeration; labelled bounded, never counted as proved) decides the property sentence; contract-based deductive verification: sidecar contracts on the real functions, verification conditions generated from the current source of /repo on every run by pyvc (Python AST -> z3/cvc5), every obligation discharged function by function for the listed kernel functions (tier P) and finite-state obligations decided exactly on the LALR(1) table / token regular expressions regenerated from the current source (tier F), reported separately'),
)
