PROP = dict(
    id='C13', level='exploration',
    pyvc=['contracts.c13'],
    finite=['finite.regex:oal_tokens'],
    bounded='bounded.c13',
    bounded_budget=dict(quick=45, thorough=420),
    assumptions=[],
    trusted_base=['z3 5.1 / cvc5 1.0.3', 'pyvc symbolic executor and its encoding of Python (DESIGN.md section 2.3)', 'CPython 3.12, PLY 3.11 (A-PLY)'],
    manifest=dict(text='Bounded: totality and bounded time on random strings, token sequences, single-edit mutants and growth families; positions compared with an independent tokenizer on generated programs with random layout.',
                  note='PLY span bookkeeping with tracking=1 (A-PLY).',
                  technique='bounded stand-in: run-time contracts on the real functions driven by exhaustive small-scope enumeration (labelled bounded, never counted as proved)'),
)
