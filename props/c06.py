PROP = dict(
    id='C06', level='exploration',
    pyvc=['contracts.c06'],
    finite=[],
    bounded='bounded.c06',
    bounded_budget=dict(quick=60, thorough=420),
    assumptions=[],
    trusted_base=['z3 5.1 / cvc5 1.0.3', 'pyvc symbolic executor and its encoding of Python (DESIGN.md section 2.3)', 'CPython 3.12, PLY 3.11 (A-PLY)'],
    manifest=dict(text='Deductive (induction over the syntax tree, one handler per case; new/relate abstracted to ghost degree counters): 46 functions of ActionPrebuilder — statement, value, variable helpers and handlers — each create instances with exactly one subtype, one block, one type, copied positions; R661, R604 and R816 chains pairwise with nothing at the ends; literal/comparison/boolean/cardinality typing. Bounded: 24 statement forms alone, nested and in pairs, plus seeded random programs in six action homes; after prebuild_action: schema multiplicity/uniqueness at the created instances, one subtype per ACT_SMT and V_VAL, R661/R816/R604 neighbour chains, positions, block membership, OAL typing of every value.',
                  note='PLY (A-PLY); name-resolved programs over the repository test model.',
                  technique='bounded stand-in (run-time contracts on the real functions driven by small-scope enumeration; labelled bounded, never counted as proved) decides the property sentence; contract-based deductive verification: sidecar contracts on the real functions, verification conditions generated from the current source of /repo on every run by pyvc (Python AST -> z3/cvc5), every obligation discharged function by function for the listed kernel functions, reported separately as tier P'),
)
