PROP = dict(
    id='C02', level='proof',
    pyvc=['contracts.c02'],
    bounded='bounded.c02',
    bounded_budget=dict(quick=45, thorough=420),
    assumptions=[],
    trusted_base=['z3 5.1 / cvc5 1.0.3', 'pyvc symbolic executor (DESIGN.md §2)'],
    manifest=dict(text='Proof: Link.connect/disconnect/navigate/navigate_one, get_metaclass, _find_link, relate and unrelate are proved, for every pair of instances and every link population, to keep the two directed links of an association mirror images, to respect single-valued ends, to change nothing when they raise (relate is atomic) and to be inverse (lemma, thorough); the pool part of delete (MetaClass.delete and xtuml.delete without disconnecting) removes exactly the instance, keeps the order of the rest and raises DeleteException without effect otherwise. Bounded (separately): API histories to depth 5 incl. delete, which is outside the proof.',
                  note='delete, MetaClass.new with referential arguments and formalize are bounded only; K1 (relate accepts a deleted instance) is a known finding.',
                  technique="contract-based deductive verification: sidecar contracts on the real functions, verification conditions generated from the current source of /repo on every run by pyvc (Python AST -> z3/cvc5), every obligation discharged function by function; bounded stand-in (run-time contracts on the real functions driven by small-scope enumeration; labelled bounded, never counted as proved) for the functions outside the verifier's reach, reported separately"),
)
