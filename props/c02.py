PROP = dict(
    id='C02', level='proof',
    pyvc=['contracts.c02'],
    bounded='bounded.c02',
    bounded_budget=dict(quick=45, thorough=420),
    assumptions=[],
    trusted_base=['z3 5.1 / cvc5 1.0.3', 'pyvc symbolic executor (DESIGN.md §2)'],
    manifest=dict(text='TODO', note='TODO', technique='contract-based deductive verification (pyvc)'),
)
