"""C08 (bounded tier): OAL keywords are case-insensitive in parsing, execution and prebuild.

Relational contract between two runs of the real code on two texts that differ only in the letter case of keyword
occurrences (the lower-case text is the base line):
  parse-same-tree          bridgepoint.oal.parse gives structurally equal trees (node classes and all fields except the recorded
                           source text / positions; the keyword-text fields cardinality / operator / boolean value and the
                           raw text of the keyword self kept in a name field compared case-insensitively)
  interpret-same-result    bridgepoint.interpret.run_function gives the same result and the same final population
  prebuild-same-instances  bridgepoint.prebuild.prebuild_action creates the same instances (all attribute values, identifiers
                           compared up to renaming) except the recorded source text ACT_SMT.Label
When re-spelling a single keyword occurrence reproduces a violation, the clause is reported as '<clause>:<keyword>'
(e.g. interpret-same-result:many), so that one keyword's finding does not hide another's behind the per-clause cap.

Programs: C04's program spaces (bounded/_c04_gen.py), printed in the plain style and in the 'verbose' style that also uses
the optional keywords assign / then / loop.  Spellings per keyword occurrence: lower, UPPER, Capitalised, mixed.
Item observable-operands: and / or / not over operands whose evaluation is observable (invocations of functions, bridges,
class and instance operations of the C04 model that leave a trace in the population, expressions that raise) in assignments,
conditions, where clauses, arguments.  Item invocation-bodies: C15's models (bounded/_c15_gen.py) with the keywords of all
action bodies re-spelled; this also varies self, param, transform and bridge.
Not varied: send, generate and the event keywords (they need state machine bodies, outside the C04 / C15 program spaces - ctx.note).
"""
import random

import vlib.fresh_ply  # noqa: F401
from vlib.bounded import item
import xtuml
from bridgepoint import oal, prebuild

from bounded import _c04_gen as G
from bounded import _c15_gen as C
from bounded import ref_oal as R
from bounded import c04 as C04

STANDS = ['bridgepoint.oal.OALParser.t_ID', 'bridgepoint.oal.parse', 'bridgepoint.interpret.run_function',
          'bridgepoint.interpret.ActionWalker.accept_SelectFromNode', 'bridgepoint.interpret.ActionWalker.accept_SelectFromWhereNode',
          'bridgepoint.interpret.ActionWalker.accept_SelectRelatedNode', 'bridgepoint.interpret.ActionWalker.accept_SelectRelatedWhereNode',
          'bridgepoint.prebuild.prebuild_action']
NOTE = ('non-trivial cases = (program accepted by the reference evaluator, non-empty re-spelling) pairs; '
        'keywords send / generate / event keywords are not varied (outside the C04 / C15 program spaces); self, param, transform, bridge are '
        'varied in item invocation-bodies only; programs are C04 programs (C15 cases in invocation-bodies) the reference evaluator accepts on the population used')
SPELLINGS = ('upper', 'capital', 'mixed')


def spell(word, how, salt=0):
    if how == 'lower':
        return word
    if how == 'upper':
        return word.upper()
    if how == 'capital':
        return word[0].upper() + word[1:]
    r = random.Random('%s/%d' % (word, salt))
    out = ''.join(c.upper() if r.random() < 0.5 else c for c in word)
    if out == word or out == word.upper():         # make sure it is really mixed (one-letter words cannot be)
        out = word[:-1] + word[-1].upper() if len(word) > 1 else word.upper()
    return out


def casing_fn(casing):
    """casing: dict keyword-occurrence-index (str or int) -> spelled keyword; occurrences not listed stay lower-case."""
    c = dict((int(k), v) for k, v in casing.items())
    return lambda i, kw: c.get(i, kw)


def casing_all(tree, style, how, salt=0):
    n = 0
    out = {}
    for p in R.pieces(tree, style):
        if isinstance(p, R.K):
            out[n] = spell(str(p), how, salt + n)
            n += 1
    return out


# ------------------------------------------------------------------------------------------------- clause (a)
TEXT_FIELDS = ('position', 'character_stream')
KEYWORD_FIELDS = ('cardinality', 'operator')


def tree_diff(x, y, path='root'):
    """None when the two parse trees are structurally equal, else a description of the first difference."""
    if type(x) is not type(y):
        return '%s: %s vs %s' % (path, type(x).__name__, type(y).__name__)
    if isinstance(x, oal.Node):
        names = set(n for o in (x, y) for n in vars(o)) - set(TEXT_FIELDS)
        for n in sorted(names):
            a, b = getattr(x, n, None), getattr(y, n, None)
            if isinstance(a, str) and isinstance(b, str) and (n in KEYWORD_FIELDS or (n == 'value' and isinstance(x, oal.BooleanNode))):
                a, b = a.lower(), b.lower()
            elif isinstance(a, str) and isinstance(b, str) and a.lower() == b.lower() == 'self':
                a, b = a.lower(), b.lower()         # the raw text of the keyword self kept in a name field (delete / relate / unrelate)
            d = tree_diff(a, b, '%s/%s.%s' % (path, type(x).__name__, n))
            if d:
                return d
        return None
    if isinstance(x, (list, tuple)):
        if len(x) != len(y):
            return '%s: %d vs %d children' % (path, len(x), len(y))
        for i, (a, b) in enumerate(zip(x, y)):
            d = tree_diff(a, b, '%s[%d]' % (path, i))
            if d:
                return d
        return None
    return None if x == y else '%s: %r vs %r' % (path, x, y)


def parse(text):
    try:
        return oal.parse(text), None
    except Exception as e:
        return None, '%s: %s' % (type(e).__name__, e)


# ------------------------------------------------------------------------------------------------- clause (b)
def canon_run(result, snap, err, sch=None):
    """Result + final population of a real run with generated identifiers renamed in order of appearance."""
    sch = sch or G.schema()
    if err:
        return dict(error=err.split(':')[0])
    names = {}

    def val(v):
        if isinstance(v, int) and not isinstance(v, bool) and v > 10 ** 9:
            return names.get(v, 'some generated id')
        return v
    for cls in sorted(snap['instances']):          # names of the generated identifiers, in order of appearance
        for i, r in enumerate(snap['instances'][cls]):
            for a in sch.classes[cls]:
                if a.kind == 'id' and isinstance(r.get(a.name), int) and r[a.name] > 10 ** 9:
                    names.setdefault(r[a.name], '%s[%d].%s' % (cls, i, a.name))
    inst = dict((cls, [dict((k, val(v)) for k, v in r.items()) for r in snap['instances'][cls]]) for cls in sorted(snap['instances']))
    return dict(result=val(result), instances=inst, links=dict((k, [list(t) for t in v]) for k, v in snap['links'].items()))


def interpret(text, pop, params):
    result, snap, err = G.run_real(text, pop, params)
    return canon_run(result, snap, err)


# ------------------------------------------------------------------------------------------------- clause (c)
IGNORED_ATTRIBUTES = {('ACT_SMT', 'Label')}     # the recorded source text of a statement


def prebuilt(text):
    """Instances created by prebuild_action for function `prog` with this body, as comparable plain data."""
    mm = G.bp_loader().build_metamodel()
    before = set(id(i) for i in mm.instances)
    s_sync = mm.select_any('S_SYNC', xtuml.where_eq(Name='prog'))
    s_sync.Action_Semantics_internal = text
    try:
        G.with_timeout(lambda: prebuild.prebuild_action(s_sync), 10.0)
    except G.Timeout:
        return dict(error='timeout')
    except Exception as e:
        return dict(error='%s' % type(e).__name__)
    created = {}
    names = {}
    for kind in sorted(mm.metaclasses):
        mc = mm.metaclasses[kind]
        new = [i for i in mc.storage if id(i) not in before]
        if not new:
            continue
        created[mc.kind] = (mc, new)
        for n, inst in enumerate(new):
            for name, ty in mc.attributes:
                if ty.upper() == 'UNIQUE_ID' and name not in mc.referential_attributes:
                    names.setdefault(getattr(inst, name), '%s[%d]' % (mc.kind, n))
    out = {}
    for kind, (mc, new) in created.items():
        rows = []
        for inst in new:
            row = {}
            for name, ty in mc.attributes:
                if (kind, name) in IGNORED_ATTRIBUTES:
                    continue
                v = getattr(inst, name)
                if ty.upper() == 'UNIQUE_ID':
                    v = names.get(v, v)
                row[name] = v
            rows.append(row)
        out[kind] = rows
    return out


def prebuilt_diff(a, b):
    if 'error' in a or 'error' in b:
        return None if a == b else 'prebuild of the variant: %s; of the lower-case text: %s' % (b.get('error', 'ok'), a.get('error', 'ok'))
    for kind in sorted(set(a) | set(b)):
        ra, rb = a.get(kind, []), b.get(kind, [])
        if len(ra) != len(rb):
            return '%d %s instances vs %d' % (len(rb), kind, len(ra))
        for i, (x, y) in enumerate(zip(ra, rb)):
            for name in x:
                if x[name] != y.get(name):
                    return '%s[%d].%s = %r vs %r' % (kind, i, name, y.get(name), x[name])
    return None


# ------------------------------------------------------------------------------------------------- one program
class Base(object):
    """The lower-case text of one program with its parse tree, runs and prebuilt instances (computed on demand)."""

    def __init__(self, tree, style, pops, params):
        self.tree, self.style, self.pops, self.params = tree, style, pops, params
        self.text = R.render(tree, style)
        self.ast, self.parse_error = parse(self.text)
        self._runs, self._prebuilt = {}, None

    def run(self, pop):
        if pop not in self._runs:
            self._runs[pop] = interpret(self.text, pop, self.params)
        return self._runs[pop]

    def prebuilt(self):
        if self._prebuilt is None:
            self._prebuilt = prebuilt(self.text)
        return self._prebuilt


def compare(base, casing, clauses=('parse-same-tree', 'interpret-same-result', 'prebuild-same-instances')):
    """Violated clauses [(clause, observed, required)] of one case variant against the base line."""
    text = R.render(base.tree, base.style, casing_fn(casing))
    out = []
    if 'parse-same-tree' in clauses:
        ast, err = parse(text)
        d = err if err else (None if base.parse_error else tree_diff(base.ast, ast))
        if base.parse_error and not err:
            d = 'the variant parses, the lower-case text does not: %s' % base.parse_error
        if d and not (base.parse_error and err):
            out.append(('parse-same-tree', d, 'the tree of the lower-case text'))
    if 'interpret-same-result' in clauses:
        for pop in base.pops:
            a, b = base.run(pop), interpret(text, pop, base.params)
            if a != b:
                diff = dict((k, b.get(k)) for k in set(a) | set(b) if a.get(k) != b.get(k))
                out.append(('interpret-same-result', dict(population=pop, differs=diff), dict((k, a.get(k)) for k in diff)))
                break
    if 'prebuild-same-instances' in clauses:
        d = prebuilt_diff(base.prebuilt(), prebuilt(text))
        if d:
            out.append(('prebuild-same-instances', d, 'the instances prebuilt from the lower-case text, apart from ACT_SMT.Label'))
    return out, text


def shrink(base, casing, clause):
    """Halve the set of re-spelled keyword occurrences while the clause stays violated."""
    cur = dict(casing)
    hit = None
    while len(cur) > 1:
        keys = sorted(cur)
        for part in (keys[:len(keys) // 2], keys[len(keys) // 2:]):
            cand = dict((k, cur[k]) for k in part)
            res, text = compare(base, cand, (clause,))
            if res:
                cur, hit = cand, (res[0][1], text)
                break
        else:
            break
    return cur, hit


def in_domain_pops(tree, params, pops, lenient=False):
    """Populations on which the program is type-correct and error-free.  lenient (programs with invocations in operands and
    where clauses): under at least one of the two readings of and/or (both operands evaluated / right operand skipped when
    the left one settles the outcome), side effects of operands and where clauses allowed - the relation between the case
    variants of one program does not depend on the reading."""
    out = []
    for pop in pops:
        for logic in (('eager', 'short') if lenient else ('strict',)):
            try:
                G.run_reference(tree, pop, params=params, logic=logic, where_effects=lenient)
                out.append(pop)
                break
            except R.OutOfDomain:
                pass
    return out


MAX_SHRINKS = 4


ALL_CLAUSES = ('parse-same-tree', 'interpret-same-result', 'prebuild-same-instances')


def check_program(ctx, tree, style, casings, params=None, pops=('rich',), counts=None, lenient=False, clauses=ALL_CLAUSES):
    """Compare every casing of one program with its lower-case text.  A failing casing is reduced (by halving) to as few
    re-spelled keyword occurrences as reproduce the clause; when a single keyword is left its name is appended to the clause."""
    pops = in_domain_pops(tree, params, pops, lenient)
    if not pops:
        ctx.case(key=None, nontrivial=False)
        return
    base = Base(tree, style, pops, params)
    kws = [str(p) for p in R.pieces(tree, style) if isinstance(p, R.K)]
    for casing in casings:
        if ctx.expired():
            return
        ctx.case(key=[base.text, sorted(casing.items())], nontrivial=bool(casing))
        res, text = compare(base, casing, clauses)
        for clause, observed, required in res:
            small, small_text, small_obs = casing, text, observed
            for w in (counts or {}).get('culprits', {}).get(clause, []):      # a keyword that was singled out before: one more comparison
                cand = dict((i, v) for i, v in casing.items() if kws[int(i)] == w)
                if cand and len(cand) < len(casing):
                    r2, t2 = compare(base, cand, (clause,))
                    if r2:
                        small, small_text, small_obs = cand, t2, r2[0][1]
                        break
            if len(set(kws[int(i)] for i in small)) == 1:
                pass
            elif counts is not None and counts.get(clause, 0) < MAX_SHRINKS and len(casing) > 1 and not C04.soft_expired(ctx, 0.9):
                counts[clause] = counts.get(clause, 0) + 1
                small, hit = shrink(base, casing, clause)
                if hit:
                    small_obs, small_text = hit
            words = set(kws[int(i)] for i in small)
            if len(words) == 1:
                w = words.pop()
                if counts is not None and w not in counts.setdefault('culprits', {}).setdefault(clause, []):
                    counts['culprits'][clause].append(w)
                clause = '%s:%s' % (clause, w)
            ctx.check(False, clause=clause,
                      input=dict(tree=tree, style=style, casing=dict((str(k), v) for k, v in small.items()), oal=small_text,
                                 oal_lower=base.text, populations=list(pops), params=params or {}, lenient=lenient, clauses=list(clauses),
                                 population_rows=dict((q, G.POPULATIONS[q]) for q in pops)),
                      observed=small_obs, required=required)


def all_casings(tree, style, salt=0):
    return [casing_all(tree, style, how, salt) for how in SPELLINGS]


def per_keyword_mix(tree, style, rng):
    """Every keyword occurrence draws its own spelling (lower / UPPER / Capitalised / mixed)."""
    out = {}
    n = 0
    for p in R.pieces(tree, style):
        if isinstance(p, R.K):
            how = rng.choice(('lower',) + SPELLINGS)
            if how != 'lower':
                out[n] = spell(str(p), how, rng.randrange(1000))
            n += 1
    return out


# ------------------------------------------------------------------------------------------------- items
def _catalogue():
    """Small programs that together contain every keyword of the C04 language (and param)."""
    x, y, p = ['var', 'x'], ['var', 'y'], ['var', 'p']
    a1i = ['attr', ['var', 'a1'], 'i']
    sel_i = ['attr', ['selected'], 'i']
    return [
        [['selfrom', 'many', 'as1', 'A', None], ['return', ['un', 'cardinality', ['var', 'as1']]]],
        [['selfrom', 'any', 'a1', 'A', None], ['return', a1i]],
        [['selfrom', 'many', 'as1', 'A', ['bin', '>', sel_i, ['int', 1]]], ['return', ['un', 'cardinality', ['var', 'as1']]]],
        [['selfrom', 'any', 'a1', 'A', ['bin', 'and', ['bin', '>', sel_i, ['int', 1]], ['attr', ['selected'], 'b']]], ['return', a1i]],
        [['selfrom', 'any', 'a1', 'A', None], ['selrel', 'many', 'bs1', ['var', 'a1'], [['B', 'R1', None]], None],
         ['return', ['un', 'cardinality', ['var', 'bs1']]]],
        [['selfrom', 'any', 'a1', 'A', None], ['selrel', 'any', 'b1', ['var', 'a1'], [['B', 'R1', None]], ['bin', '>', ['attr', ['selected'], 'n'], ['int', 10]]],
         ['return', ['attr', ['var', 'b1'], 'n']]],
        [['selfrom', 'any', 'a1', 'A', None], ['selrel', 'many', 'bs1', ['var', 'a1'], [['B', 'R1', None]], ['bin', '>', ['attr', ['selected'], 'n'], ['int', 10]]],
         ['return', ['un', 'cardinality', ['var', 'bs1']]]],
        [['selfrom', 'any', 'a1', 'A', None], ['selrel', 'one', 'a2', ['var', 'a1'], [['A', 'R3', 'follows']], None], ['return', ['attr', ['var', 'a2'], 'i']]],
        [['selfrom', 'many', 'as1', 'A', None], ['selrel', 'many', 'bs1', ['var', 'as1'], [['B', 'R4', None]], None],
         ['selrel', 'any', 'l1', ['var', 'as1'], [['L', 'R4', None]], None],
         ['return', ['bin', '+', ['un', 'cardinality', ['var', 'bs1']], ['attr', ['var', 'l1'], 'w']]]],
        [['assign', x, ['int', 1]],
         ['if', ['bin', '==', x, ['int', 2]], [['assign', x, ['int', 10]]], [[['bin', '==', x, ['int', 1]], [['assign', x, ['int', 20]]]]], [['assign', x, ['int', 30]]]],
         ['return', x]],
        [['assign', x, ['int', 3]], ['if', ['bool', False], [['assign', x, ['int', 10]]], [], [['assign', x, ['int', 30]]]], ['return', x]],
        [['assign', x, ['int', 0]], ['assign', y, ['int', 0]],
         ['while', ['bin', '<', x, ['int', 5]], [['assign', x, ['bin', '+', x, ['int', 1]]], ['if', ['bin', '==', x, ['int', 2]], [['continue']], [], None],
                                                  ['if', ['bin', '==', x, ['int', 4]], [['break']], [], None], ['assign', y, ['bin', '+', y, x]]]],
         ['return', y]],
        [['selfrom', 'many', 'as1', 'A', None], ['assign', x, ['int', 0]],
         ['for', 'a1', 'as1', [['if', ['bin', '==', ['attr', ['var', 'a1'], 'i'], ['int', 2]], [['continue']], [], None],
                               ['assign', x, ['bin', '+', x, ['attr', ['var', 'a1'], 'i']]]]],
         ['return', x]],
        [['selfrom', 'many', 'as1', 'A', None], ['assign', x, ['int', 0]],
         ['for', 'a1', 'as1', [['assign', x, ['bin', '+', x, ['int', 1]]], ['break']]], ['return', x]],
        [['create', 'a1', 'A'], ['create', None, 'B'], ['assign', ['attr', ['var', 'a1'], 'i'], ['int', 7]], ['return', ['attr', ['var', 'a1'], 'i']]],
        [['create', 'a1', 'A'], ['delete', 'a1'], ['selfrom', 'many', 'as1', 'A', None], ['return', ['un', 'cardinality', ['var', 'as1']]]],
        [['create', 'a1', 'A'], ['create', 'b1', 'B'], ['relate', 'a1', 'b1', 'R1', None, None], ['selrel', 'one', 'a2', ['var', 'b1'], [['A', 'R1', None]], None],
         ['unrelate', 'b1', 'a1', 'R1', None, None], ['selrel', 'one', 'a1', ['var', 'b1'], [['A', 'R1', None]], None],
         ['return', ['bin', 'and', ['un', 'not_empty', ['var', 'a2']], ['un', 'empty', ['var', 'a1']]]]],
        [['create', 'a1', 'A'], ['create', 'a2', 'A'], ['relate', 'a1', 'a2', 'R3', 'follows', None], ['selrel', 'one', 'a1', ['var', 'a2'], [['A', 'R3', 'leads']], None],
         ['unrelate', 'a1', 'a2', 'R3', 'follows', None], ['return', ['un', 'not', ['un', 'empty', ['var', 'a1']]]]],
        [['create', 'a1', 'A'], ['create', 'b1', 'B'], ['create', 'l1', 'L'], ['relate', 'a1', 'b1', 'R4', None, 'l1'],
         ['selrel', 'many', 'bs1', ['var', 'a1'], [['B', 'R4', None]], None], ['unrelate', 'a1', 'b1', 'R4', None, 'l1'],
         ['return', ['un', 'cardinality', ['var', 'bs1']]]],
        [['assign', p, ['bin', 'or', ['bool', True], ['bool', False]]], ['assign', ['var', 'q'], ['bin', 'and', p, ['un', 'not', ['bool', False]]]],
         ['return', ['bin', '==', p, ['var', 'q']]]],
        [['assign', x, ['bin', '+', ['param', 'n'], ['int', 1]]], ['if', ['bin', '>', x, ['int', 0]], [['stop']], [], None], ['return', x]],
        [['selfrom', 'any', 'a1', 'A', ['bin', '==', sel_i, ['param', 'n']]], ['return', ['un', 'not_empty', ['var', 'a1']]]],
        [['return', ['bool', True]]], [['return', ['bool', False]]],
    ]


@item('per-keyword', stands_in_for=STANDS, shards=6, weight=2,
      bound='24 catalogue programs containing every keyword of the C04 language and param (select any many one from instances of related by '
            'where if elif else end while for each in break continue return create object instance delete relate unrelate to from across using '
            'not empty not_empty cardinality true false and or control stop selected param; verbose style adds assign then loop), each keyword '
            '(all its occurrences, the other keywords lower-case) in UPPER / Capitalised / mixed case, and all keywords together; exhaustive')
def per_keyword(ctx):
    if ctx.shard == 0:
        ctx.note(NOTE)
    counts = {}
    n = 0
    for tree in _catalogue():
        for style in ({}, {'verbose': 1}):
            kws = [str(p) for p in R.pieces(tree, style) if isinstance(p, R.K)]
            casings = [dict((i, spell(w, how, i)) for i, k in enumerate(kws) if k == w) for w in sorted(set(kws)) for how in SPELLINGS]
            casings += all_casings(tree, style)
            n += 1
            if n % ctx.nshards != ctx.shard:
                continue
            if ctx.expired():
                ctx.exhausted = False
                return
            check_program(ctx, tree, style, casings, params={'n': 2}, pops=('rich',), counts=counts)
    ctx.exhausted = True


def _spaces(ctx):
    import random as _r
    single = list(G.enumerate_all(C04._build_single(dict(depth=0, ints=[0, 2], strs=['x'], chain=1, elifs=[0], where=0.5))))
    _r.Random(8).shuffle(single)
    control = list(G.enumerate_all(C04._build_control(3)))
    _r.Random(8).shuffle(control)
    return single, control


def _two_casings(ctx, tree, style, n):
    """One of UPPER / Capitalised / mixed for all keywords (rotating with n) and one random per-keyword mix."""
    return [casing_all(tree, style, SPELLINGS[n % 3], n), per_keyword_mix(tree, style, ctx.rng)]


@item('single-statements', stands_in_for=STANDS, shards=2, weight=2,
      bound="C04's single-statement space (prelude + one statement + observation epilogue; 3007 programs) in fixed shuffled order, each program "
            'with all keywords in one of UPPER / Capitalised / mixed (rotating) and one random per-keyword mix, plain and verbose style '
            'alternating; population rich; as far as the time budget allows')
def single_statements(ctx):
    if ctx.shard == 0:
        ctx.note(NOTE)
    single, _ = _spaces(ctx)
    counts = {}
    for n, tree in enumerate(single):
        if n % ctx.nshards != ctx.shard:
            continue
        if ctx.expired():
            ctx.exhausted = False
            return
        style = {'verbose': 1} if (n // ctx.nshards) % 2 else {}
        check_program(ctx, tree, style, _two_casings(ctx, tree, style, n // ctx.nshards), pops=('rich',), counts=counts)
    ctx.exhausted = True


@item('control-flow', stands_in_for=STANDS, shards=1, weight=2,
      bound="C04's control-flow space (20475 programs of <= 3 statements) in fixed shuffled order, each with all keywords in one of UPPER / "
            'Capitalised / mixed (rotating) and one random per-keyword mix, plain and verbose style alternating; population rich; as far as '
            'the time budget allows')
def control_flow(ctx):
    if ctx.shard == 0:
        ctx.note(NOTE)
    _, control = _spaces(ctx)
    counts = {}
    for n, tree in enumerate(control):
        if n % ctx.nshards != ctx.shard:
            continue
        if ctx.expired():
            ctx.exhausted = False
            return
        style = {'verbose': 1} if (n // ctx.nshards) % 2 else {}
        check_program(ctx, tree, style, _two_casings(ctx, tree, style, n // ctx.nshards), pops=('rich',), counts=counts)
    ctx.exhausted = True


@item('programs-sampled', stands_in_for=STANDS, shards=3, weight=2,
      bound="C04's random programs (up to 3 statements / depth 2 quick, 6 statements / depth 3 thorough), plain and verbose style, each with all "
            'keywords UPPER / Capitalised / mixed and two random per-keyword mixes; populations rich, sparse, empty; every other pair of programs has '
            'invocations with observable effects (the helpers of item observable-operands) in a quarter of its integer / boolean expressions '
            '(operands, conditions, where clauses); sampled until 80% of the budget')
def programs_sampled(ctx):
    if ctx.shard == 0:
        ctx.note(NOTE)
    prof = dict(depth=2, chain=2) if ctx.quick else dict(depth=3, chain=3)
    counts = {}
    n = 0
    while not C04.soft_expired(ctx):
        n += 1
        calls = n % 4 >= 2          # every other pair of programs: invocations with observable effects anywhere an expression stands
        g = G.Gen(G.RandomChooser(ctx.rng), dict(prof, helper_calls=0.25) if calls else prof)
        tree = g.program(ctx.rng.randint(1, 3 if ctx.quick else 6))
        style = {'verbose': 1} if n % 2 else {}
        casings = all_casings(tree, style, n) + [per_keyword_mix(tree, style, ctx.rng), per_keyword_mix(tree, style, ctx.rng)]
        check_program(ctx, tree, style, casings, pops=tuple(G.POP_NAMES), counts=counts, lenient=calls)
    ctx.exhausted = False


# ------------------------------------------------------------------------------------------------- observable operands
# Programs in which the evaluation of an operand is observable: the operand is an invocation that leaves a trace in the
# population (bounded/_c04_gen.HELPERS: function fb / bridge EX::bb / class operation A::cb create a B tagged with n and
# return c; instance operation ib adds n to self.i and returns c; fi returns its integer) or an expression that raises
# (attribute of the empty handle a0).  Whatever an interpreter does with such operands (evaluate both operands of and/or,
# or skip the right one when the left one settles the outcome), it has to do the same in every spelling of the keywords.
T_, F_ = ['bool', True], ['bool', False]
OPERAND_PRELUDE = [['selfrom', 'any', 'a1', 'A', None], ['selfrom', 'any', 'a0', 'A', ['bin', '>', ['attr', ['selected'], 'i'], ['int', 5]]],
                   ['selfrom', 'many', 'as1', 'A', None], ['assign', ['var', 'p'], T_], ['assign', ['var', 'q'], F_],
                   ['assign', ['var', 'x'], ['int', 1]], ['assign', ['var', 'm'], ['int', 0]]]
OPERAND_KINDS = ('function', 'bridge', 'cop', 'iop')
OPERAND_CONTEXTS = ('assign', 'return', 'if', 'elif', 'while', 'for-body', 'where-from', 'where-related', 'argument', 'attribute', 'not')


def hcall(kind, c, n):
    args = [['c', ['bool', c]], ['n', ['int', n]]]
    if kind == 'function':
        return ['fcall', 'fb', args]
    if kind == 'bridge':
        return ['bcall', 'EX', 'bb', args[::-1]]
    if kind == 'cop':
        return ['ccall', 'A', 'cb', args]
    return ['icall', ['var', 'a1'], 'ib', args]


def left_operands():
    for t in (False, True):
        yield 'literal', t, ['bool', t]
        yield 'variable', t, ['var', 'p' if t else 'q']
        yield 'comparison', t, ['bin', '<' if t else '>', ['var', 'x'], ['int', 2]]
        yield 'invocation', t, hcall('function', t, 1)


def right_operands():
    for kind in OPERAND_KINDS:
        for c in (True, False):
            yield '%s-invocation' % kind, hcall(kind, c, 2)
    for c in (True, False):
        yield 'negated-invocation', ['un', 'not', hcall('function', c, 2)]
    yield 'compared-invocation', ['bin', '==', ['fcall', 'fi', [['n', ['int', 2]]]], ['int', 2]]
    yield 'compared-invocation', ['bin', '!=', ['fcall', 'fi', [['n', ['int', 2]]]], ['int', 2]]
    yield 'raising', ['bin', '>', ['attr', ['var', 'a0'], 'i'], ['int', 0]]
    yield 'nested', ['bin', 'and', hcall('function', True, 2), hcall('bridge', False, 3)]
    yield 'nested', ['bin', 'or', hcall('cop', False, 2), hcall('function', True, 3)]


def operand_expressions(core=False):
    """Boolean expressions `L and/or R` whose operands are observable, then chains of three operands in both groupings."""
    out = []
    for lname, t, left in left_operands():
        if core and lname != 'literal':
            continue
        for op in ('and', 'or'):
            for rname, right in right_operands():
                if core and rname not in ('function-invocation', 'raising'):
                    continue
                out.append(['bin', op, left, right])
    if core:
        return out
    for t in (False, True):
        for op1 in ('and', 'or'):
            for op2 in ('and', 'or'):
                for c1 in (False, True):
                    for c2 in (False, True):
                        out.append(['bin', op2, ['bin', op1, ['bool', t], hcall('function', c1, 2)], hcall('cop', c2, 3)])
                        out.append(['bin', op1, ['bool', t], ['bin', op2, hcall('bridge', c1, 2), hcall('function', c2, 3)]])
    return out


def _where_form(e):
    """Inside a where clause the left operand also reads the candidate: (selected.<boolean> and/or R)."""
    return e


def operand_program(e, context):
    """A program that evaluates the boolean expression e in the given context and returns what it computed; the traces of
    the invocations stay in the final population."""
    M, C, RV = ['var', 'm'], ['var', 'c'], ['var', 'r']
    inc = ['assign', M, ['bin', '+', M, ['int', 1]]]
    if context == 'assign':
        mid = [['assign', RV, e], ['return', RV]]
    elif context == 'return':
        mid = [['return', e]]
    elif context == 'if':
        mid = [['if', e, [['assign', M, ['int', 1]]], [], [['assign', M, ['int', 2]]]], ['return', M]]
    elif context == 'elif':
        mid = [['if', F_, [['assign', M, ['int', 9]]], [[e, [['assign', M, ['int', 1]]]], [T_, [['assign', M, ['int', 2]]]]], [['assign', M, ['int', 3]]]],
               ['return', M]]
    elif context == 'while':
        mid = [['assign', C, ['int', 0]],
               ['while', e, [['assign', C, ['bin', '+', C, ['int', 1]]], ['if', ['bin', '>=', C, ['int', 2]], [['break']], [], None]]], ['return', C]]
    elif context == 'for-body':
        mid = [['for', 'e1', 'as1', [['if', e, [inc], [], None]]], ['return', M]]
    elif context == 'where-from':
        w = ['bin', e[1], ['bin', '==', ['attr', ['selected'], 'b'], e[2]], e[3]] if e[2][0] != 'bin' else e
        mid = [['selfrom', 'many', 'as2', 'A', w], ['return', ['un', 'cardinality', ['var', 'as2']]]]
    elif context == 'where-related':
        w = ['bin', e[1], ['bin', 'or', ['bin', '>', ['attr', ['selected'], 'n'], ['int', 10]], e[2]], e[3]]
        mid = [['selrel', 'any', 'b1', ['var', 'a1'], [['B', 'R1', None]], w], ['return', ['un', 'not_empty', ['var', 'b1']]]]
    elif context == 'argument':
        mid = [['assign', RV, ['fcall', 'fb', [['n', ['int', 7]], ['c', e]]]], ['call', ['fcall', 'fv', [['n', ['int', 8]]]]], ['return', RV]]
    elif context == 'attribute':
        mid = [['assign', ['attr', ['var', 'a1'], 'b'], e], ['return', ['attr', ['var', 'a1'], 'b']]]
    elif context == 'not':
        mid = [['assign', RV, ['un', 'not', e]], ['return', ['bin', '==', RV, ['var', 'q']]]]
    else:
        raise KeyError(context)
    return OPERAND_PRELUDE + mid


def operand_programs(quick):
    """quick: the core expressions (literal left operand x and/or x {function invocation true / false, raising}) in every context,
    then every expression in one context (rotating); thorough: every expression in every context."""
    out, seen = [], set()

    def add(e, context):
        tree = operand_program(e, context)
        key = R.render(tree)
        if key not in seen:
            seen.add(key)
            out.append(tree)
    for context in OPERAND_CONTEXTS:
        for e in operand_expressions(core=True):
            add(e, context)
    every = operand_expressions()
    for n, e in enumerate(every):
        for k, context in enumerate(OPERAND_CONTEXTS):
            if not quick or k == n % len(OPERAND_CONTEXTS):
                add(e, context)
    return out


def operator_casing(tree, style, how, salt=0):
    """Only the operator keywords and / or / not re-spelled."""
    kws = [str(p) for p in R.pieces(tree, style) if isinstance(p, R.K)]
    return dict((i, spell(w, how, salt + i)) for i, w in enumerate(kws) if w in ('and', 'or', 'not'))


@item('observable-operands', stands_in_for=['bridgepoint.interpret.run_function', 'bridgepoint.interpret.ActionWalker.accept_BinaryOperationNode',
                                            'bridgepoint.interpret.ActionWalker.accept_UnaryOperationNode', 'bridgepoint.oal.parse'],
      shards=3, weight=2,
      bound='boolean expressions L and/or R whose operands are observable: L = literal / variable / comparison / invocation (true and false), '
            'R = invocation of a function / bridge / class operation / instance operation that leaves a trace in the population and returns true or '
            'false, negated and compared invocations, an expression that raises (attribute of an empty handle), nested and/or; chains of 3 operands in '
            'both groupings (304 expressions); contexts: assignment, return, if / elif / while condition, for-each body, where clause of select from '
            'instances and of select related by (per candidate instance), argument of an invocation, attribute write, operand of not (11). '
            'quick: 12 core expressions x 11 contexts + every expression in one context (about 420 programs); thorough: every expression in every '
            'context (about 3300).  Casings: all keywords UPPER / Capitalised / mixed (rotating; all three in thorough), only and/or/not re-spelled, '
            'one random per-keyword mix (quick: for every 2nd program); clauses parse-same-tree and interpret-same-result, prebuild-same-instances for every 4th program; '
            'plain and verbose style alternating; population rich')
def observable_operands(ctx):
    if ctx.shard == 0:
        ctx.note(NOTE)
        ctx.note('observable-operands: a program is inside the property when the reference evaluator accepts it under at least one reading of '
                 'and/or (both operands evaluated, or the right operand skipped when the left one settles the outcome); side effects in operands '
                 'and where clauses are allowed here because only the case variants of one program are compared with each other')
    counts = {}
    for n, tree in enumerate(operand_programs(ctx.quick)):
        if n % ctx.nshards != ctx.shard:
            continue
        if ctx.expired():
            ctx.exhausted = False
            return
        k = n // ctx.nshards
        style = {'verbose': 1} if k % 2 else {}
        hows = [SPELLINGS[k % 3]] if ctx.quick else list(SPELLINGS)
        casings = [casing_all(tree, style, how, k) for how in hows]
        casings.append(operator_casing(tree, style, SPELLINGS[(k + 1) % 3], k))
        if not ctx.quick or k % 2 == 0:
            casings.append(per_keyword_mix(tree, style, ctx.rng))
        clauses = ALL_CLAUSES if k % 4 == 0 else ALL_CLAUSES[:2]
        check_program(ctx, tree, style, [c for c in casings if c], pops=('rich',), counts=counts, lenient=True, clauses=clauses)
    ctx.exhausted = True


# ------------------------------------------------------------------------------------------------- bodies with invocations
# Whole models (bounded/_c15_gen.py cases: functions, bridges, class / instance operations, derived attributes calling each
# other) whose action bodies are all re-spelled: besides C04's keywords this varies self, param and (verbose style) transform /
# bridge, and the keywords stand in bodies whose invocations have effects.
def interpret_case(case, style, casing):
    sch = C.make_schema(case)
    result, snap, err = C.run_real(case, style, casing)
    if err and err.startswith('loading the model'):
        err = 'loading: ' + err.split(': ', 2)[1]
    return canon_run(result, snap, err, sch)


def case_in_domain(case):
    for logic in ('eager', 'short'):
        try:
            C.run_reference(case, logic=logic, where_effects=True)
            return True
        except R.OutOfDomain:
            pass
    return False


def compare_case(case, style, base_texts, base_trees, base_run, casing):
    """Violated clauses of one re-spelling of all bodies of a case."""
    casing = dict((int(k), v) for k, v in casing.items())
    texts = C.bodies(case, style, casing)
    out = []
    for key in sorted(texts):
        (ast0, err0), (ast, err) = base_trees[key], parse(texts[key])
        d = None
        if err0 is None and err is not None:
            d = err
        elif err0 is not None and err is None:
            d = 'the variant parses, the lower-case text does not: %s' % err0
        elif err0 is None:
            d = tree_diff(ast0, ast)
        if d:
            out.append(('parse-same-tree', '%s: %s' % (key, d), 'the tree of the lower-case text'))
            break
    b = interpret_case(case, style, casing)
    if b != base_run:
        diff = dict((k, b.get(k)) for k in set(base_run) | set(b) if base_run.get(k) != b.get(k))
        out.append(('interpret-same-result', dict(differs=diff), dict((k, base_run.get(k)) for k in diff)))
    return out, texts


def check_case(ctx, case, style, casings, counts=None):
    if not case_in_domain(case):
        ctx.case(key=None, nontrivial=False)
        return
    base_texts = C.bodies(case, style)
    base_trees = dict((k, parse(t)) for k, t in base_texts.items())
    base_run = interpret_case(case, style, None)
    kws = C.keywords(case, style)
    for casing in casings:
        if ctx.expired():
            return
        ctx.case(key=[base_texts, sorted(casing.items())], nontrivial=bool(casing))
        res, texts = compare_case(case, style, base_texts, base_trees, base_run, casing)
        for clause, observed, required in res:
            small = dict(casing)
            for w in (counts or {}).get('culprits', {}).get(clause, []):      # a keyword that was singled out before: one more comparison
                cand = dict((i, v) for i, v in casing.items() if kws[int(i)] == w)
                if cand and len(cand) < len(casing):
                    r2, t2 = compare_case(case, style, base_texts, base_trees, base_run, cand)
                    hit = [x for x in r2 if x[0] == clause]
                    if hit:
                        small, observed, texts = cand, hit[0][1], t2
                        break
            if len(set(kws[int(i)] for i in small)) == 1:
                pass
            elif counts is not None and counts.get(clause, 0) < MAX_SHRINKS and not C04.soft_expired(ctx, 0.9):
                counts[clause] = counts.get(clause, 0) + 1
                while len(small) > 1:           # halve the set of re-spelled occurrences while the clause stays violated
                    keys = sorted(small)
                    for part in (keys[:len(keys) // 2], keys[len(keys) // 2:]):
                        cand = dict((k, small[k]) for k in part)
                        r2, t2 = compare_case(case, style, base_texts, base_trees, base_run, cand)
                        hit = [x for x in r2 if x[0] == clause]
                        if hit:
                            small, observed, texts = cand, hit[0][1], t2
                            break
                    else:
                        break
            words = set(kws[int(i)] for i in small)
            name = clause
            if len(words) == 1:
                w = words.pop()
                if counts is not None and w not in counts.setdefault('culprits', {}).setdefault(clause, []):
                    counts['culprits'][clause].append(w)
                name = '%s:%s' % (clause, w)
            ctx.check(False, clause=name,
                      input=dict(case=case, style=style, casing=dict((str(k), v) for k, v in small.items()), oal=texts, oal_lower=base_texts),
                      observed=observed, required=required)


def invocation_cases():
    """C15's deterministic cases (templates, recursion, derived attributes, self, locals named like parameters)."""
    from bounded import c15
    cases = list(c15.template_cases()) + list(c15.recursion_cases()) + list(c15.derived_cases()) + list(c15.self_cases()) + list(c15.shadow_cases())
    random.Random(8).shuffle(cases)
    return cases


@item('invocation-bodies', stands_in_for=['bridgepoint.interpret.run_function', 'bridgepoint.interpret.run_operation',
                                          'bridgepoint.interpret.run_derived_attribute', 'bridgepoint.oal.parse'],
      shards=1, weight=1,
      bound="C15's models (functions, bridges, class / instance operations, derived attributes invoking each other: templates, recursion, "
            'derived attributes, self as handle, locals named like parameters; about 500 cases in fixed shuffled order, then random call graphs), '
            'the keywords of *all* action bodies re-spelled (adds self, param and in the verbose style transform / bridge to the varied keywords): '
            'all keywords in one of UPPER / Capitalised / mixed (rotating) and one random per-keyword mix; clauses parse-same-tree and '
            'interpret-same-result (entry invoked from Python; result + final population); as far as the time budget allows')
def invocation_bodies(ctx):
    if ctx.shard == 0:
        ctx.note(NOTE)
    counts = {}
    n = 0

    def one(case):
        style = {'verbose': 1} if n % 2 else {}
        kws = C.keywords(case, style)
        upper = dict((i, spell(w, SPELLINGS[n % 3], n + i)) for i, w in enumerate(kws))
        mix = {}
        for i, w in enumerate(kws):
            how = ctx.rng.choice(('lower',) + SPELLINGS)
            if how != 'lower':
                mix[i] = spell(w, how, ctx.rng.randrange(1000))
        check_case(ctx, case, style, [c for c in (upper, mix) if c], counts)
    for case in invocation_cases():
        n += 1
        if n % ctx.nshards != ctx.shard:
            continue
        if C04.soft_expired(ctx, 0.95):
            ctx.exhausted = False
            return
        one(case)
    while not C04.soft_expired(ctx):
        n += 1
        one(C.gen_case(ctx.rng))
    ctx.exhausted = False


# ------------------------------------------------------------------------------------------------- replay
def replay(item_name, input):
    if 'case' in input:             # item invocation-bodies: a whole model
        case, style = input['case'], input.get('style') or {}
        if not case_in_domain(case):
            return [dict(clause='replay', observed='the reference evaluator rejects the recorded case', required='a case inside the property')]
        base_texts = C.bodies(case, style)
        res, texts = compare_case(case, style, base_texts, dict((k, parse(t)) for k, t in base_texts.items()), interpret_case(case, style, None),
                                  input['casing'])
        if 'oal' in input and texts != input['oal']:
            return [dict(clause='replay', observed='printed text differs from the recorded text', required=input['oal'])]
        kws = C.keywords(case, style)
        words = set(kws[int(i)] for i in input['casing'])
        suffix = ':%s' % words.pop() if len(words) == 1 else ''
        return [dict(clause=c + suffix, observed=G.plain(o), required=G.plain(r)) for c, o, r in res]
    tree, style = input['tree'], input.get('style') or {}
    params = input.get('params') or None
    pops = in_domain_pops(tree, params, input.get('populations') or ['rich'], bool(input.get('lenient')))
    if not pops:
        return [dict(clause='replay', observed='the reference evaluator rejects the recorded program', required='a program inside the property')]
    base = Base(tree, style, pops, params)
    res, text = compare(base, input['casing'], tuple(input.get('clauses') or ALL_CLAUSES))
    if 'oal' in input and text != input['oal']:
        return [dict(clause='replay', observed='printed text differs from the recorded text', required=input['oal'])]
    kws = [str(p) for p in R.pieces(tree, style) if isinstance(p, R.K)]
    words = set(kws[int(i)] for i in input['casing'])
    suffix = ':%s' % words.pop() if len(words) == 1 else ''
    return [dict(clause=c + suffix, observed=G.plain(o), required=G.plain(r)) for c, o, r in res]
