"""C12 (bounded tier) -- loading fails only in documented ways and never half-applies input.

The contract on ModelLoader.input / build_metamodel, evaluated at run time:
  input(text)       either returns (accepted) or raises xtuml.ParsingException, within a time limit;
                    after a rejection loader.statements is exactly as before, a build gives what it gave before, and a
                    later valid input and build behave as on a loader that never saw the rejected text
  build_metamodel() after accepted text either returns or raises xtuml.ParsingException or a xtuml.MetaException
                    subclass -- never another exception
Nothing is predicted about *which* texts are accepted (that is the grammar, C01/C03); the clauses only speak about the
manner of failing, so the oracle is the property text itself.  Relations between runs (loader with / without the
rejected call) are what the property states.

Besides edits of valid texts and token sequences, the item type-by-role enumerates texts whose statements cooperate: the type
word of one attribute x the role that other statements give the attribute (referential, referred-to, identifying, ...) x the
INSERT that supplies (or leaves out) its value x the order of the blocks.  Same clauses, same oracle.

Clauses (the exception class is part of the clause name so that different escapes are different findings)
  input-only-parsing-exception:<Exc>          input raised something else than ParsingException
  build-only-documented-exceptions:<Exc>      build_metamodel raised something else than ParsingException / MetaException
  bounded-time                                input or build exceeded the time limit
  rejected-leaves-statements-unchanged        loader.statements differs after a rejected input
  rejected-leaves-builds-unchanged            a build after the rejected input differs from the build before it
  later-input-as-if-not-happened              valid text fed after the rejection is not accepted / builds differently
  history-equals-accepted-only                a sequence of inputs on one loader ends in another state than the same sequence
                                              without its rejected members on a fresh loader
"""
import itertools
import re
import signal

from vlib.bounded import item

TIME_LIMIT = 10.0


class _Timeout(BaseException):
    pass


def timed(fn, limit=TIME_LIMIT):
    def handler(sig, frm):
        raise _Timeout()
    try:
        old = signal.signal(signal.SIGALRM, handler)
    except ValueError:          # not in the main thread: no timer available
        return fn()
    signal.setitimer(signal.ITIMER_REAL, limit)
    try:
        return fn()
    finally:
        signal.setitimer(signal.ITIMER_REAL, 0)
        signal.signal(signal.SIGALRM, old)


def feed(loader, text):
    import xtuml
    try:
        timed(lambda: loader.input(text))
        return ('accepted', None)
    except xtuml.ParsingException as e:
        return ('rejected', str(e)[:120])
    except _Timeout:
        return ('timeout', None)
    except Exception as e:
        return ('error', type(e).__name__, str(e)[:200])


def build(loader):
    import xtuml
    try:
        m = timed(loader.build_metamodel)
        try:
            return ('built', xtuml.serialize(m))
        except Exception as e:       # serialization of odd but accepted models is not this property
            return ('built', 'unserializable: %s' % type(e).__name__)
    except (xtuml.ParsingException, xtuml.MetaException) as e:
        return ('documented', type(e).__name__)
    except _Timeout:
        return ('timeout', None)
    except Exception as e:
        return ('error', type(e).__name__, str(e)[:200])


def stmts_snapshot(loader):
    return [(type(s).__name__, sorted((k, repr(v)) for k, v in vars(s).items())) for s in loader.statements]


def new_loader(base):
    import xtuml
    l = xtuml.ModelLoader()
    for b in base:
        l.input(b)
    return l


FOLLOWUP = "CREATE TABLE Zfollow (N INTEGER, S STRING);\nINSERT INTO Zfollow VALUES (-5, 'it''s');\n"


def evaluate(text, base=(), outcome=None):
    """All clauses for one text on a fresh loader preloaded with the (valid) base texts.  [(clause, observed, required)]
    `outcome`, when given, is a list that receives what input(text) did ('accepted', 'rejected', 'error', 'timeout')."""
    return _evaluate(text, base, [] if outcome is None else outcome)


def _evaluate(text, base, outcome):
    out = []
    loader = new_loader(base)
    before = stmts_snapshot(loader)
    ref = build(loader)
    o = feed(loader, text)
    outcome.append(o[0])
    if o[0] == 'timeout':
        return [('bounded-time', 'input did not return within %.0f s' % TIME_LIMIT, 'accept or reject in bounded time')]
    if o[0] == 'error':
        out.append(('input-only-parsing-exception:%s' % o[1], '%s: %s' % (o[1], o[2]), 'accepted or xtuml.ParsingException'))
    if o[0] in ('rejected', 'error'):
        if o[0] == 'rejected':
            after = stmts_snapshot(loader)
            if after != before:
                out.append(('rejected-leaves-statements-unchanged', dict(before=len(before), after=len(after), message=o[1]),
                            'loader.statements exactly as before'))
            again = build(loader)
            if again != ref:
                out.append(('rejected-leaves-builds-unchanged', again, ref))
            o2 = feed(loader, FOLLOWUP)
            other = new_loader(base)
            feed(other, FOLLOWUP)
            if o2[0] != 'accepted':
                out.append(('later-input-as-if-not-happened', o2, 'valid follow-up text accepted'))
            else:
                b1, b2 = build(loader), build(other)
                if b1 != b2 or stmts_snapshot(loader) != stmts_snapshot(other):
                    out.append(('later-input-as-if-not-happened', b1, b2))
        return out
    b = build(loader)
    if b[0] == 'timeout':
        out.append(('bounded-time', 'build did not return within %.0f s' % TIME_LIMIT, 'build in bounded time'))
    elif b[0] == 'error':
        out.append(('build-only-documented-exceptions:%s' % b[1], '%s: %s' % (b[1], b[2]),
                    'success, xtuml.ParsingException or a xtuml.MetaException subclass'))
    return out


# --------------------------------------------------------------------------------------------------- fast path

class Session(object):
    """One persistent loader fed text after text ('sequences of accepted and rejected inputs on one loader').  Anything
    irregular is re-evaluated on a fresh loader to get a self-contained replayable input."""

    def __init__(self, ctx, base):
        self.ctx, self.base = ctx, list(base)
        self.history = []
        self.reset()

    def reset(self):
        self.loader = new_loader(self.base)
        self.snap = stmts_snapshot(self.loader)
        self.ref = build(self.loader)
        self.history = []
        self.n = 0

    def report(self, text, clause, observed, required):
        res = evaluate(text, self.base)
        if res:
            for c, o, r in res:
                self.ctx.check(False, clause=c, input=dict(base=self.base, text=text), observed=o, required=r)
        else:
            self.ctx.check(False, clause='history-dependent:' + clause, input=dict(base=self.base, history=self.history[-20:]),
                           observed=observed, required=required)
        self.reset()

    def run(self, text):
        self.n += 1
        self.history.append(text)
        if len(self.history) > 40:
            del self.history[:20]
        o = feed(self.loader, text)
        if o[0] == 'rejected':
            if stmts_snapshot(self.loader) != self.snap:
                return self.report(text, 'rejected-leaves-statements-unchanged', 'statements changed', 'unchanged')
            if self.n % 64 == 0:
                again = build(self.loader)
                if again != self.ref:
                    return self.report(text, 'rejected-leaves-builds-unchanged', again, self.ref)
                if self.n % 1024 == 0:
                    res = evaluate(text, self.base)
                    for c, ob, r in res:
                        self.ctx.check(False, clause=c, input=dict(base=self.base, text=text), observed=ob, required=r)
            return 'rejected'
        if o[0] == 'accepted':
            b = build(self.loader)
            if b[0] in ('error', 'timeout'):
                return self.report(text, 'build-only-documented-exceptions', b, 'documented exception')
            if stmts_snapshot(self.loader) != self.snap:
                self.reset()
            return 'accepted'
        if o[0] == 'timeout':
            self.ctx.check(False, clause='bounded-time', input=dict(base=self.base, text=text),
                           observed='input did not return within %.0f s' % TIME_LIMIT, required='accept or reject in bounded time')
            self.reset()
            return 'timeout'
        return self.report(text, 'input-only-parsing-exception', o, 'ParsingException')


# --------------------------------------------------------------------------------------------------- token alphabet

GUID1 = '"00000000-0000-0000-0000-000000000001"'
ALPHABET = ['CREATE', 'TABLE', 'ROP', 'REF_ID', 'FROM', 'TO', 'PHRASE', 'UNIQUE', 'INDEX', 'ON', 'INSERT', 'INTO', 'VALUES',
            'TRUE', 'FALSE', 'A', 'I', 'INTEGER', 'M', 'MC', '1C', '1', '2', '1.5', "'s'", GUID1, 'R1', '(', ')', ',', ';',
            '-', '?', "'open", '--c\n']
BASE_SCHEMA = ["CREATE TABLE A (I INTEGER, J INTEGER);\nCREATE TABLE B (I INTEGER, A_I INTEGER);\n"
               "CREATE ROP REF_ID R1 FROM MC B (A_I) TO 1 A (I);\nCREATE UNIQUE INDEX I1 ON A (I);\n"
               "INSERT INTO A VALUES (1, 2);\nINSERT INTO B VALUES (1, 1);\n"]
TYPED = "CREATE TABLE TI (V INTEGER);\nCREATE TABLE TR (V REAL);\nCREATE TABLE TU (V UNIQUE_ID);\nCREATE TABLE TS (V STRING);\n" \
        "CREATE TABLE TB (V BOOLEAN);\nCREATE TABLE T2 (I INTEGER, J STRING);\n"
CONTEXTS = [
    ('values-INTEGER', 'INSERT INTO TI VALUES ( %s );'),
    ('values-REAL', 'INSERT INTO TR VALUES ( %s );'),
    ('values-UNIQUE_ID', 'INSERT INTO TU VALUES ( %s );'),
    ('values-STRING', 'INSERT INTO TS VALUES ( %s );'),
    ('values-BOOLEAN', 'INSERT INTO TB VALUES ( %s );'),
    ('named-values', 'INSERT INTO T2 (I, J) VALUES ( %s );'),
    ('named-names', 'INSERT INTO T2 ( %s ) VALUES (1);'),
    ('inferred-second-row', "INSERT INTO Fresh VALUES (1, 's');\nINSERT INTO Fresh VALUES ( %s );"),
    ('attributes', 'CREATE TABLE N ( %s );\nINSERT INTO N VALUES (1);'),
    ('rop-referring-keys', "CREATE ROP REF_ID R7 FROM MC T2 ( %s ) TO 1 TI (V);\nINSERT INTO TI VALUES (1);\nINSERT INTO T2 VALUES (1, 'x');"),
    ('rop-referred-keys', "CREATE ROP REF_ID R7 FROM MC T2 (I) TO 1 TI ( %s );\nINSERT INTO TI VALUES (1);\nINSERT INTO T2 VALUES (1, 'x');"),
    ('rop-cardinality-and-kind', "CREATE ROP REF_ID R7 FROM %s (I) TO 1 TI (V);\nINSERT INTO TI VALUES (1);\nINSERT INTO T2 VALUES (1, 'x');"),
    ('rop-phrase', "CREATE ROP REF_ID R7 FROM MC T2 (I) PHRASE %s TO 1 TI (V);\nINSERT INTO TI VALUES (1);"),
    ('index-attributes', 'CREATE UNIQUE INDEX I9 ON TI ( %s );\nINSERT INTO TI VALUES (1);'),
    ('index-head', 'CREATE UNIQUE INDEX %s (V);\nINSERT INTO TI VALUES (1);'),
]
LENGTH2_ONLY = ('named-names', 'attributes', 'rop-cardinality-and-kind', 'rop-phrase', 'index-attributes', 'index-head')
CONTEXT_ALPHABET_3 = ALPHABET[:-3] + ['TI', 'T2', 'V', 'J', 'STRING', '-1', '0', "''", '"x"', 'R7']
CONTEXT_ALPHABET = CONTEXT_ALPHABET_3 + ['ti', 't2', 'v', 'j', 'i']     # the declared names in another letter case


# --------------------------------------------------------------------------------------------------- seeds and edits

SEEDS = [
    # every statement kind, every core type, every value spelling
    "CREATE TABLE Dog (Id UNIQUE_ID, Name STRING, Age INTEGER, Weight REAL, Good BOOLEAN);\n"
    "CREATE TABLE Owner (Id UNIQUE_ID, Dog_Id UNIQUE_ID, Name STRING);\n"
    "CREATE ROP REF_ID R1 FROM MC Owner (Dog_Id) TO 1 Dog (Id);\n"
    "CREATE UNIQUE INDEX I1 ON Dog (Id);\n"
    "INSERT INTO Dog VALUES (\"00000000-0000-0000-0000-000000000001\", 'Rex', 3, 12.5, TRUE);\n"
    "INSERT INTO Dog VALUES (\"00000000-0000-0000-0000-000000000002\", 'it''s', -4, -0.25, false);\n"
    "INSERT INTO Owner VALUES (\"00000000-0000-0000-0000-000000000009\", \"00000000-0000-0000-0000-000000000001\", '');\n",
    # named inserts, one-column class, numbers as ids and booleans
    "CREATE TABLE P (I INTEGER);\nCREATE TABLE Q (I INTEGER, J INTEGER, U UNIQUE_ID, B BOOLEAN);\n"
    "INSERT INTO P (I) VALUES (1);\nINSERT INTO Q (J, I) VALUES (2, 1);\nINSERT INTO Q (I, J, U, B) VALUES (3, 4, 5, 1);\n"
    "INSERT INTO P VALUES (-7);\n",
    # reflexive association with phrases, all cardinalities
    "CREATE TABLE N (Id INTEGER, Prev INTEGER, Top INTEGER);\n"
    "CREATE ROP REF_ID R2 FROM 1C N (Prev) PHRASE 'succeeds' TO 1C N (Id) PHRASE 'precedes';\n"
    "CREATE ROP REF_ID R3 FROM M N (Top) PHRASE 'below' TO MC N (Id) PHRASE 'above';\n"
    "INSERT INTO N VALUES (1, 0, 1);\nINSERT INTO N VALUES (2, 1, 1);\n",
    # keywords as identifiers, comments, strings with newline / comment marker
    "-- a comment\nCREATE TABLE TABLE (INDEX STRING, FROM INTEGER); -- trailing\n"
    "CREATE TABLE M (TO INTEGER, TRUE BOOLEAN);\n"
    "CREATE ROP REF_ID R4 FROM MC M (TO) TO 1 TABLE (FROM);\nCREATE UNIQUE INDEX UNIQUE ON TABLE (FROM);\n"
    "INSERT INTO TABLE VALUES ('two\nlines -- no comment', 5);\nINSERT INTO M VALUES (5, FALSE);\n",
    # inferred schema
    "INSERT INTO X VALUES (1, 'a', 1.5, \"00000000-0000-0000-0000-000000000003\", TRUE);\n"
    "INSERT INTO X VALUES (2, 'b', -2.5, \"00000000-0000-0000-0000-000000000004\", FALSE);\n"
    "INSERT INTO Y (K, L) VALUES (1, 'y');\n",
    # association class, multi-attribute key, big numbers
    "CREATE TABLE A (Id INTEGER, Code STRING);\nCREATE TABLE B (Id UNIQUE_ID);\n"
    "CREATE TABLE AB (A_Id INTEGER, A_Code STRING, B_Id UNIQUE_ID, W REAL);\n"
    "CREATE ROP REF_ID R5 FROM MC AB (A_Id, A_Code) TO 1 A (Id, Code);\nCREATE ROP REF_ID R5 FROM MC AB (B_Id) TO 1 B (Id);\n"
    "CREATE UNIQUE INDEX I2 ON A (Id, Code);\n"
    "INSERT INTO A VALUES (1180591620717411303424, 'k');\nINSERT INTO B VALUES (\"ffffffff-ffff-ffff-ffff-ffffffffffff\");\n"
    "INSERT INTO AB VALUES (1180591620717411303424, 'k', \"ffffffff-ffff-ffff-ffff-ffffffffffff\", 100000000000000000000.000000);\n",
    # names spelled in another letter case than their CREATE TABLE in named / positional INSERT, CREATE ROP, CREATE UNIQUE INDEX
    "CREATE TABLE Person (Id UNIQUE_ID, Nick STRING, Age INTEGER);\n"
    "CREATE TABLE Cat (Id UNIQUE_ID, Name STRING, Owner_Id UNIQUE_ID, Lives INTEGER);\n"
    "CREATE ROP REF_ID R8 FROM MC CAT (OWNER_ID) PHRASE 'is owned by' TO 1 person (id) PHRASE 'owns';\n"
    "CREATE UNIQUE INDEX i1 ON PERSON (ID);\nCREATE UNIQUE INDEX I2 ON cat (name, id);\n"
    "INSERT INTO person (NICK, id) VALUES ('p', \"00000000-0000-0000-0000-000000000001\");\n"
    "INSERT INTO PERSON VALUES (\"00000000-0000-0000-0000-000000000002\", 'q', 30);\n"
    "INSERT INTO cAT (name, ID, owner_id, LIVES) VALUES ('c', \"00000000-0000-0000-0000-000000000003\", "
    "\"00000000-0000-0000-0000-000000000001\", 9);\n",
]

_TOKEN = re.compile(r"""(?P<comment>--[^\n]*\n?)|(?P<string>'(?:''|[^'])*')|(?P<guid>"[^"\n]*")|(?P<fraction>\d+\.\d+)|"""
                    r"""(?P<number>\d+)|(?P<word>[A-Za-z_]\w*)|(?P<punct>[(),;-])|(?P<space>\s+)|(?P<other>.)""", re.S)


def tokenize(text):
    """Independent tokenizer of the file format (used to place edits, not to judge anything)."""
    out = []
    for mo in _TOKEN.finditer(text):
        if mo.lastgroup != 'space':
            out.append((mo.lastgroup, mo.group()))
    return out


def join(tokens):
    s = ''
    for kind, t in tokens:
        s += t if t.endswith('\n') else t + ' '
    return s


RECASE = {'upper': lambda t: t.upper(), 'lower': lambda t: t.lower(), 'swap': lambda t: t.swapcase()}
RESERVED = set(['CREATE', 'TABLE', 'ROP', 'REF_ID', 'FROM', 'TO', 'PHRASE', 'UNIQUE', 'INDEX', 'ON', 'INSERT', 'INTO', 'VALUES',
                'TRUE', 'FALSE', 'BOOLEAN', 'INTEGER', 'REAL', 'STRING', 'UNIQUE_ID', 'M', 'MC', 'C'])
FLIPS = ['7', '-7', '7.25', '-7.25', "'flip'", GUID1, 'TRUE', 'false', 'Word', '"not-a-guid"', "''", '99999999999999999999999']


def edits(seed_text):
    """(edit name, position, mutated text) for every single edit at every token position."""
    toks = tokenize(seed_text)
    n = len(toks)
    in_values, value_pos = False, []
    for i, (k, t) in enumerate(toks):
        if k == 'word' and t.upper() == 'VALUES':
            in_values = True
        elif in_values and t == ')':
            in_values = False
        elif in_values and k in ('string', 'guid', 'fraction', 'number') or (in_values and k == 'word'):
            value_pos.append(i)
    for i in range(n):
        yield ('delete', i, join(toks[:i] + toks[i + 1:]))
        yield ('duplicate', i, join(toks[:i + 1] + toks[i:]))
        if i + 1 < n:
            yield ('swap', i, join(toks[:i] + [toks[i + 1], toks[i]] + toks[i + 2:]))
        yield ('truncate', i, join(toks[:i + 1]).rstrip())
        if len(toks[i][1]) > 1:
            yield ('truncate-inside', i, join(toks[:i]) + toks[i][1][:len(toks[i][1]) // 2])
    for i in value_pos:
        for f in FLIPS:
            if f != toks[i][1]:
                yield ('flip:%s' % f, i, join(toks[:i] + [('x', f)] + toks[i + 1:]))
    # letter case: one word at a time, and all names of one statement / of the whole text at once (the reserved words,
    # type names included, keep their spelling there)
    for i, (k, t) in enumerate(toks):
        if k == 'word':
            for how in RECASE:
                if RECASE[how](t) != t:
                    yield ('recase-%s' % how, i, join(toks[:i] + [(k, RECASE[how](t))] + toks[i + 1:]))
    starts = [0] + [i + 1 for i, (k, t) in enumerate(toks) if t == ';' and i + 1 < n]
    for si, b in enumerate(starts):
        e = starts[si + 1] if si + 1 < len(starts) else n
        for how in RECASE:
            out = [((k, RECASE[how](t)) if b <= i < e and k == 'word' and t.upper() not in RESERVED else (k, t))
                   for i, (k, t) in enumerate(toks)]
            if out != toks:
                yield ('recase-statement-%s' % how, b, join(out))
    for how in RECASE:
        out = [((k, RECASE[how](t)) if k == 'word' and t.upper() not in RESERVED else (k, t)) for k, t in toks]
        if out != toks:
            yield ('recase-all-%s' % how, 0, join(out))


OTHER_BASE = ["CREATE TABLE ZZ (I INTEGER);\nINSERT INTO ZZ VALUES (7);\n"]


# --------------------------------------------------------------------------------------------------- items

@item('single-edits', stands_in_for=['xtuml.load.ModelLoader.input', 'xtuml.load.ModelLoader.build_metamodel',
                                     'xtuml.load.deserialize_value', 'xtuml.load.ModelLoader.populate_instances'], shards=3, weight=2,
      bound='7 valid seed texts (all statement kinds, named/positional/inferred inserts, phrases, keyword identifiers, '
            'comments, names in another letter case than declared): at every token position delete, duplicate, swap with '
            'next, truncate after, truncate inside; every value token replaced by 12 literals of other lexical classes; '
            'every word re-spelled in upper / lower / swapped case, alone, together with all names of its statement, and '
            'with all names of the text; on an empty loader and on a loader holding an unrelated accepted schema')
def single_edits(ctx):
    n = 0
    for si, seed in enumerate(SEEDS):
        ok = evaluate(seed)
        o = feed(new_loader(()), seed)
        ctx.check(o[0] == 'accepted' and not ok, clause='seed-is-valid', input=dict(base=[], text=seed), observed=[o, ok],
                  required='seed text accepted and built')
        for base in ((), OTHER_BASE):
            for name, pos, text in edits(seed):
                n += 1
                if n % ctx.nshards != ctx.shard:
                    continue
                if ctx.expired():
                    ctx.exhausted = False
                    return
                ctx.case(key=(si, name, pos, len(base)), nontrivial=True)
                for clause, observed, required in evaluate(text, base):
                    ctx.check(False, clause=clause, input=dict(base=list(base), text=text, seed=si, edit=name, position=pos),
                              observed=observed, required=required)
    ctx.exhausted = True


@item('token-sequences', stands_in_for=['xtuml.load.ModelLoader.input', 'xtuml.load.ModelLoader.p_error',
                                        'xtuml.load.ModelLoader.t_error'], shards=7, weight=3,
      bound='all sequences of length <=3 (quick) / <=4 (thorough) over 35 token spellings (all keywords, identifiers, '
            'cardinality words, number, fraction, string, guid, relid, punctuation, illegal character, unterminated string, '
            'comment), fed one after another to one loader that already holds a schema with instances; statements compared '
            'after every rejection, build compared every 64th')
def token_sequences(ctx):
    s = Session(ctx, BASE_SCHEMA)
    maxlen = 3 if ctx.quick else 4
    i = 0
    for length in range(0, maxlen + 1):
        for seq in itertools.product(ALPHABET, repeat=length):
            i += 1
            if i % ctx.nshards != ctx.shard:
                continue
            if ctx.evaluations % 128 == 0 and ctx.expired():
                ctx.exhausted = False
                return
            r = s.run(' '.join(seq))
            ctx.case(key=seq, nontrivial=(r == 'rejected'))
    ctx.exhausted = True


@item('tokens-in-context', stands_in_for=['xtuml.load.ModelLoader.build_metamodel', 'xtuml.load.deserialize_value',
                                          'xtuml.load.ModelLoader._populate_instance_with_named_arguments',
                                          'xtuml.load.ModelLoader._populate_instance_with_positional_arguments',
                                          'xtuml.load.ModelLoader.populate_associations',
                                          'xtuml.load.ModelLoader.populate_connections'], shards=4, weight=2,
      bound='15 statement contexts with a hole (value list of each core type, named value list, name list, second row of an '
            'inferred class, attribute list, key lists / cardinality+class / phrase of an association, index head / attributes) filled with all token sequences of length '
            '<=2 (quick) / <=3 (thorough; 3 only for the 9 value-list and key-list contexts) over 47 token spellings (the declared class '
            'and attribute names also in lower case; length 3 without these 5); one loader with typed classes, renewed after every accepted text')
def tokens_in_context(ctx):
    maxlen = 2 if ctx.quick else 3
    s = Session(ctx, [TYPED])
    i = 0
    for length in range(0, maxlen + 1):
        for cname, template in CONTEXTS:
            if length == 3 and cname in LENGTH2_ONLY:
                continue
            for seq in itertools.product(CONTEXT_ALPHABET if length < 3 else CONTEXT_ALPHABET_3, repeat=length):
                i += 1
                if i % ctx.nshards != ctx.shard:
                    continue
                if ctx.evaluations % 64 == 0 and ctx.expired():
                    ctx.exhausted = False
                    return
                text = template % ' '.join(seq)
                r = s.run(text)
                ctx.case(key=(cname, seq), nontrivial=(r == 'accepted'))
    ctx.exhausted = True


HAND = ['', ' ', '\n', ';', ';;', "'", '"', "''", '""', '\\', '\x00', u'\ufeff', u'\xe9', u'CREATE TABLE \xe9 (I INTEGER);',
        '1', '1.', '.5', '1e5', '0x1', '--', '--\n--', '-', '- -1', "'a''", '"\\"', '"\n"', '\r\n', '\x0c', '\x0b', '\t;',
        "INSERT INTO A VALUES ('a\x00b');", 'CREATE', 'INSERT INTO', "'" + "''" * 20000, '"' + '\\"' * 20000,
        '"' + 'a' * 50000, '-' * 50000, '(' * 50000, '1' * 50000, 'A' * 100000, '1.' * 30000, 'R' + '1' * 50000,
        '--' * 50000, ';' * 10000, '1C' * 20000, "''" * 30000, "INSERT INTO A VALUES (" + "1, " * 20000 + "1);",
        "INSERT INTO A VALUES (1, 2);\n" * 3000, "INSERT INTO A VALUES (" + "-" * 20000 + "1);", '\n' * 100000,
        "CREATE TABLE A (" + "I INTEGER, " * 10000, ' ' * 100000 + '?', "'" + '\n' * 50000, '-- ' + 'x' * 100000]
CHARS = list("  \n;;,,(())''\"\"--..01C9RAaIM_?\\\x00\xe9") + ['CREATE ', 'TABLE ', 'INSERT ', 'INTO ', 'VALUES ', 'ROP ', 'REF_ID ',
                                                              'FROM ', 'TO ', 'PHRASE ', 'UNIQUE ', 'INDEX ', 'ON ', 'TRUE ', 'FALSE ', 'A ', 'R1 ']


@item('arbitrary-strings', stands_in_for=['xtuml.load.ModelLoader.input', 'xtuml.load.ModelLoader.t_STRING',
                                          'xtuml.load.ModelLoader.t_GUID', 'xtuml.load.ModelLoader.t_comment'], shards=1, weight=1,
      bound='55 hand-made strings (empty, lone quotes, control characters, non-ASCII, 10^4..10^5-fold repetitions of every '
            'token shape, unterminated strings/guids/comments, a 3000-statement valid text) and random strings of 1..40 pieces '
            'over a 49-piece alphabet of dialect characters and keywords (quick 6000, thorough 60000), one loader; '
            'time limit %.0f s per call' % TIME_LIMIT)
def arbitrary_strings(ctx):
    s = Session(ctx, BASE_SCHEMA)
    for i, text in enumerate(HAND):
        if i % ctx.nshards != ctx.shard:
            continue
        r = s.run(text)
        ctx.case(key=('hand', i), nontrivial=True)
    n = 6000 if ctx.quick else 60000
    for i in range(n):
        if i % 256 == 0 and ctx.expired():
            ctx.exhausted = False
            return
        text = ''.join(ctx.rng.choice(CHARS) for _ in range(ctx.rng.randint(1, 40)))
        s.run(text)
        ctx.case(key=text, nontrivial=True)
    ctx.exhausted = True


POOL = [
    "CREATE TABLE A (I INTEGER, J INTEGER);",                                   # accepted
    "INSERT INTO A VALUES (1, 2);",                                             # accepted
    "CREATE TABLE B (I INTEGER, A_I INTEGER);\nCREATE ROP REF_ID R1 FROM MC B (A_I) TO 1 A (I);\nINSERT INTO B VALUES (1, 1);",
    "INSERT INTO A (J) VALUES (9);",                                            # accepted
    "",                                                                         # accepted, nothing
    "INSERT INTO A VALUES (1, 2)",                                              # rejected: no semicolon
    "INSERT INTO A VALUES (3, 4);\nINSERT INTO A VALUES (5, ?);",               # rejected after a complete statement
    "CREATE TABLE C (I INTEGER);\nCREATE ROP REF_ID R2 FROM 2 C (I) TO 1 A (I);",   # rejected: cardinality, after a statement
    "CREATE TABLE D (I INTEGER); 'unterminated",                               # rejected by the lexer
    "CREATE ROP REF_ID R3 FROM X C (I) TO 1 A (I);",                            # rejected: cardinality word
]


def run_sequence(seq):
    """Relation between two runs: the sequence on one loader vs only its accepted members on a fresh loader."""
    out = []
    one = new_loader(())
    accepted = []
    for k in seq:
        o = feed(one, POOL[k])
        if o[0] == 'accepted':
            accepted.append(k)
        elif o[0] != 'rejected':
            out.append(('input-only-parsing-exception:%s' % (o[1] if o[0] == 'error' else 'timeout'), o, 'accepted or ParsingException'))
    other = new_loader(())
    for k in accepted:
        feed(other, POOL[k])
    if stmts_snapshot(one) != stmts_snapshot(other):
        out.append(('history-equals-accepted-only', dict(statements=len(one.statements), accepted=accepted),
                    dict(statements=len(other.statements))))
    b1, b2 = build(one), build(other)
    if b1 != b2:
        out.append(('history-equals-accepted-only', b1, b2))
    if b1[0] == 'error':
        out.append(('build-only-documented-exceptions:%s' % b1[1], b1, 'documented exception'))
    return out


@item('histories', stands_in_for=['xtuml.load.ModelLoader.input'], shards=1, weight=1,
      bound='all sequences of <=3 (quick) / <=4 (thorough) inputs drawn from 5 accepted and 5 rejected texts (rejections by '
            'lexer, by grammar, by cardinality action, each after complete statements) on one loader')
def histories(ctx):
    maxlen = 3 if ctx.quick else 4
    for length in range(1, maxlen + 1):
        for seq in itertools.product(range(len(POOL)), repeat=length):
            if ctx.expired():
                ctx.exhausted = False
                return
            ctx.case(key=seq, nontrivial=True)
            for clause, observed, required in run_sequence(seq):
                ctx.check(False, clause=clause, input=dict(sequence=list(seq)), observed=observed, required=required)
    ctx.exhausted = True


# --------------------------------------------------------------------------------------------------- type word x role x supply

GUID2 = '"00000000-0000-0000-0000-000000000002"'
SLOT = '<slot>'
TYPE_WORDS = ['UNIQUE_ID', 'INTEGER', 'REAL', 'STRING', 'BOOLEAN',              # the core types as documented
              'unique_id', 'integer', 'real', 'string', 'boolean', 'Unique_Id',   # in another letter case
              'SOME_TYPE', 'INT', 'DATE', 'INST_REF', 'X', 'TABLE', 'M']          # no core type: plain words, a class name, keywords
SLOT_VALUES = [GUID1, '1', '-1', '1.5', "'s'", 'TRUE']
SLOT_VALUES_THOROUGH = SLOT_VALUES + ['"not-a-guid"', "''", '0', 'false', '99999999999999999999999']
PROPER_VALUE = {'UNIQUE_ID': GUID1, 'STRING': "'n'", 'INTEGER': '1'}
# role of the attribute that carries the type word: (classes in row order [(class, [(attribute, type)])], constraints)
ROLES = [
    ('plain', [('Y', [('Id', 'UNIQUE_ID'), ('Name', 'STRING')]), ('X', [('Id', 'UNIQUE_ID'), ('Y_Id', 'UNIQUE_ID'), ('S', SLOT)])],
     ["CREATE ROP REF_ID R1 FROM MC X (Y_Id) TO 1 Y (Id);"]),
    ('referential', [('Y', [('Id', 'UNIQUE_ID'), ('Name', 'STRING')]), ('X', [('Id', 'UNIQUE_ID'), ('S', SLOT)])],
     ["CREATE ROP REF_ID R1 FROM MC X (S) TO 1 Y (Id);"]),
    ('referred-to', [('Y', [('S', SLOT), ('Name', 'STRING')]), ('X', [('Id', 'UNIQUE_ID'), ('Y_S', 'UNIQUE_ID')])],
     ["CREATE ROP REF_ID R1 FROM MC X (Y_S) TO 1 Y (S);"]),
    ('identifying', [('X', [('Id', 'UNIQUE_ID'), ('S', SLOT)])],
     ["CREATE UNIQUE INDEX I1 ON X (S);"]),
    ('referential-and-identifying', [('Y', [('Id', 'UNIQUE_ID'), ('Name', 'STRING')]), ('X', [('Id', 'UNIQUE_ID'), ('S', SLOT)])],
     ["CREATE ROP REF_ID R1 FROM 1C X (S) TO 1 Y (Id);", "CREATE UNIQUE INDEX I1 ON X (S);"]),
    ('referred-to-and-identifying', [('Y', [('S', SLOT), ('Name', 'STRING')]), ('X', [('Id', 'UNIQUE_ID'), ('Y_S', 'UNIQUE_ID')])],
     ["CREATE UNIQUE INDEX I1 ON Y (S);", "CREATE ROP REF_ID R1 FROM MC X (Y_S) TO 1 Y (S);"]),
    ('reflexive-referential', [('X', [('Id', 'UNIQUE_ID'), ('S', SLOT)])],
     ["CREATE ROP REF_ID R1 FROM 1C X (S) PHRASE 'after' TO 1C X (Id) PHRASE 'before';"]),
    ('both-ends', [('Y', [('S', SLOT), ('Name', 'STRING')]), ('X', [('Id', 'UNIQUE_ID'), ('S', SLOT)])],
     ["CREATE ROP REF_ID R1 FROM MC X (S) TO 1 Y (S);"]),
    ('part-of-composite-key', [('Y', [('Id', 'UNIQUE_ID'), ('N', 'INTEGER')]), ('X', [('Id', 'UNIQUE_ID'), ('S', SLOT), ('T', 'INTEGER')])],
     ["CREATE ROP REF_ID R1 FROM MC X (S, T) TO 1 Y (Id, N);"]),
]
SUPPLIES = ('positional', 'named')
BLOCK_ORDERS = ['TCI', 'ICT']                                   # T = CREATE TABLEs, C = constraints, I = INSERTs
BLOCK_ORDERS_THOROUGH = ['TCI', 'ICT', 'TIC', 'ITC', 'CTI', 'CIT']


def role_text(role, word, supply, value, order, delivery='one-text'):
    """The texts of one case: the schema of `role` with `word` as the type of the slot attribute, one row per class.
    Returns (base texts fed first, text): everything in one text, or one input per block."""
    classes, constraints = dict((r[0], r[1:]) for r in ROLES)[role]
    blocks = dict(T=[], C=list(constraints), I=[])
    for cname, attrs in classes:
        blocks['T'].append('CREATE TABLE %s (%s);' % (cname, ', '.join('%s %s' % (a, word if t == SLOT else t) for a, t in attrs)))
        if supply == 'none':
            continue
        cells = [(a, value if t == SLOT else (GUID2 if (cname, a) == ('X', 'Id') else PROPER_VALUE[t])) for a, t in attrs
                 if not (supply == 'named-without' and t == SLOT)]
        if supply == 'positional':
            blocks['I'].append('INSERT INTO %s VALUES (%s);' % (cname, ', '.join(v for _, v in cells)))
        else:
            blocks['I'].append('INSERT INTO %s (%s) VALUES (%s);' % (cname, ', '.join(a for a, _ in cells), ', '.join(v for _, v in cells)))
    if delivery == 'one-text':
        return [], '\n'.join(s for b in order for s in blocks[b]) + '\n'
    texts = ['\n'.join(blocks[b]) + '\n' for b in order]
    return texts[:-1], texts[-1]


def role_cases(quick):
    values = SLOT_VALUES if quick else SLOT_VALUES_THOROUGH
    for role, _, _ in ROLES:
        for word in TYPE_WORDS:
            for order in (BLOCK_ORDERS if quick else BLOCK_ORDERS_THOROUGH):
                for delivery in (('one-text',) if quick else ('one-text', 'input-per-block')):
                    yield (role, word, 'none', None, order, delivery)
                    yield (role, word, 'named-without', None, order, delivery)
                    for supply in SUPPLIES:
                        for value in values:
                            yield (role, word, supply, value, order, delivery)


@item('type-by-role', stands_in_for=['xtuml.load.ModelLoader.build_metamodel', 'xtuml.load.deserialize_value',
                                     'xtuml.load.ModelLoader._populate_instance_with_named_arguments',
                                     'xtuml.load.ModelLoader._populate_instance_with_positional_arguments',
                                     'xtuml.load.ModelLoader.populate_associations',
                                     'xtuml.load.ModelLoader.populate_unique_identifiers',
                                     'xtuml.load.ModelLoader.populate_connections'], shards=2, weight=1,
      bound='statements that cooperate across one text: a two-class schema in which one attribute carries any of %d type words '
            '(5 core types, 6 re-spellings in another letter case, 7 words that name no core type: plain words, a class name, '
            'keywords) x 9 roles of that attribute (plain, referential, referred-to, identifying, referential+identifying, '
            'referred-to+identifying, reflexive referential, both ends of an association, part of a composite key) x supply of '
            'a value for it (no rows; named rows leaving it out; positional / named rows giving it one of 6 (thorough 11) '
            'literals of every lexical class) x order of the CREATE TABLE / constraint / INSERT blocks (quick: schema first and '
            'rows first; thorough: all 6 orders, and each also as one input per block); fresh loader per case, non-trivial when '
            'input accepts the text'
            % len(TYPE_WORDS))
def type_by_role(ctx):
    for i, case in enumerate(role_cases(ctx.quick)):
        if i % ctx.nshards != ctx.shard:
            continue
        if i % 64 < ctx.nshards and ctx.expired():
            ctx.exhausted = False
            return
        role, word, supply, value, order, delivery = case
        base, text = role_text(*case)
        outcome = []
        try:
            res = evaluate(text, base, outcome)
        except Exception:       # a block fed first was not accepted: judge the blocks as one text instead
            base, text = [], ''.join(base) + text
            res = evaluate(text, base, outcome)
        ctx.case(key=case, nontrivial=(outcome == ['accepted']))
        for clause, observed, required in res:
            ctx.check(False, clause=clause, input=dict(base=base, text=text, role=role, type=word, supply=supply, value=value,
                                                       order=order, delivery=delivery), observed=observed, required=required)
    ctx.exhausted = True


def replay(item_name, input):
    fmt =lambda res: [dict(clause=c, observed=o, required=r) for c, o, r in res]
    if 'sequence' in input:
        return fmt(run_sequence(input['sequence']))
    if 'history' in input:
        import types
        found = []
        ctx = types.SimpleNamespace(check=lambda cond, clause, input, observed=None, required=None:
                                    found.append((clause, observed, required)))
        s = Session(ctx, input.get('base', []))
        for t in input['history']:
            s.run(t)
        return fmt(found)
    return fmt(evaluate(input['text'], input.get('base', [])))
