"""C11 (bounded tier) -- The consistency check reports exactly the violations present.

Code under test (real code of /repo): xtuml.check_association_integrity, xtuml.check_uniqueness_constraint,
xtuml.check_subtype_integrity, MetaModel.is_consistent, xtuml.consistency_check.main and
bridgepoint.consistency_check.main with their `sys.exit(num_errors > 0)` module tails.

Oracle: bounded/_c11_model.Reference, a plain relational model of the generated specification that counts
(instance, association end) pairs outside the end's multiplicity/conditionality, null identifying values
(None, or zero for an attribute of type unique_id under any spelling) and instances repeating an earlier
instance's identifier.  Models never contain empty-string identifying values (the property does not settle them).

Clauses
  association-count                check_association_integrity(m)
  association-count-restricted     check_association_integrity(m, n)
  identifier-count                 check_uniqueness_constraint(m)
  identifier-count-restricted      check_uniqueness_constraint(m, kind)
  consistent-iff-no-violations     MetaModel.is_consistent()
  subtype-count                    check_subtype_integrity(m, kind, n)
  cli-error-sum/xtuml, cli-error-sum/bridgepoint   value returned by main() for the given -r / -k options
  cli-exit-status/xtuml, cli-exit-status/bridgepoint   exit status of the module run as __main__ (in-process through
                                   runpy, and in a child process for some cases)
  null-id-counted-any-type-spelling   any of the above fails on a model that holds a zero unique id whose type name is
                                   not spelled in upper case, while the same model with the type names in upper case passes
  check-raised                     a check raised an exception on a well-formed model

When an instance repeats under two identifiers at once the property text allows counting it once or twice; both are accepted.
"""
import itertools
import os
import runpy
import shutil
import subprocess
import sys
import tempfile

import vlib.fresh_ply  # noqa: F401
import xtuml
from vlib.bounded import item

from bounded import _c11_model as M
from bounded._c11_model import U, Reference

CARDS = ('1', '1C', 'M', 'MC')
ABSENT_REL = 97
F9_CLAUSE = 'null-id-counted-any-type-spelling'


# ------------------------------------------------------------------ running the command-line tools

def _run_as_main(modname, args):
    """Execute the module as __main__ in this process (its `sys.exit(num_errors > 0)` tail included); returns the exit status."""
    old_argv = sys.argv
    sys.argv = [modname] + list(args)
    try:
        try:
            runpy.run_module(modname, run_name='__main__', alter_sys=True)
            code = None
        except SystemExit as e:
            code = e.code
    finally:
        sys.argv = old_argv
    if code is None:
        return 0
    if isinstance(code, int):      # bool is an int: True -> 1, False -> 0
        return int(code) & 0xff
    return 1


def _run_child(modname, args):
    env = dict(os.environ)
    repo = os.path.dirname(os.path.dirname(os.path.abspath(xtuml.__file__)))
    env['PYTHONPATH'] = repo + os.pathsep + env.get('PYTHONPATH', '')
    env['PYTHONDONTWRITEBYTECODE'] = '1'
    p = subprocess.run([sys.executable, '-m', modname] + list(args), env=env, stdout=subprocess.DEVNULL,
                       stderr=subprocess.DEVNULL, timeout=120)
    return p.returncode


def _cli_args(files, rels, kinds, style):
    opts = []
    for i, r in enumerate(rels):
        form = (style + i) % 3
        opts += ['-r', str(r)] if form == 0 else (['-R', str(r)] if form == 1 else ['-r%d' % r])
    for k in kinds:
        opts += ['-k', k]
    return (opts + list(files)) if style % 2 else (list(files) + opts)


# ------------------------------------------------------------------ evaluation of one case

def _in_range(value, lo_hi):
    return isinstance(value, int) and not isinstance(value, bool) and lo_hi[0] <= value <= lo_hi[1]


def _spec_of(case):
    if case.get('ooaofooa'):
        ooa = M.ooaofooa_schema()
        return dict(classes=ooa['classes'], assocs=ooa['assocs'], idents=ooa['idents'], rows=case['rows'], mode='load',
                    guid=True)
    return case['spec']


def _checks(case, spec, tmpdir):
    """All observations on one specification; returns a list of dict(clause, observed, required)."""
    out = []
    ref = Reference(spec)

    def fail(clause, what, observed, required):
        out.append(dict(clause=clause, observed={'call': what, 'result': observed}, required=required))

    def guarded(clause, what, fn):
        try:
            return True, fn()
        except Exception as e:   # noqa
            out.append(dict(clause='check-raised', observed={'call': what, 'exception': '%s: %s' % (type(e).__name__, e)},
                            required='a count'))
            return False, None

    if not case.get('ooaofooa'):
        m = M.build(spec)
        # associations
        want = ref.association_violations()
        ok, got = guarded('association-count', 'check_association_integrity(m)', lambda: xtuml.check_association_integrity(m))
        if ok and not (got == want and type(got) is int):
            fail('association-count', 'check_association_integrity(m)', got, want)
        rels = sorted(set(a['rel'] for a in spec['assocs'])) + [ABSENT_REL]
        for k, r in enumerate(rels):
            arg = r if k % 2 == 0 else 'R%d' % r
            want = ref.association_violations([r])
            ok, got = guarded('association-count-restricted', 'check_association_integrity(m, %r)' % (arg,),
                              lambda: xtuml.check_association_integrity(m, arg))
            if ok and got != want:
                fail('association-count-restricted', 'check_association_integrity(m, %r)' % (arg,), got, want)
        # identifiers
        want_all = ref.identifier_violations()
        ok, got = guarded('identifier-count', 'check_uniqueness_constraint(m)', lambda: xtuml.check_uniqueness_constraint(m))
        if ok and not _in_range(got, want_all):
            fail('identifier-count', 'check_uniqueness_constraint(m)', got, want_all[1] if want_all[0] == want_all[1] else list(want_all))
        for k, c in enumerate(spec['classes']):
            kind = c['name'] if k % 2 == 0 else c['name'].swapcase()
            want = ref.identifier_violations([c['name']])
            ok, got = guarded('identifier-count-restricted', 'check_uniqueness_constraint(m, %r)' % kind,
                              lambda: xtuml.check_uniqueness_constraint(m, kind))
            if ok and not _in_range(got, want):
                fail('identifier-count-restricted', 'check_uniqueness_constraint(m, %r)' % kind, got,
                     want[1] if want[0] == want[1] else list(want))
        # consistent exactly when both are zero
        want = ref.association_violations() == 0 and want_all[1] == 0
        ok, got = guarded('consistent-iff-no-violations', 'm.is_consistent()', lambda: m.is_consistent())
        if ok and got is not want:
            fail('consistent-iff-no-violations', 'm.is_consistent()', got, want)
        # subtypes
        for k, (kind, rel) in enumerate(case.get('subtype', [])):
            arg = rel if k % 2 == 0 else 'R%d' % rel
            want = ref.subtype_violations(kind, rel)
            ok, got = guarded('subtype-count', 'check_subtype_integrity(m, %r, %r)' % (kind, arg),
                              lambda: xtuml.check_subtype_integrity(m, kind, arg))
            if ok and got != want:
                fail('subtype-count', 'check_subtype_integrity(m, %r, %r)' % (kind, arg), got, want)

    # command-line tools
    if case.get('cli') and spec.get('mode', 'load') == 'load':
        if case.get('ooaofooa'):
            tool, modname = 'bridgepoint', 'bridgepoint.consistency_check'
            import bridgepoint.consistency_check as cc
            data = os.path.join(tmpdir, 'model.xtuml')
            with open(data, 'w') as f:
                f.write(M.data_sql(spec))
            files = [data]
        else:
            tool, modname = 'xtuml', 'xtuml.consistency_check'
            import xtuml.consistency_check as cc
            if case.get('one_file'):
                p = os.path.join(tmpdir, 'model.sql')
                with open(p, 'w') as f:
                    f.write(M.schema_sql(spec) + M.data_sql(spec))
                files = [p]
            else:
                p1, p2 = os.path.join(tmpdir, 'schema.sql'), os.path.join(tmpdir, 'data.sql')
                with open(p1, 'w') as f:
                    f.write(M.schema_sql(spec))
                with open(p2, 'w') as f:
                    f.write(M.data_sql(spec))
                files = [p2, p1] if spec.get('data_first') else [p1, p2]
        refx = ref
        for n, entry in enumerate(case['cli']):
            rels, kinds, style = entry[0], entry[1], entry[2]
            extra = list(entry[3]) if len(entry) > 3 else []
            if '-g' in extra:
                refx = Reference(dict(spec, rows=_globals_rows() + spec['rows']))
            else:
                refx = ref
            a = refx.association_violations(rels or None)
            lo, hi = refx.identifier_violations(kinds or None)
            args = _cli_args(files, rels, kinds, style) + extra
            shown = [x if not x.startswith(tmpdir) else os.path.basename(x) for x in args]
            ok, got = guarded('cli-error-sum/' + tool, 'main(%r)' % (shown,), lambda: cc.main(list(args)))
            if ok and not _in_range(got, (a + lo, a + hi)):
                fail('cli-error-sum/' + tool, 'main(%r)' % (shown,), got, a + hi if lo == hi else [a + lo, a + hi])
            if n < case.get('exit_checks', 1):
                want = 1 if a + hi > 0 else 0
                ok, got = guarded('cli-exit-status/' + tool, 'python -m %s %s (runpy)' % (modname, ' '.join(shown)),
                                  lambda: _run_as_main(modname, args))
                if ok and (got != 0) != (want != 0):
                    fail('cli-exit-status/' + tool, 'python -m %s %s (runpy)' % (modname, ' '.join(shown)), got,
                         'non-zero' if want else 0)
                if case.get('child') and n == 0:
                    ok, got = guarded('cli-exit-status/' + tool, 'python -m %s %s (child process)' % (modname, ' '.join(shown)),
                                      lambda: _run_child(modname, args))
                    if ok and (got != 0) != (want != 0):
                        fail('cli-exit-status/' + tool, 'python -m %s %s (child process)' % (modname, ' '.join(shown)), got,
                             'non-zero' if want else 0)
    return out


def _upper_types(spec):
    return dict(spec, classes=[dict(c, attrs=[[n, U(t)] for n, t in c['attrs']]) for c in spec['classes']])


_SCRATCH = {}


def _scratch_dir():
    """One scratch directory per process, created with tempfile.mkdtemp() and removed by _drop_scratch()."""
    d = _SCRATCH.get(os.getpid())
    if d is None or not os.path.isdir(d):
        d = _SCRATCH[os.getpid()] = tempfile.mkdtemp(prefix='c11_')
    return d


def _drop_scratch():
    d = _SCRATCH.pop(os.getpid(), None)
    if d:
        shutil.rmtree(d, ignore_errors=True)


def evaluate(case, keep_scratch=False):
    tmpdir = _scratch_dir() if case.get('cli') else None
    try:
        spec = _spec_of(case)
        if case.get('ooaofooa'):
            try:
                Reference(spec).identifier_violations()
            except (RuntimeError, RecursionError):
                return []     # referential attributes that refer to each other in a circle: no defined value, case skipped
        out = _checks(case, spec, tmpdir)
        if out and not case.get('ooaofooa'):
            twin = _upper_types(spec)
            if twin != spec and Reference(spec).has_zero_unique_id():
                # the same model with its type names in upper case: an observation that fails only on the original is a
                # failure of type-name spelling
                twin_fails = set((f['clause'], f['observed'].get('call')) for f in _checks(case, twin, tmpdir))
                out = [f if (f['clause'], f['observed'].get('call')) in twin_fails else
                       dict(clause=F9_CLAUSE, observed=dict(f['observed'], clause=f['clause']), required=f['required'])
                       for f in out]
        return out
    finally:
        if tmpdir and not keep_scratch:
            _drop_scratch()


# ------------------------------------------------------------------ the globals of the BridgePoint metamodel (-g)

_GLOBALS = None


def _split_values(text):
    vals, cur, i, n = [], '', 0, len(text)
    while i < n:
        ch = text[i]
        if ch == "'":
            j = i + 1
            while True:
                if text[j] == "'" and text[j + 1:j + 2] == "'":
                    j += 2
                elif text[j] == "'":
                    break
                else:
                    j += 1
            cur += text[i:j + 1]
            i = j + 1
        elif ch == '"':
            j = text.index('"', i + 1)
            cur += text[i:j + 1]
            i = j + 1
        elif ch == ',':
            vals.append(cur.strip())
            cur = ''
            i += 1
        else:
            cur += ch
            i += 1
    if cur.strip():
        vals.append(cur.strip())
    return vals


def _globals_rows():
    """The INSERT statements of bridgepoint.schema.globals, read with an own little reader."""
    global _GLOBALS
    if _GLOBALS is not None:
        return _GLOBALS
    import re
    import uuid
    from bridgepoint import schema
    ooa = M.ooaofooa_schema()
    classes = dict((U(c['name']), c) for c in ooa['classes'])
    text = '\n'.join(l for l in schema.globals.split('\n') if not l.strip().startswith('--'))
    rows = []
    pos = 0
    rx = re.compile(r'INSERT\s+INTO\s+(\w+)\s+VALUES\s*\(', re.S)
    while True:
        mo = rx.search(text, pos)
        if not mo:
            break
        # find the closing parenthesis outside quotes
        i = mo.end()
        depth_q = None
        while True:
            ch = text[i]
            if depth_q:
                if ch == depth_q:
                    if depth_q == "'" and text[i + 1:i + 2] == "'":
                        i += 1
                    else:
                        depth_q = None
            elif ch in '\'"':
                depth_q = ch
            elif ch == ')':
                break
            i += 1
        raw = _split_values(text[mo.end():i])
        attrs = classes[U(mo.group(1))]['attrs']
        assert len(raw) == len(attrs), (mo.group(1), raw)
        vals = []
        for (an, ty), v in zip(attrs, raw):
            ty = U(ty)
            if ty == 'UNIQUE_ID':
                vals.append(uuid.UUID(v[1:-1]).int if v.startswith('"') else int(v))
            elif ty == 'STRING':
                vals.append(v[1:-1].replace("''", "'"))
            elif ty == 'BOOLEAN':
                vals.append(v.upper() == 'TRUE' or v == '1')
            elif ty == 'INTEGER':
                vals.append(int(v))
            else:
                vals.append(float(v))
        rows.append([mo.group(1), vals])
        pos = i
    _GLOBALS = rows
    return rows


# ------------------------------------------------------------------ generators of specifications

def _tuples(domain, maxlen):
    for n in range(maxlen + 1):
        for t in itertools.product(domain, repeat=n):
            yield t


def _api_variant(spec):
    """The same population built through the API (explicit relate calls) when no 'one' end is over-populated."""
    ref = Reference(spec)
    links = []
    for ai, a in enumerate(spec['assocs']):
        for s, t in ref.links[ai]:
            links.append([ai, s, t])
        for i in range(len(ref.rows)):
            if len(ref.targets(ai, i)) > 1 and 'M' not in a['tgt_card']:
                return None
            if len(ref.sources(ai, i)) > 1 and 'M' not in a['src_card']:
                return None
    # referential values are not stored through the API: they are read through the links
    return dict(spec, mode='api', links=links, ops=[])


def shape_cases(maxlen):
    """One association of every shape over populations with missing, single and several partners."""
    k = 0
    for src_card in CARDS:
        for tgt_card in CARDS:
            base = dict(classes=[dict(name='A', attrs=[['Id', 'INTEGER']]), dict(name='B', attrs=[['Id', 'INTEGER'], ['A_Id', 'INTEGER']])],
                        idents=[['A', 'I1', ['Id']], ['B', 'I1', ['Id']]],
                        assocs=[dict(rel=1, src='B', src_keys=['A_Id'], src_card=src_card, src_phrase='', tgt='A', tgt_keys=['Id'],
                                     tgt_card=tgt_card, tgt_phrase='')])
            for a_ids in _tuples((1, 2), maxlen):
                for b_refs in _tuples((1, 2, 9), maxlen):
                    k += 1
                    rows = [['A', [i]] for i in a_ids] + [['B', [10 + j, r]] for j, r in enumerate(b_refs)]
                    spec = dict(base, rows=rows, mode='load', data_first=bool(k % 2), guid=False)
                    cli = [[[], [], k % 4]]
                    if k % 3 == 0:
                        cli += [[[1], [], k % 4], [[], ['B'], k % 4], [[ABSENT_REL], ['a'], k % 4]]
                    yield dict(spec=spec, cli=cli if k % 2 else None, one_file=bool(k % 4 == 1))
                    api = _api_variant(spec)
                    if api is not None and k % 2 == 0:
                        yield dict(spec=api)
            # reflexive
            base = dict(classes=[dict(name='N', attrs=[['Id', 'INTEGER'], ['Next_Id', 'INTEGER']])],
                        idents=[['N', 'I1', ['Id']]],
                        assocs=[dict(rel=2, src='N', src_keys=['Next_Id'], src_card=src_card, src_phrase='prev', tgt='N', tgt_keys=['Id'],
                                     tgt_card=tgt_card, tgt_phrase='next')])
            for rows_t in _tuples([(i, r) for i in (1, 2) for r in (1, 2, 9)], maxlen):
                k += 1
                spec = dict(base, rows=[['N', list(r)] for r in rows_t], mode='load', data_first=bool(k % 2), guid=False)
                yield dict(spec=spec, cli=[[[], [], k % 4], [[2], ['N'], k % 4]] if k % 2 else None, one_file=bool(k % 4 == 1))
                api = _api_variant(spec)
                if api is not None and k % 2 == 0:
                    yield dict(spec=api)


ID_SPELLINGS = ('UNIQUE_ID', 'unique_id', 'Unique_Id', 'uNiQuE_iD')


def identifier_cases(maxrows1, maxrows2):
    """Identifier sets with null and duplicate values."""
    k = 0
    domains = {'INTEGER': (None, 0, 1), 'STRING': (None, 'a', 'b')}
    for sp in ID_SPELLINGS:
        domains[sp] = (None, 0, 1)
    # one identifying attribute
    for ty in ('INTEGER', 'STRING') + ID_SPELLINGS:
        for vals in _tuples(domains[ty], maxrows1):
            k += 1
            spec = dict(classes=[dict(name='X', attrs=[['K', ty], ['P', 'INTEGER']])], idents=[['X', 'I1', ['K']]], assocs=[],
                        rows=[['X', [v, 5]] for v in vals], mode='load', guid=bool(k % 2), data_first=False)
            yield dict(spec=spec, cli=[[[], [], k % 4], [[], ['x'], k % 4]] if k % 2 else None, one_file=True)
            yield dict(spec=dict(spec, mode='api', links=[], ops=[]))
    # two identifying attributes: one composite identifier / two identifiers / overlapping identifiers
    layouts = [[['X', 'I1', ['K', 'L']]], [['X', 'I1', ['K']], ['X', 'I2', ['L']]], [['X', 'I1', ['K', 'L']], ['X', 'I2', ['L']]]]
    for t1, t2 in (('INTEGER', 'INTEGER'), ('unique_id', 'STRING'), ('UNIQUE_ID', 'Unique_Id'), ('STRING', 'uNiQuE_iD')):
        for idents in layouts:
            for rows_t in _tuples(list(itertools.product(domains[t1], domains[t2])), maxrows2):
                if any(r == (None, None) for r in rows_t):
                    continue   # a row without any value cannot be written as SQL text
                k += 1
                spec = dict(classes=[dict(name='X', attrs=[['K', t1], ['L', t2]])], idents=idents, assocs=[],
                            rows=[['X', list(r)] for r in rows_t], mode=('load', 'api')[k % 2], guid=bool(k % 4 < 2), data_first=False,
                            links=[], ops=[])
                yield dict(spec=spec, cli=[[[], [], k % 4]] if k % 4 == 0 else None, one_file=True)


def subtype_cases(maxlen):
    k = 0
    base = dict(classes=[dict(name='S', attrs=[['Id', 'INTEGER']]), dict(name='T1', attrs=[['S_Id', 'INTEGER']]),
                         dict(name='T2', attrs=[['S_Id', 'INTEGER'], ['Q', 'INTEGER']])],
                idents=[['S', 'I1', ['Id']], ['T1', 'I1', ['S_Id']], ['T2', 'I1', ['S_Id']]],
                assocs=[dict(rel=3, src='T1', src_keys=['S_Id'], src_card='1C', src_phrase='', tgt='S', tgt_keys=['Id'], tgt_card='1', tgt_phrase=''),
                        dict(rel=3, src='T2', src_keys=['S_Id'], src_card='1C', src_phrase='', tgt='S', tgt_keys=['Id'], tgt_card='1', tgt_phrase='')])
    for s_ids in _tuples((1, 2, 3), maxlen):
        if len(set(s_ids)) != len(s_ids) and len(s_ids) > 2:
            continue
        for t1 in _tuples((1, 2, 9), 2):
            for t2 in _tuples((1, 3, 9), 2):
                k += 1
                rows = [['S', [i]] for i in s_ids] + [['T1', [r]] for r in t1] + [['T2', [r, 0]] for r in t2]
                spec = dict(base, rows=rows, mode='load', data_first=bool(k % 2), guid=False)
                case = dict(spec=spec, subtype=[['S', 3], ['s', 3], ['S', ABSENT_REL]], cli=[[[3], ['T1', 'S'], k % 4]] if k % 5 == 0 else None)
                yield case
                api = _api_variant(spec)
                if api is not None and k % 3 == 0:
                    if api['links'] and k % 2:
                        api = dict(api, ops=[['unrelate'] + api['links'][0]])
                    yield dict(spec=api, subtype=[['S', 3]])


def random_spec(rng, zero_ids=True):
    """<= 3 classes, <= 3 associations, <= 4 instances per class."""
    names = ['A', 'Bb', 'cK']
    nclasses = rng.randint(1, 3)
    classes, idents = [], []
    idtype = {}
    for ci in range(nclasses):
        ty = rng.choice(('INTEGER', 'STRING') + ID_SPELLINGS)
        idtype[names[ci]] = ty
        attrs = [['Id', ty], ['N', 'INTEGER']]
        classes.append(dict(name=names[ci], attrs=attrs))
        how = rng.randint(0, 5)
        if how <= 2:
            idents.append([names[ci], 'I1', ['Id']])
        elif how == 3:
            idents.append([names[ci], 'I1', ['Id']])
            idents.append([names[ci], 'I2', ['N']])
        elif how == 4:
            idents.append([names[ci], 'I1', ['Id', 'N']])
        # how == 5: no identifier: the class can only be the referring side
    assocs = []
    rel = 0
    for _ in range(rng.randint(0, 3)):
        targets = [c for c in classes if any(i[0] == c['name'] for i in idents)]
        if not targets:
            break
        tgt = rng.choice(targets)
        src = rng.choice(classes)
        # identifiers made of referential attributes may be referred to only from a later class (no cycles)
        later = classes.index(src) > classes.index(tgt)
        ident = rng.choice([i for i in idents if i[0] == tgt['name'] and (later or all(not a.startswith('Ref') for a in i[2]))] or [None])
        if ident is None:
            continue
        r = rel + 1
        if assocs and rng.random() < 0.3:
            prev = assocs[-1]
            # a shared association number (subtype-like): same referred-to class, another referring class
            if (prev['tgt'] == tgt['name'] and prev['src'] != prev['tgt'] and src is not tgt
                    and not any(a['rel'] == prev['rel'] and a['src'] == src['name'] for a in assocs)):
                r = prev['rel']
        rel = max(rel, r)
        tkeys = list(ident[2])
        tattr = dict((a[0], a[1]) for a in tgt['attrs'])
        skeys = []
        for tk in tkeys:
            name = 'Ref%d_%s' % (len(assocs) + 1, tk.replace('Ref', 'F'))
            sty = tattr[tk]
            if U(sty) == 'UNIQUE_ID':
                sty = rng.choice(ID_SPELLINGS)
            src['attrs'].append([name, sty])
            skeys.append(name)
        reflexive = src is tgt
        assocs.append(dict(rel=r, src=src['name'], src_keys=skeys, src_card=rng.choice(CARDS), src_phrase='is after' if reflexive else '',
                           tgt=tgt['name'], tgt_keys=tkeys, tgt_card=rng.choice(CARDS), tgt_phrase='is before' if reflexive else ''))
        if rng.random() < 0.25 and not any(i[0] == src['name'] and i[1] == 'I3' for i in idents):
            idents.append([src['name'], 'I3', list(skeys)])   # referential attributes that are identifying
    rows = []
    for c in classes:
        for j in range(rng.randint(0, 4)):
            vals = []
            for an, ty in c['attrs']:
                uty = U(ty)
                if an.startswith('Ref'):
                    dom = {'INTEGER': (1, 2, 3, 9), 'STRING': ('a', 'b', 'z'), 'UNIQUE_ID': (1, 2, 3, 9)}[uty]
                    vals.append(rng.choice(dom))
                elif an == 'N':
                    vals.append(rng.choice((0, 1, 2)))
                else:
                    dom = {'INTEGER': (0, 1, 2, 3), 'STRING': ('a', 'b', 'c'), 'UNIQUE_ID': (1, 2, 3, 0) if zero_ids else (1, 2, 3)}[uty]
                    vals.append(None if rng.random() < 0.08 else rng.choice(dom))
            rows.append([c['name'], vals])
    return dict(classes=classes, idents=idents, assocs=assocs, rows=rows, mode='load', guid=rng.random() < 0.5,
                data_first=rng.random() < 0.5)


def random_cases(rng, count, thorough):
    for k in range(count):
        spec = random_spec(rng)
        rels = sorted(set(a['rel'] for a in spec['assocs']))
        kinds = [c['name'] for c in spec['classes']]
        cli = [[[], [], k % 4]]
        subsets_r = [list(s) for n in range(len(rels) + 1) for s in itertools.combinations(rels + [ABSENT_REL], n)]
        subsets_k = [list(s) for n in range(len(kinds) + 1) for s in itertools.combinations(kinds, n)]
        combos = [(r, kk) for r in subsets_r for kk in subsets_k if r or kk]
        if not thorough:
            combos = rng.sample(combos, min(4, len(combos)))
        for r, kk in combos:
            cli.append([r, [x if rng.random() < 0.7 else x.swapcase() for x in kk], rng.randint(0, 3)])
        subtype = []
        for a in spec['assocs']:
            if a['src'] != a['tgt'] and not a['src_phrase'] and [a['tgt'], a['rel']] not in subtype:
                subtype.append([a['tgt'], a['rel']])
        yield dict(spec=spec, cli=cli, subtype=subtype, one_file=bool(k % 2), exit_checks=2, child=thorough and k % 25 == 0)
        api = _api_variant(spec)
        if api is not None:
            ops = []
            if api['links'] and rng.random() < 0.5:
                ops.append(['unrelate'] + rng.choice(api['links']))
            if api['rows'] and rng.random() < 0.5:
                d = rng.randrange(len(api['rows']))
                if not any(o[2] == d or o[3] == d for o in ops):
                    ops.append(['delete', d])
            yield dict(spec=dict(api, ops=ops), subtype=subtype)


def _ooa_usable_classes():
    ooa = M.ooaofooa_schema()
    bad = set()
    for a in ooa['assocs']:
        if set(a['src_keys']) & set(a['tgt_keys']) and a['src'] == a['tgt']:
            bad.add(a['src'])
    return [c for c in ooa['classes'] if c['name'] not in bad]


def ooaofooa_cases(rng, count, thorough):
    """Instance files for the BridgePoint tool: <= 3 classes of the BridgePoint metamodel, <= 4 instances each."""
    ooa = M.ooaofooa_schema()
    usable = _ooa_usable_classes()
    by_name = dict((c['name'], c) for c in usable)
    for k in range(count):
        first = rng.choice(usable)
        chosen = [first]
        # prefer classes connected to the first one
        neigh = [a['tgt'] for a in ooa['assocs'] if a['src'] == first['name']] + [a['src'] for a in ooa['assocs'] if a['tgt'] == first['name']]
        rng.shuffle(neigh)
        for n in neigh:
            if n in by_name and by_name[n] not in chosen and len(chosen) < 3:
                chosen.append(by_name[n])
        rows = []
        for c in chosen:
            for j in range(rng.randint(1, 4)):
                vals = []
                for an, ty in c['attrs']:
                    uty = U(ty)
                    if uty == 'UNIQUE_ID':
                        vals.append(rng.choice((0, 1, 1, 2, 3)))
                    elif uty == 'STRING':
                        vals.append(rng.choice(('x', 'y')))
                    elif uty == 'BOOLEAN':
                        vals.append(rng.random() < 0.5)
                    else:
                        vals.append(rng.choice((0, 1, 2)))
                rows.append([c['name'], vals])
        rels = sorted(set(a['rel'] for a in ooa['assocs'] if a['src'] in [c['name'] for c in chosen] or a['tgt'] in [c['name'] for c in chosen]))
        cli = [[[], [], k % 4]]
        if rels:
            cli.append([[rng.choice(rels)], [], rng.randint(0, 3)])
            cli.append([rng.sample(rels, min(2, len(rels))), [rng.choice(chosen)['name']], rng.randint(0, 3)])
        cli.append([[], [c['name'] if rng.random() < 0.5 else c['name'].lower() for c in chosen], rng.randint(0, 3)])
        if k % 4 == 0:
            cli.append([[], [], k % 4, ['-g']])
        yield dict(ooaofooa=True, rows=rows, cli=cli, exit_checks=1, child=thorough and k % 20 == 0)


# ------------------------------------------------------------------ items

def _drive(ctx, cases, sharded=True, nontrivial=None):
    try:
        _drive1(ctx, cases, sharded)
    finally:
        _drop_scratch()


def _drive1(ctx, cases, sharded):
    for i, case in enumerate(cases):
        if sharded and i % ctx.nshards != ctx.shard:
            continue
        if ctx.expired():
            ctx.exhausted = False
            return
        rows = case['rows'] if case.get('ooaofooa') else case['spec']['rows']
        ctx.case(key=case, nontrivial=len(rows) >= 1)
        for f in evaluate(case, keep_scratch=True):
            ctx.check(False, clause=f['clause'], input=case, observed=f['observed'], required=f['required'])
    ctx.exhausted = True


@item('association-shapes', stands_in_for=['xtuml.consistency_check.check_link_integrity', 'xtuml.consistency_check.check_association_integrity',
                                           'xtuml.meta.MetaModel.is_consistent', 'xtuml.consistency_check.main'],
      bound='one association of each of the 16 shapes {1,1C,M,MC}x{1,1C,M,MC}, binary (A ids over {1,2}, B references over {1,2,dangling}, '
            '0..2 (quick) / 0..3 (thorough) instances per class, duplicate keys give over-populated ends) and reflexive with phrases; loaded from SQL text '
            'and, where no single end is over-populated, also built with relate(); every second loaded model also through the xtuml tool',
      shards=4, weight=2)
def association_shapes(ctx):
    _drive(ctx, shape_cases(2 if ctx.quick else 3))


@item('identifier-sets', stands_in_for=['xtuml.consistency_check.check_uniqueness_constraint', 'xtuml.meta.MetaModel.is_consistent'],
      bound='one class, identifier over one attribute (integer, string, unique_id in 4 spellings; values null/0/1 resp. null/a/b; <= 4 instances) or '
            'over two attributes (composite, two identifiers, overlapping identifiers; 4 type pairs; <= 2 (quick) / <= 3 (thorough) instances); '
            'loaded (named INSERT for missing values, ids as numbers or guid text) and through the API',
      shards=3, weight=2)
def identifier_sets(ctx):
    _drive(ctx, identifier_cases(4, 2 if ctx.quick else 3))


@item('subtypes', stands_in_for=['xtuml.consistency_check.check_subtype_integrity'],
      bound='supertype S with two subtypes over R3; S ids over {1,2,3} (<= 2 quick / <= 3 thorough instances), each subtype <= 2 instances referring to '
            '{present, other, dangling}; loaded and via API (with one unrelate)',
      shards=2, weight=1)
def subtypes(ctx):
    _drive(ctx, subtype_cases(2 if ctx.quick else 3))


@item('random-models', stands_in_for=['xtuml.consistency_check.check_association_integrity', 'xtuml.consistency_check.check_uniqueness_constraint',
                                      'xtuml.consistency_check.main', 'xtuml.consistency_check.__main__ tail'],
      bound='random models: <= 3 classes, <= 3 associations (any shape, reflexive with phrases, shared association numbers, composite keys, '
            'referential attributes inside identifiers), <= 4 instances per class, null/zero/duplicate identifying values, type names in 4 spellings; '
            'loaded and via API (with unrelate/delete); xtuml tool with 4 sampled (quick) / all (thorough) subsets of -r and -k; sampled',
      shards=4, weight=2)
def random_models(ctx):
    count = 250 if ctx.quick else 1200   # per shard
    _drive(ctx, random_cases(ctx.rng, count, not ctx.quick), sharded=False)
    ctx.exhausted = False


@item('bridgepoint-tool', stands_in_for=['bridgepoint.consistency_check.main', 'bridgepoint.consistency_check.__main__ tail'],
      bound='random instance files over <= 3 connected classes of the BridgePoint metamodel, <= 4 instances each, ids over {0,1,2,3}; the expected '
            'counts come from the metamodel text read with regular expressions (324 classes, 646 associations); -r, -k, -g; sampled',
      shards=3, weight=1)
def bridgepoint_tool(ctx):
    count = 20 if ctx.quick else 150     # per shard
    _drive(ctx, ooaofooa_cases(ctx.rng, count, not ctx.quick), sharded=False)
    ctx.exhausted = False


def replay(item_name, input):
    import logging
    logging.disable(logging.CRITICAL)
    return evaluate(input)
