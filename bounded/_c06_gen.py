"""Generator of well-formed, name-resolved OAL programs over the C06 seed model, with the facts the property speaks about
computed from the generator's own tree and printed text (never from the parser under test):

  for every statement: kind (ooaofooa subtype of ACT_SMT), line, first and last column, the statement list it is a member of
  for every statement list: its members in source order
  for every declared variable: name, declaring statement list, type first assigned
  for every expression: OAL type (None = not fixed by the property, e.g. mixed arithmetic)
  for every invocation: its parameters in source order;  for every select-related: its navigation steps in source order

Types are written 'integer', 'real', 'string', 'boolean', 'unique_id', 'Colour', 'void', 'inst_ref<K>', 'inst_ref_set<K>'.

Scoping.  A variable is declared by the first statement that assigns / creates / selects / iterates it while no variable of that
name is visible, in the block (statement list) of that statement; it is visible until that block ends.  Every declaration is a
`cell` dict(name, ty, stmt = the declaring statement); every expression node that reads or writes a variable carries the cell
the name resolves to where it is written.  With `reuse` > 0 the name of a new variable is, with that probability, a name that an
already finished block declared (possibly with another type), so one name denotes several variables in nested and sibling
blocks.  `generate(..., skeleton=...)` builds a program with a prescribed block structure and prescribed declarations/uses of
named variables (see Gen.sk_block) around which everything else is generated as usual.
"""
from . import _c06_model as M

SCALARS = ['integer', 'real', 'string', 'boolean']
# what a forced statement kind needs in scope: instance variables of these classes
NEEDS = {'assign_attr': 'A', 'select_related': 'A', 'select_related_where': 'A', 'delete': 'A', 'assign_inst': 'A', 'for': '',
         'relate': 'AB', 'unrelate': 'AB', 'relate_phrase': 'A', 'unrelate_phrase': 'A', 'relate_using': 'ABL', 'unrelate_using': 'ABL',
         'call_iop': 'A'}


def inst(k):
    return 'inst_ref<%s>' % k


def iset(k):
    return 'inst_ref_set<%s>' % k


def klass(t):
    return t[t.index('<') + 1:-1]


def is_inst(t):
    return t is not None and t.startswith('inst_ref<')


def is_set(t):
    return t is not None and t.startswith('inst_ref_set<')


class Gen(object):
    def __init__(self, rng, home, forced=None, reuse=0.0):
        self.rng = rng
        self.home = home
        kind, ret, params, has_self = M.HOMES[home]
        self.ret, self.params, self.has_self = ret, list(params), has_self
        self.scopes = [{}]          # innermost last: name -> cell dict(name, ty, stmt)
        self.cells = []             # every declaration, in order of appearance
        self.retired = []           # names declared by blocks that have ended
        self.reuse = reuse          # probability of naming a new variable like a variable of a finished block
        self.reserved = set()       # names prescribed by a skeleton: never picked for another variable
        self.loops = 0
        self.n = 0
        self.forced = list(forced or [])    # statement kinds to produce first (systematic part)
        self.where_class = None
        self.forcing = False

    # ---------------------------------------------------------------- names ----------------------------------------------------
    def fresh(self, prefix='v'):
        if self.reuse:
            dead = [n for n in self.retired if self.cell(n) is None and n not in self.reserved]
            if dead and self.rng.random() < self.reuse:
                return self.rng.choice(dead)
        self.n += 1
        return '%s%d' % (prefix, self.n)

    def cell(self, name):
        for s in reversed(self.scopes):
            if name in s:
                return s[name]
        return None

    def lookup(self, name):
        c = self.cell(name)
        return None if c is None else c['ty']

    def visible(self, pred):
        out = {}
        for s in self.scopes:
            for k, v in s.items():
                out[k] = v['ty']
        return sorted(k for k, v in out.items() if pred(v))

    def declare(self, name, ty):
        assert self.cell(name) is None, name
        c = dict(name=name, ty=ty, stmt=None)
        self.scopes[-1][name] = c
        self.cells.append(c)

    def var(self, name):
        """Expression node for the variable the name resolves to here."""
        c = self.cell(name)
        return dict(k='var', t=c['ty'], s=name, name=name, cell=c)

    def push(self):
        self.scopes.append({})

    def pop(self):
        for n in self.scopes.pop():
            if n not in self.retired:
                self.retired.append(n)

    # ---------------------------------------------------------------- expressions ----------------------------------------------
    def lit(self, ty):
        r = self.rng
        if ty == 'integer':
            return dict(k='lit', t=ty, s=str(r.choice([0, 1, 2, 7, 42, 100])))
        if ty == 'real':
            return dict(k='lit', t=ty, s=r.choice(['0.5', '1.25', '3.0', '10.75']))
        if ty == 'string':
            return dict(k='lit', t=ty, s='"%s"' % r.choice(['', 'a', 'hello world', 'x;y', 'end if']))
        if ty == 'boolean':
            return dict(k='lit', t=ty, s=r.choice(['true', 'false', 'TRUE', 'False']))
        raise ValueError(ty)

    def instance_roots(self, kl=None):
        """Expressions denoting one instance: instance variables, self, param.pa, selected."""
        out = []
        for v in self.visible(is_inst):
            t = self.lookup(v)
            if kl is None or klass(t) == kl:
                out.append(self.var(v))
        if self.has_self and (kl in (None, 'A')):
            out.append(dict(k='self', t=inst('A'), s='self'))
        if kl in (None, 'A') and any(p == 'pa' for p, _ in self.params):
            out.append(dict(k='param', t=inst('A'), s='param.pa', name='pa'))
        if self.where_class and kl in (None, self.where_class):
            out.append(dict(k='selected', t=inst(self.where_class), s='selected'))
        return out

    def attr_read(self, ty):
        cands = []
        for root in self.instance_roots():
            for an, at in M.ATTRS[klass(root['t'])]:
                if at == ty:
                    cands.append((root, an))
        if not cands:
            return None
        root, an = self.rng.choice(cands)
        return dict(k='attr', t=ty, s='%s.%s' % (root['s'], an), root=root, name=an)

    def param_read(self, ty):
        ps = [p for p, t in self.params if t == ty]
        if not ps:
            return None
        p = self.rng.choice(ps)
        return dict(k='param', t=ty, s='param.%s' % p, name=p)

    def var_read(self, ty):
        vs = self.visible(lambda t: t == ty)
        if not vs:
            return None
        v = self.rng.choice(vs)
        return self.var(v)

    def call(self, ty, depth, statement=False):
        """An invocation whose return type is ty."""
        cands = []
        for n, (ret, ps) in M.FUNCTIONS.items():
            if ret == ty:
                cands.append(('function', n, ps, None))
        for n, (ret, ps) in M.BRIDGES.items():
            if ret == ty:
                cands.append(('bridge', n, ps, None))
        for n, (ret, ps) in M.CLASS_OPS.items():
            if ret == ty:
                cands.append(('cop', n, ps, None))
        roots = [r for r in self.instance_roots('A') if r['k'] in ('var', 'self')]
        for n, (ret, ps) in M.INSTANCE_OPS.items():
            if ret == ty:
                for r in roots:
                    cands.append(('iop', n, ps, r))
        if not cands:
            return None
        what, n, ps, root = self.rng.choice(cands)
        args = [(pn, self.expr(pt, depth + 1)) for pn, pt in ps]
        if self.rng.random() < 0.3:
            self.rng.shuffle(args)       # named parameters may be written in any order
        argtext = ', '.join('%s: %s' % (pn, e['s']) for pn, e in args)
        if self.rng.random() < 0.3 and not any(e['s'].startswith(':') for _, e in args):
            argtext = ', '.join('%s:%s' % (pn, e['s']) for pn, e in args)
        head = {'function': '::%s', 'bridge': 'EE::%s', 'cop': 'A::%s'}.get(what)
        head = (head % n) if head else '%s.%s' % (root['s'], n)
        return dict(k='call', t=ty, s='%s(%s)' % (head, argtext), what=what, name=n, args=args, root=root)

    def atom(self, e):
        return e['s'] if e['k'] in ('lit', 'var', 'attr', 'param', 'call', 'enum', 'const', 'self', 'selected', 'paren') else '(%s)' % e['s']

    def binary(self, ty, op, l, r):
        return dict(k='bin', t=ty, op=op, l=l, r=r, s='%s %s %s' % (self.atom(l), op, self.atom(r)))

    def expr(self, ty, depth=0):
        r = self.rng
        leafy = depth >= 2 or r.random() < 0.35
        options = []
        if ty in SCALARS:
            options.append(lambda: self.lit(ty))
        for f in (self.var_read, self.attr_read, self.param_read):
            options.append(lambda f=f: f(ty))
        if ty == 'Colour':
            options.append(lambda: dict(k='enum', t=ty, s='Colour::%s' % r.choice(M.ENUM[1])))
        for cn, ct, _ in M.CONSTS:
            if ct == ty:
                options.append(lambda cn=cn: dict(k='const', t=ty, s=r.choice([cn, 'CONSTS::' + cn]), name=cn))
        if not leafy:
            if ty in ('integer', 'real'):
                options.append(lambda: self.binary(ty, r.choice(['+', '-', '*', '/'] + (['%'] if ty == 'integer' else [])),
                                                   self.expr(ty, depth + 1), self.expr(ty, depth + 1)))
                options.append(lambda: self.unary(ty, '-', self.expr(ty, depth + 1)))
            if ty == 'integer':
                options.append(self.cardinality)
                # mixed arithmetic: the type of the result is not fixed by the property
                options.append(lambda: dict(self.binary(None, r.choice(['+', '*']), self.expr('integer', depth + 1), self.expr('real', depth + 1)), t=None))
            if ty == 'string':
                options.append(lambda: self.binary(ty, '+', self.expr(ty, depth + 1), self.expr(ty, depth + 1)))
            if ty == 'boolean':
                options.append(lambda: self.comparison(depth))
                options.append(lambda: self.comparison(depth))
                options.append(lambda: self.binary(ty, r.choice(['and', 'or', 'AND', 'Or']), self.expr(ty, depth + 1), self.expr(ty, depth + 1)))
                options.append(lambda: self.unary(ty, r.choice(['not', 'NOT']), self.expr(ty, depth + 1)))
                options.append(self.emptiness)
            options.append(lambda: self.call(ty, depth))
            options.append(lambda: self.paren(self.expr(ty, depth + 1)))
        for _ in range(12):
            e = r.choice(options)()
            if e is not None:
                return e
        if ty in SCALARS:
            return self.lit(ty)
        if ty == 'Colour':
            return dict(k='enum', t=ty, s='Colour::Red')
        if ty == 'unique_id':
            e = self.attr_read(ty)
            if e:
                return e
        raise LookupError(ty)

    def paren(self, e):
        return dict(e, s='(%s)' % e['s'], k='paren', inner=e)

    def unary(self, ty, op, e):
        sep = '' if op == '-' and self.rng.random() < 0.5 else ' '
        return dict(k='un', t=ty, op=op, e=e, s='%s%s%s' % (op, sep, self.atom(e)))

    def cardinality(self):
        vs = self.visible(lambda t: is_set(t) or is_inst(t))
        if not vs:
            return None
        v = self.rng.choice(vs)
        return dict(k='un', t='integer', op='cardinality', e=self.var(v), s='cardinality %s' % v)

    def emptiness(self):
        vs = self.visible(lambda t: is_set(t) or is_inst(t))
        if not vs:
            return None
        v = self.rng.choice(vs)
        op = self.rng.choice(['empty', 'not_empty', 'NOT_EMPTY'])
        return dict(k='un', t='boolean', op=op, e=self.var(v), s='%s %s' % (op, v))

    def comparison(self, depth):
        r = self.rng
        ty = r.choice(['integer', 'integer', 'real', 'string', 'boolean', 'Colour', 'unique_id'])
        try:
            l, rr = self.expr(ty, depth + 1), self.expr(ty, depth + 1)
        except LookupError:
            return None
        ops = ['==', '!='] + (['<', '<=', '>', '>='] if ty in ('integer', 'real', 'string') else [])
        return self.binary('boolean', r.choice(ops), l, rr)

    def where(self, kl):
        """Boolean expression of a where clause over `selected` of class kl."""
        self.where_class = kl
        try:
            cands = [(an, at) for an, at in M.ATTRS[kl] if at in SCALARS or at == 'Colour']
            an, at = self.rng.choice(cands)
            sel = dict(k='attr', t=at, s='selected.%s' % an, root=dict(k='selected', t=inst(kl), s='selected'), name=an)
            other = self.expr(at, 1)
            e = self.binary('boolean', '==' if at in ('boolean', 'Colour') else self.rng.choice(['==', '!=', '<', '>=']), sel, other)
            if self.rng.random() < 0.4:
                e = self.binary('boolean', self.rng.choice(['and', 'or']), e, self.expr('boolean', 1))
            return e
        finally:
            self.where_class = None

    # ---------------------------------------------------------------- statements -----------------------------------------------
    def block(self, size, depth):
        self.push()
        try:
            return self.statements(size, depth)
        finally:
            self.pop()

    def statements(self, size, depth):
        out = []
        while size > 0:
            s = self.statement(size, depth)
            out.append(s)
            size -= s['size']
        return out

    def kinds(self, size, depth):
        k = ['assign', 'assign', 'assign_attr', 'create', 'create_nv', 'select_from', 'select_from_where', 'call', 'call',
             'select_related', 'select_related', 'select_related_where', 'relate', 'unrelate', 'delete', 'assign_inst', 'control']
        if size >= 2 and depth < 3:
            k += ['if', 'if', 'while', 'for']
        if self.loops:
            k += ['break', 'continue']
        k += ['return']
        return k

    def statement(self, size, depth):
        mark = len(self.cells)
        s = self._statement(size, depth)
        self.owns(s, mark)
        return s

    def owns(self, s, mark):
        """The declarations made since `mark` that no nested statement made are made by statement s."""
        for c in self.cells[mark:]:
            if c['stmt'] is None:
                c['stmt'] = s

    def _statement(self, size, depth):
        for _ in range(60):
            self.forcing = bool(self.forced)
            kind = self.forced.pop(0) if self.forced else self.rng.choice(self.kinds(size, depth))
            s = getattr(self, 's_' + kind)(size, depth)
            if s is not None:
                s.setdefault('size', 1)
                s.setdefault('decl', [])
                s['kind'] = kind
                return s
            # a forced kind that needs something first: produce the prerequisite (size 0), then retry the kind
            if self.forcing and kind in NEEDS:
                have = set(klass(self.lookup(v)) for v in self.visible(is_inst))
                missing = [k for k in NEEDS[kind] if k not in have]
                if kind == 'for':
                    pre = self.s_select_from(size, depth, many=True)
                elif missing:
                    pre = self.s_create(size, depth, kl=missing[0], fresh=True)
                else:
                    pre = self.s_create(size, depth, kl='A', fresh=True)
                pre['kind'] = 'prerequisite'
                pre['size'] = 0
                pre.setdefault('decl', [])
                self.forced.insert(0, kind)
                return pre
        raise RuntimeError('no statement could be generated')

    def s_assign(self, size, depth):
        r = self.rng
        ty = r.choice(['integer', 'integer', 'real', 'string', 'boolean', 'Colour', 'unique_id'])
        try:
            e = self.expr(ty)
        except LookupError:
            ty = r.choice(SCALARS)
            e = self.expr(ty)
        existing = self.visible(lambda t: t == ty)
        if existing and e['t'] is not None and r.random() < 0.4:
            name, decl = r.choice(existing), []
        else:
            name = self.fresh()
            decl = [(name, e['t'])]
        kw = 'assign ' if r.random() < 0.2 else ''
        for n, t in decl:
            self.declare(n, t)
        return dict(act='ACT_AI', head='%s%s = %s' % (kw, name, e['s']), rval=e, lval=self.var(name), decl=decl)

    def s_assign_attr(self, size, depth):
        cands = []
        for root in self.instance_roots():
            if root['k'] == 'selected':
                continue
            for an in M.WRITABLE[klass(root['t'])]:
                cands.append((root, an))
        if self.home == 'derived_attribute':
            cands.append((dict(k='self', t=inst('A'), s='self'), 'D'))
        if not cands:
            return None
        root, an = self.rng.choice(cands)
        ty = dict(M.ATTRS[klass(root['t'])])[an]
        e = self.expr(ty)
        return dict(act='ACT_AI', head='%s.%s = %s' % (root['s'], an, e['s']), rval=e,
                    lval=dict(k='attr', t=ty, s='%s.%s' % (root['s'], an), root=root, name=an))

    def s_assign_inst(self, size, depth):
        vs = self.visible(lambda t: is_inst(t) or is_set(t))
        roots = [self.var(v) for v in vs]
        if self.has_self:
            roots.append(dict(k='self', t=inst('A'), s='self'))
        if not roots:
            return None
        e = self.rng.choice(roots)
        name = self.fresh('h')
        self.declare(name, e['t'])
        return dict(act='ACT_AI', head='%s = %s' % (name, e['s']), rval=e, lval=self.var(name), decl=[(name, e['t'])])

    def target_var(self, ty, prefix):
        """A variable to receive an instance (set): an existing one of that type or a fresh implicit declaration."""
        existing = self.visible(lambda t: t == ty)
        if existing and self.rng.random() < 0.3:
            return self.rng.choice(existing), []
        name = self.fresh(prefix)
        return name, [(name, ty)]

    def s_create(self, size, depth, kl=None, fresh=False, name=None):
        kl = kl or self.rng.choice(['A', 'A', 'B', 'L'])
        if name is not None:
            name, decl = self.named_target(name, inst(kl))
        else:
            name, decl = self.target_var(inst(kl), 'i') if not fresh else (self.fresh('i'), None)
        if decl is None:
            decl = [(name, inst(kl))]
        for n, t in decl:
            self.declare(n, t)
        return dict(act='ACT_CR', head='create object instance %s of %s' % (name, kl), decl=decl, var=name)

    def s_create_nv(self, size, depth):
        return dict(act='ACT_CNV', head='create object instance of %s' % self.rng.choice(['A', 'B', 'L']))

    def s_delete(self, size, depth):
        vs = self.visible(is_inst)
        if self.has_self and self.rng.random() < 0.1:
            vs = vs + ['self']
        if not vs:
            return None
        return dict(act='ACT_DEL', head='delete object instance %s' % self.rng.choice(vs))

    def named_target(self, name, ty):
        """The prescribed variable: must be of type ty when visible, else it is declared here."""
        c = self.cell(name)
        assert c is None or c['ty'] == ty, (name, ty)
        return name, ([] if c is not None else [(name, ty)])

    def s_select_from(self, size, depth, many=None, where=False, kl=None, name=None):
        kl = kl or self.rng.choice(['A', 'A', 'B', 'L'])
        many = self.rng.random() < 0.5 if many is None else many
        w = self.where(kl) if where else None
        if name is None:
            name, decl = self.target_var(iset(kl) if many else inst(kl), 's' if many else 'i')
        else:
            name, decl = self.named_target(name, iset(kl) if many else inst(kl))
        for n, t in decl:
            self.declare(n, t)
        kw = self.rng.choice(['instances of ', 'instances of ', ''])
        head = 'select %s %s from %s%s' % ('many' if many else 'any', name, kw, kl)
        if w:
            head += ' where %s' % self.atom_paren(w)
        return dict(act='ACT_FIW' if w else 'ACT_FIO', head=head, decl=decl, where=w, var=name)

    def atom_paren(self, e):
        return '(%s)' % e['s']

    def s_select_from_where(self, size, depth):
        return self.s_select_from(size, depth, where=True)

    def s_select_related(self, size, depth, where=False, name=None):
        roots = [r for r in self.instance_roots() if r['k'] in ('var', 'self')]
        sets = [self.var(v) for v in self.visible(is_set)]
        roots = roots + sets
        if not roots:
            return None
        root = self.rng.choice(roots)
        kl = klass(root['t'])
        many = is_set(root['t'])
        steps = []
        for _ in range(self.rng.choice([1, 1, 2, 3])):
            cands = [s for s in M.STEPS if s[0] == kl]
            st = self.rng.choice(cands)
            steps.append(st)
            kl = st[2]
            many = many or st[4]
        card = self.rng.choice(['any', 'many']) if many else self.rng.choice(['one', 'one', 'any'])
        w = self.where(kl) if where else None
        if name is None:
            name, decl = self.target_var(iset(kl) if card == 'many' else inst(kl), 's' if card == 'many' else 'i')
        else:
            name, decl = self.named_target(name, iset(kl) if card == 'many' else inst(kl))
        for n, t in decl:
            self.declare(n, t)
        chain = ''.join('->%s[%s%s]' % (st[2], st[1], ('.' + st[3]) if st[3] else '') for st in steps)
        head = 'select %s %s related by %s%s' % (card, name, root['s'], chain)
        if w:
            head += ' where %s' % self.atom_paren(w)
        return dict(act='ACT_SEL', sub='ACT_SRW' if w else 'ACT_SR', head=head, decl=decl, where=w, var=name, root=root,
                    steps=[[st[2], st[1], st[3]] for st in steps])

    def s_select_related_where(self, size, depth):
        return self.s_select_related(size, depth, where=True)

    def s_relate(self, size, depth, un=False, want=None):
        r = self.rng
        forms = []
        for f, t, rel, ph, using in M.RELATES:
            if (want == 'using' and not using) or (want == 'phrase' and not ph) or (want == 'plain' and (using or ph)):
                continue
            fs = [x for x in self.instance_roots(f) if x['k'] in ('var', 'self')]
            ts = [x for x in self.instance_roots(t) if x['k'] in ('var', 'self')]
            us = [x for x in self.instance_roots(using) if x['k'] == 'var'] if using else [None]
            if fs and ts and us:
                forms.append((fs, ts, rel, ph, us))
        if not forms:
            return None
        fs, ts, rel, ph, us = r.choice(forms)
        f, t, u = r.choice(fs), r.choice(ts), r.choice(us)
        head = '%s %s %s %s across %s%s' % ('unrelate' if un else 'relate', f['s'], 'from' if un else 'to', t['s'], rel, ('.' + ph) if ph else '')
        if u:
            head += ' using %s' % u['s']
            act = 'ACT_URU' if un else 'ACT_RU'
        else:
            act = 'ACT_UNR' if un else 'ACT_REL'
        return dict(act=act, head=head)

    def s_unrelate(self, size, depth):
        return self.s_relate(size, depth, un=True)

    def s_relate_using(self, size, depth):
        return self.s_relate(size, depth, want='using')

    def s_unrelate_using(self, size, depth):
        return self.s_relate(size, depth, un=True, want='using')

    def s_relate_phrase(self, size, depth):
        return self.s_relate(size, depth, want='phrase')

    def s_unrelate_phrase(self, size, depth):
        return self.s_relate(size, depth, un=True, want='phrase')

    def s_call_iop(self, size, depth):
        return self.s_call(size, depth, only='iop')

    def s_call_value(self, size, depth):
        ty = self.rng.choice(['integer', 'string', 'boolean', 'real'])
        c = self.call(ty, 0)
        if c is None:
            return None
        name = self.fresh()
        self.declare(name, ty)
        return dict(act='ACT_AI', head='%s = %s' % (name, c['s']), rval=c, lval=self.var(name), decl=[(name, ty)])

    def s_call(self, size, depth, only=None):
        c = None
        for _ in range(20):
            c = self.call('void', 0) if self.rng.random() < 0.7 else self.call(self.rng.choice(['integer', 'string', 'boolean', 'real']), 0)
            if c is not None and (only is None or c['what'] == only):
                break
            c = None
        if c is None:
            return None
        act = {'function': 'ACT_FNC', 'bridge': 'ACT_BRG', 'cop': 'ACT_TFM', 'iop': 'ACT_TFM'}[c['what']]
        return dict(act=act, head=c['s'], call=c)

    def s_control(self, size, depth):
        if not self.forcing and self.rng.random() < 0.7:
            return None
        return dict(act='ACT_CTL', head='control stop')

    def s_break(self, size, depth):
        return dict(act='ACT_BRK', head='break') if self.loops else None

    def s_continue(self, size, depth):
        return dict(act='ACT_CON', head='continue') if self.loops else None

    def s_return(self, size, depth):
        if not self.forcing and self.rng.random() < 0.6:
            return None
        if self.ret in (None, 'void'):
            return dict(act='ACT_RET', head='return', rval=None)
        e = self.expr(self.ret)
        return dict(act='ACT_RET', head='return %s' % e['s'], rval=e)

    def s_if(self, size, depth):
        r = self.rng
        budget = size - 1
        cond = self.expr('boolean')
        n1 = max(1, budget // r.choice([1, 2, 3]))
        blk = self.block(n1, depth + 1)
        budget -= sum(s['size'] for s in blk)
        elifs = []
        while budget > 0 and r.random() < 0.5 and len(elifs) < 2:
            c = self.expr('boolean')
            b = self.block(max(1, budget // 2), depth + 1)
            budget -= sum(s['size'] for s in b)
            elifs.append(dict(cond=c, block=b))
        els = None
        if budget > 0 and r.random() < 0.6:
            els = self.block(budget, depth + 1)
            budget -= sum(s['size'] for s in els)
        total = 1 + sum(s['size'] for s in blk) + sum(sum(s['size'] for s in e['block']) for e in elifs) + (sum(s['size'] for s in els) if els else 0)
        return dict(act='ACT_IF', cond=cond, block=blk, elifs=elifs, els=els, size=total, then=r.random() < 0.15)

    def s_while(self, size, depth):
        cond = self.expr('boolean')
        self.loops += 1
        try:
            blk = self.block(max(1, size - 1), depth + 1)
        finally:
            self.loops -= 1
        return dict(act='ACT_WHL', cond=cond, block=blk, size=1 + sum(s['size'] for s in blk), loop=self.rng.random() < 0.15)

    def s_for(self, size, depth):
        sets = self.visible(is_set)
        if not sets:
            return None
        sv = self.rng.choice(sets)
        kl = klass(self.lookup(sv))
        name, decl = self.target_var(inst(kl), 'e')
        for n, t in decl:
            self.declare(n, t)          # the loop variable lives on after the loop (declared next to the for statement)
        self.loops += 1
        try:
            blk = self.block(max(1, size - 1), depth + 1)
        finally:
            self.loops -= 1
        return dict(act='ACT_FOR', var=name, set=sv, block=blk, decl=decl, loopvar=bool(decl), size=1 + sum(s['size'] for s in blk),
                    loop=self.rng.random() < 0.15)


    # ---------------------------------------------------------------- prescribed structure --------------------------------------
    def sk_block(self, sk, depth):
        """The statements of one block from a skeleton, a list of
             ['d', name, how]     assign / create / select the variable `name`: when no variable of that name is visible this declares
                                  it the way `how` says, otherwise the visible variable receives a value of its own type
             ['u', name]          a statement that reads the variable `name` (nothing when no such variable is visible)
             ['if', block, [block, ...], block | None]     if / elif ... / else
             ['while', block]   ['for', block, name | None]   loops (for each: `name` is the loop variable)
             ['x']                any simple statement
           how: a scalar type | 'create:K' | 'any:K' | 'many:K' | 'where:K' | 'related' | 'handle' | 'call'.
           Statements that are needed first (an instance to navigate from, a set to iterate) are put in front (size 0)."""
        out = []
        for el in sk:
            pre = []
            mark = len(self.cells)
            s = getattr(self, 'sk_' + el[0])(el, depth, pre)
            out.extend(pre)
            if s is None:
                continue
            s.setdefault('size', 1)
            s.setdefault('decl', [])
            s.setdefault('kind', 'skeleton:' + el[0])
            self.owns(s, mark)
            out.append(s)
        if not out:
            out.append(self.statement(1, 3))
        return out

    def need(self, pre, what):
        """A statement in front that puts an instance of class `what` ('set': any instance set) in scope; -> its variable."""
        mark = len(self.cells)
        p = self.s_select_from(1, 0, many=True) if what == 'set' else self.s_create(1, 0, kl=what, fresh=True)
        p.update(kind='prerequisite', size=0)
        p.setdefault('decl', [])
        self.owns(p, mark)
        pre.append(p)
        return p['var']

    def typed_expr(self, ty, pre):
        for _ in range(8):
            try:
                e = self.expr(ty)
            except LookupError:
                self.need(pre, 'A')
                continue
            if e['t'] == ty:
                return e
        if ty in SCALARS:
            return self.lit(ty)
        if ty == 'Colour':
            return dict(k='enum', t=ty, s='Colour::Green')
        return self.attr_read(ty)

    def sk_d(self, el, depth, pre):
        name, how = el[1], el[2]
        c = self.cell(name)
        if c is not None:
            t = c['ty']
            how = ('many:' + klass(t)) if is_set(t) else (self.rng.choice(['any:', 'create:', 'where:']) + klass(t)) if is_inst(t) else t
        if how in SCALARS or how in ('Colour', 'unique_id'):
            e = self.typed_expr(how, pre)
            decl = [] if c is not None else [(name, how)]
        elif how == 'call':
            ty = self.rng.choice(SCALARS)
            e = self.call(ty, 0)
            decl = [(name, ty)]
        elif how == 'handle':
            roots = [self.var(v) for v in self.visible(lambda t: is_inst(t) or is_set(t))]
            if self.has_self:
                roots.append(dict(k='self', t=inst('A'), s='self'))
            e = self.rng.choice(roots) if roots else self.var(self.need(pre, self.rng.choice(['A', 'B', 'set'])))
            decl = [(name, e['t'])]
        elif how == 'related':
            s = self.s_select_related(1, depth, where=self.rng.random() < 0.3, name=name)
            if s is None:
                self.need(pre, 'A')
                s = self.s_select_related(1, depth, name=name)
            return s
        else:
            form, kl = how.split(':')
            if form == 'create':
                return self.s_create(1, depth, kl=kl, name=name)
            return self.s_select_from(1, depth, many=form == 'many', where=form == 'where', kl=kl, name=name)
        for n, t in decl:
            self.declare(n, t)
        kw = 'assign ' if self.rng.random() < 0.2 else ''
        return dict(act='ACT_AI', head='%s%s = %s' % (kw, name, e['s']), rval=e, lval=self.var(name), decl=decl)

    def sk_u(self, el, depth, pre):
        r = self.rng
        c = self.cell(el[1])
        if c is None or c['ty'] is None:
            return None
        t, x = c['ty'], self.var(el[1])
        if is_set(t) or is_inst(t):
            forms = ['handle', 'cardinality', 'empty'] + (['attr', 'attr'] if is_inst(t) else [])
        else:
            forms = ['copy', 'copy', 'equal'] + {'integer': ['arith'], 'real': ['arith'], 'string': ['arith'], 'boolean': ['not']}.get(t, [])
        f = r.choice(forms)
        if f in ('handle', 'copy'):
            e = x
        elif f == 'cardinality':
            e = dict(k='un', t='integer', op='cardinality', e=x, s='cardinality %s' % x['s'])
        elif f == 'empty':
            op = r.choice(['empty', 'not_empty'])
            e = dict(k='un', t='boolean', op=op, e=x, s='%s %s' % (op, x['s']))
        elif f == 'attr':
            an, at = r.choice(M.ATTRS[klass(t)])
            e = dict(k='attr', t=at, s='%s.%s' % (x['s'], an), root=x, name=an)
        elif f == 'equal':
            e = self.binary('boolean', r.choice(['==', '!=']), x, self.var(el[1]))
        elif f == 'arith':
            e = self.binary(t, '+', x, self.lit(t))
        else:
            e = self.unary('boolean', 'not', x)
        name = self.fresh('h' if f == 'handle' else 'v')
        self.declare(name, e['t'])
        return dict(act='ACT_AI', head='%s = %s' % (name, e['s']), rval=e, lval=self.var(name), decl=[(name, e['t'])])

    def sk_x(self, el, depth, pre):
        return self.statement(1, 3)

    def sk_scope(self, sk, depth):
        self.push()
        try:
            return self.sk_block(sk, depth + 1)
        finally:
            self.pop()

    def sk_if(self, el, depth, pre):
        cond = self.expr('boolean')
        blk = self.sk_scope(el[1], depth)
        elifs = []
        for b in el[2]:
            c = self.expr('boolean')
            elifs.append(dict(cond=c, block=self.sk_scope(b, depth)))
        els = self.sk_scope(el[3], depth) if el[3] is not None else None
        total = 1 + sum(s['size'] for b in [blk] + [e['block'] for e in elifs] + ([els] if els else []) for s in b)
        return dict(act='ACT_IF', cond=cond, block=blk, elifs=elifs, els=els, size=total, then=self.rng.random() < 0.15)

    def sk_while(self, el, depth, pre):
        cond = self.expr('boolean')
        self.loops += 1
        try:
            blk = self.sk_scope(el[1], depth)
        finally:
            self.loops -= 1
        return dict(act='ACT_WHL', cond=cond, block=blk, size=1 + sum(s['size'] for s in blk), loop=self.rng.random() < 0.15)

    def sk_for(self, el, depth, pre):
        name = el[2] if len(el) > 2 else None
        sets = self.visible(is_set)
        sv = self.rng.choice(sets) if sets else self.need(pre, 'set')
        kl = klass(self.lookup(sv))
        if name is not None and self.cell(name) is not None and self.lookup(name) != inst(kl):
            name = None
        if name is None:
            name, decl = self.target_var(inst(kl), 'e')
        else:
            name, decl = self.named_target(name, inst(kl))
        for n, t in decl:
            self.declare(n, t)          # next to the for statement, as in s_for
        self.loops += 1
        try:
            blk = self.sk_scope(el[1], depth)
        finally:
            self.loops -= 1
        return dict(act='ACT_FOR', var=name, set=sv, block=blk, decl=decl, loopvar=bool(decl), size=1 + sum(s['size'] for s in blk),
                    loop=self.rng.random() < 0.15)


# ------------------------------------------------------------------ printing ------------------------------------------------------
class Printer(object):
    """One statement per line (block statements span lines); records line/columns (1-based) and list membership."""

    def __init__(self, rng):
        self.rng = rng
        self.lines = []
        self.lists = []       # list id -> [statements]
        self.step = rng.choice([2, 4, 3])
        self.base = rng.choice([0, 0, 1, 4])

    def noise(self):
        x = self.rng.random()
        if x < 0.08:
            self.lines.append('')
        elif x < 0.14:
            self.lines.append(' ' * self.base + '// note; select any x from instances of A;')

    def program(self, stmts):
        self.block(stmts, 0, None)
        return '\n'.join(self.lines)

    def block(self, stmts, depth, parent):
        lid = len(self.lists)
        self.lists.append(dict(id=lid, members=stmts, parent=parent))
        for s in stmts:
            self.noise()
            self.stmt(s, depth, lid)
        return lid

    def put(self, depth, text):
        ind = self.base + self.step * depth
        self.lines.append(' ' * ind + text)
        return len(self.lines), ind + 1

    def stmt(self, s, depth, lid):
        s['list'] = lid
        act = s['act']
        if act == 'ACT_IF':
            s['line'], s['col'] = self.put(depth, 'if (%s)%s' % (s['cond']['s'], ' then' if s.get('then') else ''))
            s['blk'] = self.block(s['block'], depth + 1, s)
            for e in s['elifs']:
                e['line'], e['col'] = self.put(depth, 'elif (%s)' % e['cond']['s'])
                e['blk'] = self.block(e['block'], depth + 1, s)
            if s['els'] is not None:
                s['else_line'], s['else_col'] = self.put(depth, 'else')
                s['else_blk'] = self.block(s['els'], depth + 1, s)
            tail = 'end if'
        elif act == 'ACT_WHL':
            s['line'], s['col'] = self.put(depth, 'while (%s)%s' % (s['cond']['s'], ' loop' if s.get('loop') else ''))
            s['blk'] = self.block(s['block'], depth + 1, s)
            tail = 'end while'
        elif act == 'ACT_FOR':
            s['line'], s['col'] = self.put(depth, 'for each %s in %s%s' % (s['var'], s['set'], ' loop' if s.get('loop') else ''))
            s['blk'] = self.block(s['block'], depth + 1, s)
            tail = 'end for'
        else:
            s['line'], s['col'] = self.put(depth, s['head'] + ';')
            s['end'] = s['col'] + len(s['head']) - 1
            return
        _, c = self.put(depth, tail + ';')
        s['end'] = c + len(tail) - 1


def generate(rng, home, size, forced=None, reuse=0.0, skeleton=None):
    """-> (text, top level statements, statement lists).  Deterministic in (rng state, home, size, forced, reuse, skeleton)."""
    g = Gen(rng, home, forced, reuse)
    if skeleton is not None:
        def names(sk):
            for el in sk:
                if el[0] in ('d', 'u'):
                    g.reserved.add(el[1])
                elif el[0] == 'if':
                    for b in [el[1]] + list(el[2]) + ([el[3]] if el[3] is not None else []):
                        names(b)
                elif el[0] in ('while', 'for'):
                    names(el[1])
                    if el[0] == 'for' and len(el) > 2 and el[2]:
                        g.reserved.add(el[2])
        names(skeleton)
    stmts = g.sk_block(skeleton, 0) if skeleton is not None else g.statements(size, 0)
    if home == 'derived_attribute' and rng.random() < 0.7:
        e = g.expr('integer')
        stmts.append(dict(act='ACT_AI', kind='assign_attr', head='self.D = %s' % e['s'], rval=e, size=1, decl=[],
                          lval=dict(k='attr', t='integer', s='self.D', root=dict(k='self', t=inst('A'), s='self'), name='D')))
    elif g.ret not in (None, 'void') and rng.random() < 0.8:
        e = g.expr(g.ret)
        stmts.append(dict(act='ACT_RET', kind='return', head='return %s' % e['s'], rval=e, size=1, decl=[]))
    p = Printer(rng)
    text = p.program(stmts)
    return text, stmts, p.lists
