"""Generator of well-formed, name-resolved OAL programs over the C06 seed model, with the facts the property speaks about
computed from the generator's own tree and printed text (never from the parser under test):

  for every statement: kind (ooaofooa subtype of ACT_SMT), line, first and last column, the statement list it is a member of
  for every statement list: its members in source order
  for every declared variable: name, declaring statement list, type first assigned
  for every expression: OAL type (None = not fixed by the property, e.g. mixed arithmetic)
  for every invocation: its parameters in source order;  for every select-related: its navigation steps in source order

Types are written 'integer', 'real', 'string', 'boolean', 'unique_id', 'Colour', 'void', 'inst_ref<K>', 'inst_ref_set<K>'.
"""
from . import _c06_model as M

SCALARS = ['integer', 'real', 'string', 'boolean']
# what a forced statement kind needs in scope: instance variables of these classes
NEEDS = {'assign_attr': 'A', 'select_related': 'A', 'select_related_where': 'A', 'delete': 'A', 'assign_inst': 'A', 'for': '',
         'relate': 'AB', 'unrelate': 'AB', 'relate_phrase': 'A', 'unrelate_phrase': 'A', 'relate_using': 'ABL', 'unrelate_using': 'ABL',
         'call_iop': 'A'}


def inst(k):
    return 'inst_ref<%s>' % k


def iset(k):
    return 'inst_ref_set<%s>' % k


def klass(t):
    return t[t.index('<') + 1:-1]


def is_inst(t):
    return t is not None and t.startswith('inst_ref<')


def is_set(t):
    return t is not None and t.startswith('inst_ref_set<')


class Gen(object):
    def __init__(self, rng, home, forced=None):
        self.rng = rng
        self.home = home
        kind, ret, params, has_self = M.HOMES[home]
        self.ret, self.params, self.has_self = ret, list(params), has_self
        self.scopes = [{}]          # innermost last: name -> type
        self.loops = 0
        self.n = 0
        self.forced = list(forced or [])    # statement kinds to produce first (systematic part)
        self.where_class = None
        self.forcing = False

    # ---------------------------------------------------------------- names ----------------------------------------------------
    def fresh(self, prefix='v'):
        self.n += 1
        return '%s%d' % (prefix, self.n)

    def lookup(self, name):
        for s in reversed(self.scopes):
            if name in s:
                return s[name]
        return None

    def visible(self, pred):
        out = {}
        for s in self.scopes:
            for k, v in s.items():
                out[k] = v
        return sorted(k for k, v in out.items() if pred(v))

    def declare(self, name, ty):
        self.scopes[-1][name] = ty

    # ---------------------------------------------------------------- expressions ----------------------------------------------
    def lit(self, ty):
        r = self.rng
        if ty == 'integer':
            return dict(k='lit', t=ty, s=str(r.choice([0, 1, 2, 7, 42, 100])))
        if ty == 'real':
            return dict(k='lit', t=ty, s=r.choice(['0.5', '1.25', '3.0', '10.75']))
        if ty == 'string':
            return dict(k='lit', t=ty, s='"%s"' % r.choice(['', 'a', 'hello world', 'x;y', 'end if']))
        if ty == 'boolean':
            return dict(k='lit', t=ty, s=r.choice(['true', 'false', 'TRUE', 'False']))
        raise ValueError(ty)

    def instance_roots(self, kl=None):
        """Expressions denoting one instance: instance variables, self, param.pa, selected."""
        out = []
        for v in self.visible(is_inst):
            t = self.lookup(v)
            if kl is None or klass(t) == kl:
                out.append(dict(k='var', t=t, s=v, name=v))
        if self.has_self and (kl in (None, 'A')):
            out.append(dict(k='self', t=inst('A'), s='self'))
        if kl in (None, 'A') and any(p == 'pa' for p, _ in self.params):
            out.append(dict(k='param', t=inst('A'), s='param.pa', name='pa'))
        if self.where_class and kl in (None, self.where_class):
            out.append(dict(k='selected', t=inst(self.where_class), s='selected'))
        return out

    def attr_read(self, ty):
        cands = []
        for root in self.instance_roots():
            for an, at in M.ATTRS[klass(root['t'])]:
                if at == ty:
                    cands.append((root, an))
        if not cands:
            return None
        root, an = self.rng.choice(cands)
        return dict(k='attr', t=ty, s='%s.%s' % (root['s'], an), root=root, name=an)

    def param_read(self, ty):
        ps = [p for p, t in self.params if t == ty]
        if not ps:
            return None
        p = self.rng.choice(ps)
        return dict(k='param', t=ty, s='param.%s' % p, name=p)

    def var_read(self, ty):
        vs = self.visible(lambda t: t == ty)
        if not vs:
            return None
        v = self.rng.choice(vs)
        return dict(k='var', t=ty, s=v, name=v)

    def call(self, ty, depth, statement=False):
        """An invocation whose return type is ty."""
        cands = []
        for n, (ret, ps) in M.FUNCTIONS.items():
            if ret == ty:
                cands.append(('function', n, ps, None))
        for n, (ret, ps) in M.BRIDGES.items():
            if ret == ty:
                cands.append(('bridge', n, ps, None))
        for n, (ret, ps) in M.CLASS_OPS.items():
            if ret == ty:
                cands.append(('cop', n, ps, None))
        roots = [r for r in self.instance_roots('A') if r['k'] in ('var', 'self')]
        for n, (ret, ps) in M.INSTANCE_OPS.items():
            if ret == ty:
                for r in roots:
                    cands.append(('iop', n, ps, r))
        if not cands:
            return None
        what, n, ps, root = self.rng.choice(cands)
        args = [(pn, self.expr(pt, depth + 1)) for pn, pt in ps]
        if self.rng.random() < 0.3:
            self.rng.shuffle(args)       # named parameters may be written in any order
        argtext = ', '.join('%s: %s' % (pn, e['s']) for pn, e in args)
        if self.rng.random() < 0.3 and not any(e['s'].startswith(':') for _, e in args):
            argtext = ', '.join('%s:%s' % (pn, e['s']) for pn, e in args)
        head = {'function': '::%s', 'bridge': 'EE::%s', 'cop': 'A::%s'}.get(what)
        head = (head % n) if head else '%s.%s' % (root['s'], n)
        return dict(k='call', t=ty, s='%s(%s)' % (head, argtext), what=what, name=n, args=args, root=root)

    def atom(self, e):
        return e['s'] if e['k'] in ('lit', 'var', 'attr', 'param', 'call', 'enum', 'const', 'self', 'selected', 'paren') else '(%s)' % e['s']

    def binary(self, ty, op, l, r):
        return dict(k='bin', t=ty, op=op, l=l, r=r, s='%s %s %s' % (self.atom(l), op, self.atom(r)))

    def expr(self, ty, depth=0):
        r = self.rng
        leafy = depth >= 2 or r.random() < 0.35
        options = []
        if ty in SCALARS:
            options.append(lambda: self.lit(ty))
        for f in (self.var_read, self.attr_read, self.param_read):
            options.append(lambda f=f: f(ty))
        if ty == 'Colour':
            options.append(lambda: dict(k='enum', t=ty, s='Colour::%s' % r.choice(M.ENUM[1])))
        for cn, ct, _ in M.CONSTS:
            if ct == ty:
                options.append(lambda cn=cn: dict(k='const', t=ty, s=r.choice([cn, 'CONSTS::' + cn]), name=cn))
        if not leafy:
            if ty in ('integer', 'real'):
                options.append(lambda: self.binary(ty, r.choice(['+', '-', '*', '/'] + (['%'] if ty == 'integer' else [])),
                                                   self.expr(ty, depth + 1), self.expr(ty, depth + 1)))
                options.append(lambda: self.unary(ty, '-', self.expr(ty, depth + 1)))
            if ty == 'integer':
                options.append(self.cardinality)
                # mixed arithmetic: the type of the result is not fixed by the property
                options.append(lambda: dict(self.binary(None, r.choice(['+', '*']), self.expr('integer', depth + 1), self.expr('real', depth + 1)), t=None))
            if ty == 'string':
                options.append(lambda: self.binary(ty, '+', self.expr(ty, depth + 1), self.expr(ty, depth + 1)))
            if ty == 'boolean':
                options.append(lambda: self.comparison(depth))
                options.append(lambda: self.comparison(depth))
                options.append(lambda: self.binary(ty, r.choice(['and', 'or', 'AND', 'Or']), self.expr(ty, depth + 1), self.expr(ty, depth + 1)))
                options.append(lambda: self.unary(ty, r.choice(['not', 'NOT']), self.expr(ty, depth + 1)))
                options.append(self.emptiness)
            options.append(lambda: self.call(ty, depth))
            options.append(lambda: self.paren(self.expr(ty, depth + 1)))
        for _ in range(12):
            e = r.choice(options)()
            if e is not None:
                return e
        if ty in SCALARS:
            return self.lit(ty)
        if ty == 'Colour':
            return dict(k='enum', t=ty, s='Colour::Red')
        if ty == 'unique_id':
            e = self.attr_read(ty)
            if e:
                return e
        raise LookupError(ty)

    def paren(self, e):
        return dict(e, s='(%s)' % e['s'], k='paren', inner=e)

    def unary(self, ty, op, e):
        sep = '' if op == '-' and self.rng.random() < 0.5 else ' '
        return dict(k='un', t=ty, op=op, e=e, s='%s%s%s' % (op, sep, self.atom(e)))

    def cardinality(self):
        vs = self.visible(lambda t: is_set(t) or is_inst(t))
        if not vs:
            return None
        v = self.rng.choice(vs)
        return dict(k='un', t='integer', op='cardinality', e=dict(k='var', t=self.lookup(v), s=v, name=v), s='cardinality %s' % v)

    def emptiness(self):
        vs = self.visible(lambda t: is_set(t) or is_inst(t))
        if not vs:
            return None
        v = self.rng.choice(vs)
        op = self.rng.choice(['empty', 'not_empty', 'NOT_EMPTY'])
        return dict(k='un', t='boolean', op=op, e=dict(k='var', t=self.lookup(v), s=v, name=v), s='%s %s' % (op, v))

    def comparison(self, depth):
        r = self.rng
        ty = r.choice(['integer', 'integer', 'real', 'string', 'boolean', 'Colour', 'unique_id'])
        try:
            l, rr = self.expr(ty, depth + 1), self.expr(ty, depth + 1)
        except LookupError:
            return None
        ops = ['==', '!='] + (['<', '<=', '>', '>='] if ty in ('integer', 'real', 'string') else [])
        return self.binary('boolean', r.choice(ops), l, rr)

    def where(self, kl):
        """Boolean expression of a where clause over `selected` of class kl."""
        self.where_class = kl
        try:
            cands = [(an, at) for an, at in M.ATTRS[kl] if at in SCALARS or at == 'Colour']
            an, at = self.rng.choice(cands)
            sel = dict(k='attr', t=at, s='selected.%s' % an, root=dict(k='selected', t=inst(kl), s='selected'), name=an)
            other = self.expr(at, 1)
            e = self.binary('boolean', '==' if at in ('boolean', 'Colour') else self.rng.choice(['==', '!=', '<', '>=']), sel, other)
            if self.rng.random() < 0.4:
                e = self.binary('boolean', self.rng.choice(['and', 'or']), e, self.expr('boolean', 1))
            return e
        finally:
            self.where_class = None

    # ---------------------------------------------------------------- statements -----------------------------------------------
    def block(self, size, depth):
        self.scopes.append({})
        try:
            return self.statements(size, depth)
        finally:
            self.scopes.pop()

    def statements(self, size, depth):
        out = []
        while size > 0:
            s = self.statement(size, depth)
            out.append(s)
            size -= s['size']
        return out

    def kinds(self, size, depth):
        k = ['assign', 'assign', 'assign_attr', 'create', 'create_nv', 'select_from', 'select_from_where', 'call', 'call',
             'select_related', 'select_related', 'select_related_where', 'relate', 'unrelate', 'delete', 'assign_inst', 'control']
        if size >= 2 and depth < 3:
            k += ['if', 'if', 'while', 'for']
        if self.loops:
            k += ['break', 'continue']
        k += ['return']
        return k

    def statement(self, size, depth):
        for _ in range(60):
            self.forcing = bool(self.forced)
            kind = self.forced.pop(0) if self.forced else self.rng.choice(self.kinds(size, depth))
            s = getattr(self, 's_' + kind)(size, depth)
            if s is not None:
                s.setdefault('size', 1)
                s.setdefault('decl', [])
                s['kind'] = kind
                return s
            # a forced kind that needs something first: produce the prerequisite (size 0), then retry the kind
            if self.forcing and kind in NEEDS:
                have = set(klass(self.lookup(v)) for v in self.visible(is_inst))
                missing = [k for k in NEEDS[kind] if k not in have]
                if kind == 'for':
                    pre = self.s_select_from(size, depth, many=True)
                elif missing:
                    pre = self.s_create(size, depth, kl=missing[0], fresh=True)
                else:
                    pre = self.s_create(size, depth, kl='A', fresh=True)
                pre['kind'] = 'prerequisite'
                pre['size'] = 0
                pre.setdefault('decl', [])
                self.forced.insert(0, kind)
                return pre
        raise RuntimeError('no statement could be generated')

    def s_assign(self, size, depth):
        r = self.rng
        ty = r.choice(['integer', 'integer', 'real', 'string', 'boolean', 'Colour', 'unique_id'])
        try:
            e = self.expr(ty)
        except LookupError:
            ty = r.choice(SCALARS)
            e = self.expr(ty)
        existing = self.visible(lambda t: t == ty)
        if existing and e['t'] is not None and r.random() < 0.4:
            name, decl = r.choice(existing), []
        else:
            name = self.fresh()
            decl = [(name, e['t'])]
        kw = 'assign ' if r.random() < 0.2 else ''
        s = dict(act='ACT_AI', head='%s%s = %s' % (kw, name, e['s']), rval=e, lval=dict(k='var', t=e['t'] if decl else ty, s=name, name=name), decl=decl)
        for n, t in decl:
            self.declare(n, t)
        return s

    def s_assign_attr(self, size, depth):
        cands = []
        for root in self.instance_roots():
            if root['k'] == 'selected':
                continue
            for an in M.WRITABLE[klass(root['t'])]:
                cands.append((root, an))
        if self.home == 'derived_attribute':
            cands.append((dict(k='self', t=inst('A'), s='self'), 'D'))
        if not cands:
            return None
        root, an = self.rng.choice(cands)
        ty = dict(M.ATTRS[klass(root['t'])])[an]
        e = self.expr(ty)
        return dict(act='ACT_AI', head='%s.%s = %s' % (root['s'], an, e['s']), rval=e,
                    lval=dict(k='attr', t=ty, s='%s.%s' % (root['s'], an), root=root, name=an))

    def s_assign_inst(self, size, depth):
        vs = self.visible(lambda t: is_inst(t) or is_set(t))
        roots = [dict(k='var', t=self.lookup(v), s=v, name=v) for v in vs]
        if self.has_self:
            roots.append(dict(k='self', t=inst('A'), s='self'))
        if not roots:
            return None
        e = self.rng.choice(roots)
        name = self.fresh('h')
        self.declare(name, e['t'])
        return dict(act='ACT_AI', head='%s = %s' % (name, e['s']), rval=e, lval=dict(k='var', t=e['t'], s=name, name=name), decl=[(name, e['t'])])

    def target_var(self, ty, prefix):
        """A variable to receive an instance (set): an existing one of that type or a fresh implicit declaration."""
        existing = self.visible(lambda t: t == ty)
        if existing and self.rng.random() < 0.3:
            return self.rng.choice(existing), []
        name = self.fresh(prefix)
        return name, [(name, ty)]

    def s_create(self, size, depth, kl=None, fresh=False):
        kl = kl or self.rng.choice(['A', 'A', 'B', 'L'])
        name, decl = self.target_var(inst(kl), 'i') if not fresh else (self.fresh('i'), None)
        if decl is None:
            decl = [(name, inst(kl))]
        for n, t in decl:
            self.declare(n, t)
        return dict(act='ACT_CR', head='create object instance %s of %s' % (name, kl), decl=decl, var=name)

    def s_create_nv(self, size, depth):
        return dict(act='ACT_CNV', head='create object instance of %s' % self.rng.choice(['A', 'B', 'L']))

    def s_delete(self, size, depth):
        vs = self.visible(is_inst)
        if self.has_self and self.rng.random() < 0.1:
            vs = vs + ['self']
        if not vs:
            return None
        return dict(act='ACT_DEL', head='delete object instance %s' % self.rng.choice(vs))

    def s_select_from(self, size, depth, many=None, where=False):
        kl = self.rng.choice(['A', 'A', 'B', 'L'])
        many = self.rng.random() < 0.5 if many is None else many
        w = self.where(kl) if where else None
        name, decl = self.target_var(iset(kl) if many else inst(kl), 's' if many else 'i')
        for n, t in decl:
            self.declare(n, t)
        kw = self.rng.choice(['instances of ', 'instances of ', ''])
        head = 'select %s %s from %s%s' % ('many' if many else 'any', name, kw, kl)
        if w:
            head += ' where %s' % self.atom_paren(w)
        return dict(act='ACT_FIW' if w else 'ACT_FIO', head=head, decl=decl, where=w, var=name)

    def atom_paren(self, e):
        return '(%s)' % e['s']

    def s_select_from_where(self, size, depth):
        return self.s_select_from(size, depth, where=True)

    def s_select_related(self, size, depth, where=False):
        roots = [r for r in self.instance_roots() if r['k'] in ('var', 'self')]
        sets = [dict(k='var', t=self.lookup(v), s=v, name=v) for v in self.visible(is_set)]
        roots = roots + sets
        if not roots:
            return None
        root = self.rng.choice(roots)
        kl = klass(root['t'])
        many = is_set(root['t'])
        steps = []
        for _ in range(self.rng.choice([1, 1, 2, 3])):
            cands = [s for s in M.STEPS if s[0] == kl]
            st = self.rng.choice(cands)
            steps.append(st)
            kl = st[2]
            many = many or st[4]
        card = self.rng.choice(['any', 'many']) if many else self.rng.choice(['one', 'one', 'any'])
        w = self.where(kl) if where else None
        name, decl = self.target_var(iset(kl) if card == 'many' else inst(kl), 's' if card == 'many' else 'i')
        for n, t in decl:
            self.declare(n, t)
        chain = ''.join('->%s[%s%s]' % (st[2], st[1], ('.' + st[3]) if st[3] else '') for st in steps)
        head = 'select %s %s related by %s%s' % (card, name, root['s'], chain)
        if w:
            head += ' where %s' % self.atom_paren(w)
        return dict(act='ACT_SEL', sub='ACT_SRW' if w else 'ACT_SR', head=head, decl=decl, where=w, var=name, root=root,
                    steps=[[st[2], st[1], st[3]] for st in steps])

    def s_select_related_where(self, size, depth):
        return self.s_select_related(size, depth, where=True)

    def s_relate(self, size, depth, un=False, want=None):
        r = self.rng
        forms = []
        for f, t, rel, ph, using in M.RELATES:
            if (want == 'using' and not using) or (want == 'phrase' and not ph) or (want == 'plain' and (using or ph)):
                continue
            fs = [x for x in self.instance_roots(f) if x['k'] in ('var', 'self')]
            ts = [x for x in self.instance_roots(t) if x['k'] in ('var', 'self')]
            us = [x for x in self.instance_roots(using) if x['k'] == 'var'] if using else [None]
            if fs and ts and us:
                forms.append((fs, ts, rel, ph, us))
        if not forms:
            return None
        fs, ts, rel, ph, us = r.choice(forms)
        f, t, u = r.choice(fs), r.choice(ts), r.choice(us)
        head = '%s %s %s %s across %s%s' % ('unrelate' if un else 'relate', f['s'], 'from' if un else 'to', t['s'], rel, ('.' + ph) if ph else '')
        if u:
            head += ' using %s' % u['s']
            act = 'ACT_URU' if un else 'ACT_RU'
        else:
            act = 'ACT_UNR' if un else 'ACT_REL'
        return dict(act=act, head=head)

    def s_unrelate(self, size, depth):
        return self.s_relate(size, depth, un=True)

    def s_relate_using(self, size, depth):
        return self.s_relate(size, depth, want='using')

    def s_unrelate_using(self, size, depth):
        return self.s_relate(size, depth, un=True, want='using')

    def s_relate_phrase(self, size, depth):
        return self.s_relate(size, depth, want='phrase')

    def s_unrelate_phrase(self, size, depth):
        return self.s_relate(size, depth, un=True, want='phrase')

    def s_call_iop(self, size, depth):
        return self.s_call(size, depth, only='iop')

    def s_call_value(self, size, depth):
        ty = self.rng.choice(['integer', 'string', 'boolean', 'real'])
        c = self.call(ty, 0)
        if c is None:
            return None
        name = self.fresh()
        self.declare(name, ty)
        return dict(act='ACT_AI', head='%s = %s' % (name, c['s']), rval=c, lval=dict(k='var', t=ty, s=name, name=name), decl=[(name, ty)])

    def s_call(self, size, depth, only=None):
        c = None
        for _ in range(20):
            c = self.call('void', 0) if self.rng.random() < 0.7 else self.call(self.rng.choice(['integer', 'string', 'boolean', 'real']), 0)
            if c is not None and (only is None or c['what'] == only):
                break
            c = None
        if c is None:
            return None
        act = {'function': 'ACT_FNC', 'bridge': 'ACT_BRG', 'cop': 'ACT_TFM', 'iop': 'ACT_TFM'}[c['what']]
        return dict(act=act, head=c['s'], call=c)

    def s_control(self, size, depth):
        if not self.forcing and self.rng.random() < 0.7:
            return None
        return dict(act='ACT_CTL', head='control stop')

    def s_break(self, size, depth):
        return dict(act='ACT_BRK', head='break') if self.loops else None

    def s_continue(self, size, depth):
        return dict(act='ACT_CON', head='continue') if self.loops else None

    def s_return(self, size, depth):
        if not self.forcing and self.rng.random() < 0.6:
            return None
        if self.ret in (None, 'void'):
            return dict(act='ACT_RET', head='return', rval=None)
        e = self.expr(self.ret)
        return dict(act='ACT_RET', head='return %s' % e['s'], rval=e)

    def s_if(self, size, depth):
        r = self.rng
        budget = size - 1
        cond = self.expr('boolean')
        n1 = max(1, budget // r.choice([1, 2, 3]))
        blk = self.block(n1, depth + 1)
        budget -= sum(s['size'] for s in blk)
        elifs = []
        while budget > 0 and r.random() < 0.5 and len(elifs) < 2:
            c = self.expr('boolean')
            b = self.block(max(1, budget // 2), depth + 1)
            budget -= sum(s['size'] for s in b)
            elifs.append(dict(cond=c, block=b))
        els = None
        if budget > 0 and r.random() < 0.6:
            els = self.block(budget, depth + 1)
            budget -= sum(s['size'] for s in els)
        total = 1 + sum(s['size'] for s in blk) + sum(sum(s['size'] for s in e['block']) for e in elifs) + (sum(s['size'] for s in els) if els else 0)
        return dict(act='ACT_IF', cond=cond, block=blk, elifs=elifs, els=els, size=total, then=r.random() < 0.15)

    def s_while(self, size, depth):
        cond = self.expr('boolean')
        self.loops += 1
        try:
            blk = self.block(max(1, size - 1), depth + 1)
        finally:
            self.loops -= 1
        return dict(act='ACT_WHL', cond=cond, block=blk, size=1 + sum(s['size'] for s in blk), loop=self.rng.random() < 0.15)

    def s_for(self, size, depth):
        sets = self.visible(is_set)
        if not sets:
            return None
        sv = self.rng.choice(sets)
        kl = klass(self.lookup(sv))
        name, decl = self.target_var(inst(kl), 'e')
        for n, t in decl:
            self.declare(n, t)          # the loop variable lives on after the loop (declared next to the for statement)
        self.loops += 1
        try:
            blk = self.block(max(1, size - 1), depth + 1)
        finally:
            self.loops -= 1
        return dict(act='ACT_FOR', var=name, set=sv, block=blk, decl=decl, loopvar=bool(decl), size=1 + sum(s['size'] for s in blk),
                    loop=self.rng.random() < 0.15)


# ------------------------------------------------------------------ printing ------------------------------------------------------
class Printer(object):
    """One statement per line (block statements span lines); records line/columns (1-based) and list membership."""

    def __init__(self, rng):
        self.rng = rng
        self.lines = []
        self.lists = []       # list id -> [statements]
        self.step = rng.choice([2, 4, 3])
        self.base = rng.choice([0, 0, 1, 4])

    def noise(self):
        x = self.rng.random()
        if x < 0.08:
            self.lines.append('')
        elif x < 0.14:
            self.lines.append(' ' * self.base + '// note; select any x from instances of A;')

    def program(self, stmts):
        self.block(stmts, 0, None)
        return '\n'.join(self.lines)

    def block(self, stmts, depth, parent):
        lid = len(self.lists)
        self.lists.append(dict(id=lid, members=stmts, parent=parent))
        for s in stmts:
            self.noise()
            self.stmt(s, depth, lid)
        return lid

    def put(self, depth, text):
        ind = self.base + self.step * depth
        self.lines.append(' ' * ind + text)
        return len(self.lines), ind + 1

    def stmt(self, s, depth, lid):
        s['list'] = lid
        act = s['act']
        if act == 'ACT_IF':
            s['line'], s['col'] = self.put(depth, 'if (%s)%s' % (s['cond']['s'], ' then' if s.get('then') else ''))
            s['blk'] = self.block(s['block'], depth + 1, s)
            for e in s['elifs']:
                e['line'], e['col'] = self.put(depth, 'elif (%s)' % e['cond']['s'])
                e['blk'] = self.block(e['block'], depth + 1, s)
            if s['els'] is not None:
                s['else_line'], s['else_col'] = self.put(depth, 'else')
                s['else_blk'] = self.block(s['els'], depth + 1, s)
            tail = 'end if'
        elif act == 'ACT_WHL':
            s['line'], s['col'] = self.put(depth, 'while (%s)%s' % (s['cond']['s'], ' loop' if s.get('loop') else ''))
            s['blk'] = self.block(s['block'], depth + 1, s)
            tail = 'end while'
        elif act == 'ACT_FOR':
            s['line'], s['col'] = self.put(depth, 'for each %s in %s%s' % (s['var'], s['set'], ' loop' if s.get('loop') else ''))
            s['blk'] = self.block(s['block'], depth + 1, s)
            tail = 'end for'
        else:
            s['line'], s['col'] = self.put(depth, s['head'] + ';')
            s['end'] = s['col'] + len(s['head']) - 1
            return
        _, c = self.put(depth, tail + ';')
        s['end'] = c + len(tail) - 1


def generate(rng, home, size, forced=None):
    """-> (text, top level statements, statement lists).  Deterministic in (rng state, home, size, forced)."""
    g = Gen(rng, home, forced)
    stmts = g.statements(size, 0)
    if home == 'derived_attribute' and rng.random() < 0.7:
        e = g.expr('integer')
        stmts.append(dict(act='ACT_AI', kind='assign_attr', head='self.D = %s' % e['s'], rval=e, size=1, decl=[],
                          lval=dict(k='attr', t='integer', s='self.D', root=dict(k='self', t=inst('A'), s='self'), name='D')))
    elif g.ret not in (None, 'void') and rng.random() < 0.8:
        e = g.expr(g.ret)
        stmts.append(dict(act='ACT_RET', kind='return', head='return %s' % e['s'], rval=e, size=1, decl=[]))
    p = Printer(rng)
    text = p.program(stmts)
    return text, stmts, p.lists
