"""C13 (bounded tier) - OAL parsing is total and its source positions are exact.

Totality / bounded time (every call of `bridgepoint.oal.parse` runs under an interval timer on the CPU time of the
process; a text of n characters gets 2 s + 1 ms per character):
* strings          random strings over an alphabet with comment openers/closers, quotes, line breaks, operators,
                   letters, digits, illegal characters
* token-sequences  all sequences of <= 2 tokens over the token alphabet (every keyword, every operator, one literal of
                   each kind, end for/if/while, a namespace); thorough tier: all sequences of 3 tokens, those with a
                   prefix the parser still accepts first; random longer sequences
* mutations        single-edit mutants of valid generated programs: delete / duplicate / swap / replace / insert a
                   token, truncate after a token; insert or delete a character, truncate at a character
* growth           families of texts of growing size (unterminated comment + k newlines, k quotes, k digits, k open
                   parentheses, k-term sums, ...): time must stay inside the limit as k grows
  clauses: 'bounded-time', 'only-parse-exception:<Class>', 'returns-tree'

Positions:
* positions        generated programs in a random layout (multi-line expressions, comments, tabs, CR LF).  An
                   independent tokenizer (_oal_gen.tokenize) gives line and column of every token; for every statement
                   and expression node generated, the library node must record line/column of the first character of
                   its first token, line/column of the last character of its last token and the source text between.
  clauses: 'position-recorded', 'start-line', 'start-column', 'end-line', 'end-column', 'source-text'
           (suffix ':multiline-token' when a token that spans lines - end<newline>if, a ticked phrase with a line
           break - occurs at or before the end of the node)
"""
import json
import signal
import time

import vlib.fresh_ply  # noqa: F401
from vlib.bounded import item

from bounded import _oal_gen as G

_STANDS = ['bridgepoint.oal.parse', 'bridgepoint.oal.OALParser (lexer rules, p_error, t_error)']
_STANDS_POS = ['bridgepoint.oal.set_positional_info', 'bridgepoint.oal.find_column', 'bridgepoint.oal.track_production',
               'bridgepoint.oal.OALParser t_* rules (endlexpos, lineno)']

BASE_LIMIT = 2.0          # seconds
PER_CHAR = 0.001          # additional seconds per character of input


_warm = []


def _oal():
    import bridgepoint.oal as oal
    if not _warm:
        # the first parse of a process builds the LALR table (about a second): not part of any measurement
        _warm.append(1)
        try:
            oal.parse('')
        except Exception:
            pass
    return oal


class _Timeout(BaseException):
    pass


def _on_alarm(signum, frame):
    raise _Timeout()


def limit_of(text):
    return BASE_LIMIT + PER_CHAR * len(text)


def timed_parse(text, limit=None):
    """(outcome, value, cpu seconds); outcome: 'tree' | 'parse-exception' | 'timeout' | 'other' (value = exception).
    The limit is on the CPU time of this process (ITIMER_PROF), so that a loaded machine does not produce timeouts; a
    wall-clock timer of ten times the limit stands behind it."""
    oal = _oal()
    if limit is None:
        limit = limit_of(text)
    out = None
    old_prof = signal.signal(signal.SIGPROF, _on_alarm)
    old_alrm = signal.signal(signal.SIGALRM, _on_alarm)
    t0 = time.process_time()
    try:
        try:
            signal.setitimer(signal.ITIMER_PROF, limit, 0.2)      # fires again should the first one be swallowed
            signal.setitimer(signal.ITIMER_REAL, 10 * limit, 1.0)
            try:
                out = ('tree', oal.parse(text))
            except _Timeout:
                raise
            except KeyboardInterrupt:
                raise
            except oal.ParseException as e:
                out = ('parse-exception', e)
            except BaseException as e:
                out = ('other', e)
        finally:
            signal.setitimer(signal.ITIMER_PROF, 0)
            signal.setitimer(signal.ITIMER_REAL, 0)
    except _Timeout:
        if out is None:
            out = ('timeout', None)
    finally:
        signal.signal(signal.SIGPROF, old_prof)
        signal.signal(signal.SIGALRM, old_alrm)
    return out[0], out[1], time.process_time() - t0


def totality_outcome(text):
    """(violations, outcome, value) of 'returns a tree or raises the parse exception, in bounded time' for one text"""
    oal = _oal()
    outcome, value, secs = timed_parse(text)
    v = []
    if outcome == 'timeout':
        v = [dict(clause='bounded-time', observed='no result within the limit (%.2f s of CPU time used, %d characters)' % (secs, len(text)),
                  required='tree or ParseException within %.2f s' % limit_of(text))]
    elif outcome == 'other':
        v = [dict(clause='only-parse-exception:%s' % type(value).__name__,
                  observed='%s: %s' % (type(value).__name__, str(value)[:300]),
                  required='a tree or bridgepoint.oal.ParseException')]
    elif outcome == 'tree' and not isinstance(value, oal.Node):
        v = [dict(clause='returns-tree', observed=repr(value)[:200], required='a syntax tree (oal.Node)')]
    return v, outcome, value


def totality_violations(text):
    return totality_outcome(text)[0]


def _total(ctx, text, nontrivial=True, key=None):
    """one totality case; returns the outcome ('tree', 'parse-exception', ...) and its value"""
    ctx.case(key=text if key is None else key, nontrivial=nontrivial)
    v, outcome, value = totality_outcome(text)
    for x in v:
        ctx.check(False, clause=x['clause'], input=dict(text=text), observed=x['observed'], required=x['required'])
    return outcome, value


# ------------------------------------------------------------------------------------------------------------
# strings
# ------------------------------------------------------------------------------------------------------------
_PIECES = (['/*', '*/', '//', '/', '*', '"', "'", '\n', '\n', '\r', '\r\n', '\t', ' ', ' ', ';', ';', '.', ':', '::', ',',
            '(', ')', '[', ']', '=', '==', '!=', '!', '<', '<=', '>', '>=', '->', '-', '+', '|', '&', '^', '%', '?',
            '#', '$', '@', '\\', '`', '~', '{', '}', '\x00', '\x0c', '\x0b', '\xe9', '€', '\U0001f600',
            'a', 'b', 'x', 'E', 'e', 'f', 'L', '_', 'R1', 'end', 'if', 'for', 'while', 'self', 'param', 'select', 'x = 1',
            '0', '1', '9', '1.', '.5', '1e', 'e+', '00'])


def random_string(rng):
    n = rng.choice((0, 1, 2, 3, 5, 8, 13, 21, 34))
    return ''.join(rng.choice(_PIECES) for _ in range(n))


@item('strings', stands_in_for=_STANDS, shards=1, weight=1,
      bound='random strings of 0-34 pieces over an alphabet of %d pieces (comment openers/closers, quotes, line breaks, '
            'operators, letters, digits, control and non-ASCII characters): 5 000 quick / 60 000 thorough' % len(set(_PIECES)))
def strings(ctx):
    n = (5000 if ctx.quick else 60000) // ctx.nshards
    done = True
    for _ in range(n):
        if ctx.expired():
            done = False
            break
        s = random_string(ctx.rng)
        _total(ctx, s, nontrivial=bool(s.strip()))
    ctx.exhausted = False if not done else None     # random sample: never "exhaustive"


# ------------------------------------------------------------------------------------------------------------
# token sequences
# ------------------------------------------------------------------------------------------------------------
TOKEN_ALPHABET = (list(G.KEYWORDS) +
                  [';', '=', '.', '::', '(', ')', '*', ':', ',', '->', '[', ']', '?', '==', '!=', '<', '<=', '>', '>=',
                   '+', '-', '|', '/', '%', '&', '^',
                   'x', 'NS::', '1', '1.5', '"s"', "'p'", 'end for', 'end if', 'end while'])


def _live(outcome, value):
    """ordering heuristic only: does the parser still accept this prefix (tree, or error reported at the end)?"""
    return outcome == 'tree' or (outcome == 'parse-exception' and 'unknown' in str(value))


@item('token-sequences', stands_in_for=_STANDS, shards=8, weight=2,
      bound='token alphabet of %d (54 keywords, 26 operators/punctuation, identifier, namespace::, integer, real, '
            'string, ticked phrase, end for/if/while): all sequences of length <= 2 (quick and thorough); thorough: all of '
            'length 3 (prefixes still accepted by the parser first; budget permitting); random sequences of length '
            '4-12: 2 000 quick / 16 000 thorough' % len(TOKEN_ALPHABET))
def token_sequences(ctx):
    A = TOKEN_ALPHABET
    mine = [a for i, a in enumerate(A) if i % ctx.nshards == ctx.shard]     # sharded by first token
    complete = True
    live, dead = [], []
    if ctx.shard == 0:
        _total(ctx, '', nontrivial=False)
    for a in mine:
        _total(ctx, a)
        for b in A:
            if ctx.expired():
                complete = False
                break
            text = a + ' ' + b
            outcome, value = _total(ctx, text)
            if not ctx.quick and outcome in ('tree', 'parse-exception'):
                (live if _live(outcome, value) else dead).append(text)
    # random longer sequences
    for _ in range((2000 if ctx.quick else 16000) // ctx.nshards):
        if ctx.expired():
            complete = False
            break
        _total(ctx, ' '.join(ctx.rng.choice(A) for _ in range(ctx.rng.randint(4, 12))))
    if not ctx.quick:
        for prefix in live + dead:
            for c in A:
                _total(ctx, prefix + ' ' + c)
            if ctx.expired():
                complete = False
                break
    ctx.exhausted = complete
    if ctx.shard == 0 and not ctx.quick:
        ctx.note('length-3 sequences are enumerated in full only if the budget allows; see "exhaustive"')


# ------------------------------------------------------------------------------------------------------------
# single-edit mutants of valid programs
# ------------------------------------------------------------------------------------------------------------
_STRAY = ['"', "'", '/*', '*/', '//', '/', '*', '#', '$', '!', '\\', '(', ')', '[', ']', ';', '.', ':', '::', ',', '=',
          '\n', ' ', '\x00', '\xe9', '1', 'e', '_', '-', '>', '<']


def mutants(rng, toks, glue, full):
    """(kind, text) of single-edit mutants of the program given as token list"""
    merged = []
    for i, t in enumerate(toks):       # a namespace and its "::" travel together
        if i - 1 in glue:
            merged[-1] += t
        else:
            merged.append(t)
    toks = merged

    def join(ts, _=None):
        return ' '.join(ts)

    base = join(toks)
    yield 'valid', base
    n = len(toks)
    for i in range(n):
        yield 'delete-token', join(toks[:i] + toks[i + 1:], ())
        yield 'duplicate-token', join(toks[:i + 1] + toks[i:], ())
        yield 'truncate-after-token', join(toks[:i], ())
        if i + 1 < n:
            yield 'swap-tokens', join(toks[:i] + [toks[i + 1], toks[i]] + toks[i + 2:], ())
        yield 'replace-token', join(toks[:i] + [rng.choice(TOKEN_ALPHABET)] + toks[i + 1:], ())
        yield 'insert-token', join(toks[:i] + [rng.choice(TOKEN_ALPHABET)] + toks[i:], ())
    positions = range(len(base) + 1) if full else sorted(rng.sample(range(len(base) + 1), min(40, len(base) + 1)))
    for p in positions:
        yield 'insert-character', base[:p] + rng.choice(_STRAY) + base[p:]
        if p < len(base):
            yield 'delete-character', base[:p] + base[p + 1:]
            yield 'truncate-at-character', base[:p]


@item('mutations', stands_in_for=_STANDS, shards=2, weight=2,
      bound='valid generated programs (1-3 statements, every production, expression depth <= 2): 40 quick / 300 '
            'thorough; every single-token edit (delete, duplicate, swap, truncate, replace, insert) at every token, '
            'single-character edits (insert stray character, delete, truncate) at 40 positions (thorough: all)')
def mutations(ctx):
    rng = ctx.rng
    nbase = (40 if ctx.quick else 300) // ctx.nshards
    complete = True
    kinds = list(G.STATEMENT_KINDS)
    for b in range(nbase):
        if ctx.expired():
            complete = False
            break
        # every production in turn as first statement
        first = G.gen_statement(rng, kinds[(b * ctx.nshards + ctx.shard) % len(kinds)], None, depth=rng.choice((0, 1, 2)),
                                nest=rng.choice((0, 1)))[0]
        rest = [G.gen_statement(rng, rng.choice(kinds), None, depth=1, nest=0)[0] for _ in range(rng.choice((0, 0, 1, 2)))]
        p = G.print_program(G.Body([first] + rest), rng, 'random')
        for kind, text in mutants(rng, p.toks, p.glue, full=not ctx.quick):
            outcome, value = _total(ctx, text)
            if kind == 'valid' and outcome == 'parse-exception':
                # the unedited program is valid OAL: it must parse (otherwise the generator or C07 is at fault)
                ctx.note('generated program rejected (see C07): %r' % text[:200])
            if ctx.expired():
                complete = False
                break
    ctx.exhausted = False if not complete else None


# ------------------------------------------------------------------------------------------------------------
# growth families (bounded time as the input grows)
# ------------------------------------------------------------------------------------------------------------
FAMILIES = [
    ('unterminated-comment-newlines', lambda k: '/*' + '\n' * k),
    ('unterminated-comment-cr', lambda k: '/*' + '\r' * k),
    ('unterminated-comment-crlf', lambda k: '/*' + '\r\n' * k),
    ('unterminated-comment-blanks', lambda k: '/*' + ' ' * k),
    ('unterminated-comment-stars', lambda k: '/*' + '*' * k),
    ('unterminated-comment-star-newline', lambda k: '/*' + '*\n' * k),
    ('unterminated-comment-star-letter', lambda k: '/*' + '*a' * k),
    ('unterminated-comment-after-code', lambda k: 'x = 1;\n/* note' + '\n' * k + 'y = 2;'),
    ('terminated-comment-newlines', lambda k: '/*' + '\n' * k + '*/'),
    ('terminated-comments', lambda k: '/* c */' * k),
    ('line-comments', lambda k: '// c\n' * k),
    ('long-line-comment', lambda k: '//' + 'a' * k),
    ('unterminated-string', lambda k: 'x = "' + 'a' * k),
    ('quotes', lambda k: '"' * k),
    ('unterminated-phrase-lines', lambda k: "'" + 'a\n' * k),
    ('ticks', lambda k: "'" * k),
    ('digits', lambda k: '1' * k),
    ('digit-dots', lambda k: '1.' * k),
    ('digit-e', lambda k: '1e' * k),
    ('dots', lambda k: '.' * k),
    ('letters', lambda k: 'a' * k),
    ('namespaces', lambda k: 'a::' * k),
    ('colons', lambda k: ':' * k),
    ('end-blanks', lambda k: 'end' + ' ' * k),
    ('end-newlines', lambda k: 'end' + '\n' * k + 'x'),
    ('ends', lambda k: 'end ' * k),
    ('open-parentheses', lambda k: 'x = ' + '(' * k),
    ('nested-parentheses', lambda k: 'x = ' + '(' * k + '1' + ')' * k + ';'),
    ('minus-signs', lambda k: 'x = ' + '-' * k + '1;'),
    ('not-chain', lambda k: 'x = ' + 'not ' * k + 'y;'),
    ('sum', lambda k: 'x = ' + '1 + ' * k + '1;'),
    ('comparisons', lambda k: 'x = ' + '1 < ' * k + '1;'),
    ('field-chain', lambda k: 'x' + '.y' * k + ' = 1;'),
    ('index-chain', lambda k: 'x' + '[1]' * k + ' = 1;'),
    ('statements', lambda k: 'x = 1;\n' * k),
    ('semicolons', lambda k: ';' * k),
    ('nested-if', lambda k: 'if x then ' * k + 'end if; ' * k),
    ('elifs', lambda k: 'if x then ' + 'elif y then ' * k + 'end if;'),
    ('parameters', lambda k: '::f(' + 'a:1, ' * k + 'a:1);'),
    ('navigation', lambda k: 'select many s related by self' + '->A[R1]' * k + ';'),
    ('illegal-characters', lambda k: '#' * k),
    ('blanks', lambda k: ' ' * k),
    ('newlines', lambda k: '\n' * k),
]


def _ks(maxlen):
    k = 1
    while k <= maxlen:
        yield k
        k = k + 1 if k < 40 else int(k * 1.5)


@item('growth', stands_in_for=_STANDS, shards=1, weight=1,
      bound='%d families of texts f(k), k = 1..40 then x1.5 while the text is shorter than 3 000 (quick) / 12 000 '
            '(thorough) characters; each parse limited to 2 s + 1 ms per character of CPU time; a family stops at its first timeout'
            % len(FAMILIES))
def growth(ctx):
    maxlen = 3000 if ctx.quick else 12000
    complete = True
    for name, f in FAMILIES:
        times = []
        for k in _ks(maxlen):
            text = f(k)
            if len(text) > maxlen:
                break
            if ctx.expired():
                complete = False
                break
            ctx.case(key=[name, k])
            outcome, value, secs = timed_parse(text)
            times.append((k, round(secs, 3)))
            if outcome == 'timeout':
                ctx.check(False, clause='bounded-time', input=dict(text=text, family=name, k=k),
                          observed=dict(seconds='> %.2f' % secs, characters=len(text),
                                        seconds_for_smaller_k=dict(('k=%d' % a, b) for a, b in times[-8:-1])),
                          required='tree or ParseException within %.2f s' % limit_of(text))
                break
            for x in totality_violations(text) if outcome == 'other' else ():
                ctx.check(False, clause=x['clause'], input=dict(text=text, family=name, k=k), observed=x['observed'],
                          required=x['required'])
    ctx.exhausted = complete


# ------------------------------------------------------------------------------------------------------------
# positions
# ------------------------------------------------------------------------------------------------------------
_COMPONENTS = ['start-line', 'start-column', 'end-line', 'end-column', 'source-text']


def expected_position(text, toks, span):
    a, b = toks[span[0]], toks[span[1]]
    return (a.line, a.col, b.end_line, b.end_col, text[a.start:b.end])


def node_violations(text, toks, node, span, pspan):
    """compare what one library node records with the span of its tokens (or the span including the parentheses
    written directly around it, which the grammar also reduces to this node)"""
    multiline = any('\n' in t.text for t in toks[:(pspan or span)[1] + 1])
    suffix = ':multiline-token' if multiline else ''
    pos = getattr(node, 'position', None)
    if pos is None:
        return [dict(clause='position-recorded', observed=None, required=list(expected_position(text, toks, span)))]
    obs = (getattr(pos, 'start_line', None), getattr(pos, 'start_column', None), getattr(pos, 'end_line', None),
           getattr(pos, 'end_column', None), getattr(node, 'character_stream', None))
    cands = [expected_position(text, toks, s) for s in ([span, pspan] if pspan else [span])]
    if obs in cands:
        return []
    best = max(cands, key=lambda c: sum(1 for x, y in zip(c, obs) if x == y))
    for name, want, got in zip(_COMPONENTS, best, obs):
        if want != got:
            return [dict(clause=name + suffix,
                         observed=dict(start_line=obs[0], start_column=obs[1], end_line=obs[2], end_column=obs[3],
                                       character_stream=obs[4]),
                         required=dict(start_line=best[0], start_column=best[1], end_line=best[2], end_column=best[3],
                                       character_stream=best[4]))]
    return []


def check_positions(text, nodes):
    """nodes: list of dict(path, cls, span, pspan).  Returns [(node description, violation)]"""
    oal = _oal()
    toks = G.tokenize(text)
    root = oal.parse(text)
    out = []
    for nd in nodes:
        try:
            node = G.follow(root, nd['path'])
        except (AttributeError, IndexError, KeyError, TypeError):
            continue
        if type(node).__name__ != nd['cls']:
            continue          # tree shape is C07's business
        for v in node_violations(text, toks, node, tuple(nd['span']), tuple(nd['pspan']) if nd['pspan'] else None):
            out.append((nd, v))
    return out


def N_simple(rng):
    return G.gen_statement(rng, rng.choice(['break', 'continue', 'return', 'assign']), None, depth=0, nest=0)[0]


def _positions_case(ctx, body, style_multiline):
    rng = ctx.rng
    p = G.print_program(body, rng, 'random')
    text, toks = G.layout(p.toks, p.glue, rng, style='random', multiline_tokens=style_multiline)
    nodes = [dict(path=list(path), cls=n.cls, span=list(n.span), pspan=list(n.pspan) if n.pspan else None)
             for n, path in G.checked_nodes(body)]
    ctx.case(key=text, nontrivial=len(nodes) > 0)
    try:
        res = check_positions(text, nodes)
    except Exception as e:
        if type(e).__name__ == 'ParseException':
            ctx.note('generated program rejected (see C07): %r' % text[:200])
            return
        raise
    for nd, v in res:
        ctx.check(False, clause=v['clause'], input=dict(text=text, node=nd), observed=v['observed'],
                  required=v['required'])


@item('positions', stands_in_for=_STANDS_POS, shards=4, weight=2,
      bound='every statement production alone or followed by one short statement (38 x 24 quick / x 300 thorough) and random programs of 1-5 statements, '
            'blocks nested <= 2, expression depth <= 3 (3 000 quick / 60 000 thorough), random layout with tabs, CR LF, '
            'line breaks inside expressions, // and /* */ comments; a third of the single statements and 15 % of the '
            'programs may contain a token spanning lines (end<newline>if, ticked phrase with a line break); '
            'all statement and expression nodes checked')
def positions(ctx):
    rng = ctx.rng
    complete = True
    k = 0
    for rnd in range(24 if ctx.quick else 300):
        # small statements first, so that the first failures reported are small
        ml = rnd % 3 == 2
        for kind in G.STATEMENT_KINDS:
            k += 1
            if k % ctx.nshards != ctx.shard:
                continue
            if ctx.expired():
                complete = False
                break
            stmt = G.gen_statement(rng, kind, None, depth=(rnd // 3) % 3, nest=0 if rnd < 9 else 1, multiline=ml)[0]
            # every other round a short statement follows, so that positions after the production are seen as well
            tail = [N_simple(rng)] if rnd % 2 else []
            _positions_case(ctx, G.Body([stmt] + tail), ml)
    for _ in range((3000 if ctx.quick else 60000) // ctx.nshards):
        if ctx.expired():
            complete = False
            break
        ml = rng.random() < 0.15
        body = G.gen_program(rng, rng.randint(1, 5), depth=rng.choice((1, 2, 3)), nest=rng.choice((0, 1, 2)), multiline=ml)
        _positions_case(ctx, body, ml)
    ctx.exhausted = False if not complete else None
    if ctx.shard == 0:
        ctx.note('lines and columns count from 1; a tab, a CR and any other character count one column')
        ctx.note('a parenthesised operand is reduced to the node of the inner expression: either the span of the inner '
                 'expression or the span including the outermost parentheses directly around it is accepted')
        ctx.note('not checked: list/clause nodes that are neither statements nor expressions (statement list, block, '
                 'parameter, event specification, navigation step, elif/else clause)')


# ------------------------------------------------------------------------------------------------------------
def replay(item_name, input):
    """input: {'text': ...} for the totality items, {'text': ..., 'node': {path, cls, span, pspan}} for positions"""
    if 'node' in input:
        return [v for _, v in check_positions(input['text'], [input['node']])]
    return totality_violations(input['text'])
