"""C15 (bounded tier): callable model elements behave as their OAL bodies specify.

Contract on the symbols mk_component provides (functions, bridges of an external entity, class-based and instance-based
operations, derived attributes, enumerations, constants), invoked from Python and from other OAL bodies: result and final
population equal the reference evaluation (bounded/ref_oal.py: parameters bound by name, self = receiving instance, a fresh
variable scope per invocation, value of the executed return statement or nothing, derived attributes recomputed on every
read, enumerator = position in the modeled order, constant = modeled value).  Each case is a generated BridgePoint model
(rows as in *.xtuml files) loaded by the real loader.

Clauses: call-result-and-final-population; parameters-distinct-from-locals (bodies that assign a local variable named like
a parameter: param.<name> keeps delivering the argument, in the body, its caller and every recursion level);
bare-return-delivers-nothing (the reference executed a bare `return;` - DESIGN
section 6, F6); derived-attribute-recomputed; self-bound:<statement> (self used as handle of relate / unrelate / delete / select / ...);
enumerator-modeled-order and constant-modeled-value (rows of the model file permuted - F6 second part); row-order-independent;
equal-names-distinct-elements (item equal-names: elements of equal name in different external entities / kinds / classes of one
class name have bodies of their own and are invoked in every order); derived-attribute-other-instances (derived attribute bodies
that read / assign the equally named attribute of other instances); bounded-time.
"""
import itertools

import vlib.fresh_ply  # noqa: F401
from vlib.bounded import item

from bounded import _c04_gen as G
from bounded import _c15_gen as C
from bounded import ref_oal as R
from bounded.c04 import soft_expired

STANDS = ['bridgepoint.ooaofooa.mk_function', 'bridgepoint.ooaofooa.mk_bridge', 'bridgepoint.ooaofooa.mk_external_entity',
          'bridgepoint.ooaofooa.mk_operation', 'bridgepoint.ooaofooa.mk_derived_attribute', 'bridgepoint.ooaofooa.mk_component',
          'bridgepoint.interpret.run_function', 'bridgepoint.interpret.run_operation', 'bridgepoint.interpret.run_derived_attribute',
          'bridgepoint.interpret.ActionWalker.accept_ReturnNode', 'bridgepoint.interpret.ActionWalker.accept_BodyNode',
          'bridgepoint.interpret.SymbolTable']
NOTE = ('non-trivial cases = cases the reference evaluator accepts (they are loaded and run on the real code); '
        'cases with a side effect during the evaluation of a where clause or of an and/or operand are skipped (evaluation count / '
        'short-circuit are not fixed by the property); select any / for each order from C09; cases the reference rejects are skipped')


def run_case(ctx, case):
    res = C.check_case(case)
    if res is None:
        ctx.case(key=None, nontrivial=False)
        return
    ctx.case(key=case, nontrivial=True)
    for clause, observed, required in res:
        ctx.check(False, clause=clause, input=dict(case, population=C.default_population(case), oal=C.bodies(case)),
                  observed=observed, required=required)


# ------------------------------------------------------------------------------------------------- templates
KINDS = ('function', 'bridge', 'cop', 'iop')
OWNER = dict(function=None, bridge='EX', cop='A', iop='A')
X, Y, U, V, P, Q = (['var', n] for n in 'xyuvpq')
A1 = ['var', 'a1']
PARAMS = [['n', 'integer'], ['t', 'string'], ['c', 'boolean']]


def callee(kind, form, name='T', pure=False):
    body = [['assign', X, ['bin', '*', ['param', 'n'], ['int', 2]]],
            ['assign', U, ['bin', '+', ['param', 't'], ['str', '!']]],
            ['assign', P, ['un', 'not', ['param', 'c']]]]
    if not pure:
        body.append(['create', None, 'B'])      # every invocation leaves a trace in the population
    if kind == 'iop':
        body.append(['assign', X, ['bin', '+', X, ['attr', ['self'], 'i']]])
    ret = form if form in ('int', 'str', 'bool') else None
    if ret:
        body.append(['return', dict(int=X, str=U, bool=P)[ret]])
    elif form == 'bare':
        body.append(['return', None])
    return dict(kind=kind, name=name, owner=OWNER[kind], params=PARAMS, ret=ret, form=form, body=body)


def call(kind, n, t, c, order=0, name='T', target=A1):
    args = [['n', n], ['t', t], ['c', c]]
    args = list(itertools.permutations(args))[order % 6]
    args = [list(a) for a in args]
    if kind == 'function':
        return ['fcall', name, args]
    if kind == 'bridge':
        return ['bcall', 'EX', name, args]
    if kind == 'cop':
        return ['ccall', 'A', name, args]
    return ['icall', target, name, args]


CONTEXTS = ('python', 'stmt', 'assign', 'expr', 'arg', 'if-cond', 'elif-cond', 'while-cond', 'where', 'for-body', 'return')


def template_case(kind, form, context, order):
    """One callee of the given kind / return form and a caller `main` that invokes it in the given context; the caller keeps
    x, u, p of its own (the callee assigns variables of the same names) and stores them in the population at the end."""
    cal = callee(kind, form, pure=(context == 'where'))
    lit = [['int', 3], ['str', 's'], ['bool', False]]
    c = call(kind, lit[0], lit[1], lit[2], order)
    if context == 'python':
        return dict(callables=[cal], derived={}, rows=None,
                    entry=dict(kind=kind, name='T', owner=OWNER[kind], args=dict(n=3, t='s', c=False), this=1 if kind == 'iop' else None))
    pre = [['assign', X, ['int', 5]], ['assign', U, ['str', 'keep']], ['assign', P, ['bool', True]], ['selfrom', 'any', 'a1', 'A', None]]
    scope = dict(x='int', u='str', p='bool')
    out_var = dict(int=Y, str=V, bool=Q).get(form)
    if out_var:
        scope[out_var[1]] = dict(int='int', str='str', bool='bool')[form]
    ret = 'int'
    if context == 'stmt':
        mid = [['call', c]]
        if out_var:
            scope.pop(out_var[1], None)
    elif context == 'for-body':
        inner = [['assign', out_var, c]] if out_var else [['call', c]]
        mid = ([['assign', out_var, dict(int=['int', 0], str=['str', ''], bool=['bool', False])[form]]] if out_var else []) + \
              [['selfrom', 'many', 'as1', 'A', None], ['for', 'a2', 'as1', inner]]
    elif context == 'assign':
        mid = [['assign', out_var, c]]
    elif context == 'expr':
        mid = [['assign', out_var, dict(int=['bin', '+', c, X], str=['bin', '+', c, U], bool=['un', 'not', c])[form]]]
    elif context == 'arg':
        inner = call(kind, ['int', 1], ['str', 'in'], ['bool', True], order + 1)
        outer = dict(int=call(kind, inner, lit[1], lit[2], order), str=call(kind, lit[0], inner, lit[2], order),
                     bool=call(kind, lit[0], lit[1], inner, order))[form]
        mid = [['assign', out_var, outer]]
    elif context in ('if-cond', 'elif-cond', 'while-cond'):
        cond = dict(int=['bin', '==', c, ['int', 6 + (1 if kind == 'iop' else 0)]], str=['bin', '==', c, ['str', 's!']], bool=c)[form]
        scope = dict(x='int', u='str', p='bool', y='int')
        if context == 'if-cond':
            mid = [['assign', Y, ['int', 0]], ['if', cond, [['assign', Y, ['int', 1]]], [], [['assign', Y, ['int', 2]]]]]
        elif context == 'elif-cond':
            mid = [['assign', Y, ['int', 9]],
                   ['if', ['bool', False], [['assign', Y, ['int', 0]]], [[cond, [['assign', Y, ['int', 1]]]]], [['assign', Y, ['int', 2]]]]]
        else:
            mid = [['assign', Y, ['int', 0]],
                   ['while', cond, [['assign', Y, ['bin', '+', Y, ['int', 1]]], ['if', ['bin', '>=', Y, ['int', 2]], [['break']], [], None]]]]
    elif context == 'where':
        w = dict(int=['bin', '<=', ['attr', ['selected'], 'i'], ['bin', '-', c, ['int', 4]]], str=['bin', '!=', ['attr', ['selected'], 's'], c],
                 bool=['bin', '==', ['attr', ['selected'], 'b'], c])[form]
        mid = [['selfrom', 'many', 'as1', 'A', w]]
        scope = dict(x='int', u='str', p='bool', as1='A*')
    elif context == 'return':
        return dict(callables=[cal, dict(kind='function', name='main', owner=None, params=[], ret=form, form='value', body=pre + [['return', c]])],
                    derived={}, rows=None, entry=dict(kind='function', name='main', owner=None, args={}, this=None))
    else:
        raise KeyError(context)
    body = pre + mid + G.observe(scope, [], C.make_schema(dict(callables=[]))) + [['return', ['var', 'o9']]]
    # the observation stores its code in an instance of L in C04; here in B.n of a new B
    body = [s for s in body if s not in (['create', 'z9', 'L'], ['assign', ['attr', ['var', 'z9'], 'w'], ['var', 'o9']])]
    main = dict(kind='function', name='main', owner=None, params=[], ret=ret, form='value', body=body)
    return dict(callables=[cal, main], derived={}, rows=None, entry=dict(kind='function', name='main', owner=None, args={}, this=None))


def minimal_return_cases():
    """The smallest bodies for each return form: `return;`, `x = 1; return;`, `x = 1;`, `return 1;`."""
    for kind in KINDS:
        for body, ret, form in (([['return', None]], None, 'bare'), ([['assign', X, ['int', 1]], ['return', None]], None, 'bare'),
                                ([['assign', X, ['int', 1]]], None, 'fall'), ([], None, 'fall'), ([['return', ['int', 1]]], 'int', 'value')):
            yield dict(callables=[dict(kind=kind, name='T', owner=OWNER[kind], params=[], ret=ret, form=form, body=body)], derived={}, rows=None,
                       entry=dict(kind=kind, name='T', owner=OWNER[kind], args={}, this=0 if kind == 'iop' else None))


def template_cases():
    n = 0
    for case in minimal_return_cases():
        yield case
    for kind in KINDS:
        for form in ('int', 'str', 'bool', 'bare', 'fall'):
            for context in CONTEXTS:
                if form in ('bare', 'fall') and context not in ('python', 'stmt', 'for-body'):
                    continue
                n += 1
                yield template_case(kind, form, context, n)


def recursion_cases():
    """Self recursion, mutual recursion between every pair of kinds, a chain over all four kinds, void recursion."""
    def rec_body(next_call, base, kind):
        body = [['if', ['bin', '<=', ['param', 'n'], ['int', 0]], [['return', ['int', base]]], [], None],
                ['assign', X, ['param', 'n']], ['assign', U, ['bin', '+', ['str', 'lvl'], ['str', kind[0]]]],
                ['assign', Y, next_call],
                ['if', ['bin', '!=', U, ['bin', '+', ['str', 'lvl'], ['str', kind[0]]]], [['return', ['un', '-', ['int', 1000]]]], [], None],
                ['return', ['bin', '+', ['bin', '*', X, ['int', 10]], Y]]]
        return body

    def one(kind, name, callee_kind, callee_name, base):
        target = ['self'] if kind == 'iop' and callee_kind == 'iop' else A1
        nxt = dict(function=['fcall', callee_name, [['n', ['bin', '-', ['param', 'n'], ['int', 1]]]]],
                   bridge=['bcall', 'EX', callee_name, [['n', ['bin', '-', ['param', 'n'], ['int', 1]]]]],
                   cop=['ccall', 'A', callee_name, [['n', ['bin', '-', ['param', 'n'], ['int', 1]]]]],
                   iop=['icall', target, callee_name, [['n', ['bin', '-', ['param', 'n'], ['int', 1]]]]])[callee_kind]
        body = rec_body(nxt, base, kind)
        if callee_kind == 'iop' and target is A1:
            body.insert(1, ['selfrom', 'any', 'a1', 'A', None])
        return dict(kind=kind, name=name, owner=OWNER[kind], params=[['n', 'integer']], ret='int', form='value', body=body)

    for kind in KINDS:
        for n in (0, 1, 3):
            yield dict(callables=[one(kind, 'R', kind, 'R', 1)], derived={}, rows=None,
                       entry=dict(kind=kind, name='R', owner=OWNER[kind], args=dict(n=n), this=1 if kind == 'iop' else None))
    for k1 in KINDS:
        for k2 in KINDS:
            for n in (2, 3):
                yield dict(callables=[one(k1, 'M1', k2, 'M2', 1), one(k2, 'M2', k1, 'M1', 2)], derived={}, rows=None,
                           entry=dict(kind=k1, name='M1', owner=OWNER[k1], args=dict(n=n), this=2 if k1 == 'iop' else None))
    for perm in itertools.permutations(KINDS):
        names = ['N%d' % i for i in range(4)]
        cs = [one(perm[i], names[i], perm[(i + 1) % 4], names[(i + 1) % 4], i) for i in range(4)]
        yield dict(callables=cs, derived={}, rows=None,
                   entry=dict(kind=perm[0], name='N0', owner=OWNER[perm[0]], args=dict(n=3), this=0 if perm[0] == 'iop' else None))
    for kind in KINDS:      # void recursion: nothing is returned, the effect is in the population
        nxt = call_void(kind)
        body = [['if', ['bin', '>', ['param', 'n'], ['int', 0]],
                 [['assign', X, ['param', 'n']], ['create', 'b1', 'B'], nxt, ['assign', ['attr', ['var', 'b1'], 'n'], X]], [], None]]
        if kind == 'iop':
            pass
        yield dict(callables=[dict(kind=kind, name='W', owner=OWNER[kind], params=[['n', 'integer']], ret=None, form='fall', body=body)], derived={}, rows=None,
                   entry=dict(kind=kind, name='W', owner=OWNER[kind], args=dict(n=3), this=1 if kind == 'iop' else None))


def call_void(kind):
    args = [['n', ['bin', '-', ['param', 'n'], ['int', 1]]]]
    return ['call', dict(function=['fcall', 'W', args], bridge=['bcall', 'EX', 'W', args], cop=['ccall', 'A', 'W', args],
                         iop=['icall', ['self'], 'W', args])[kind]]


def derived_cases():
    sel = ['attr', ['self'], 'i']
    twice = [['assign', ['attr', ['self'], 'd'], ['bin', '*', sel, ['int', 2]]]]
    helper = dict(kind='function', name='H', owner=None, params=[['n', 'integer']], ret='int', form='value',
                  body=[['assign', X, ['bin', '+', ['param', 'n'], ['int', 100]]], ['return', X]])
    via_call = [['assign', X, ['int', 1]], ['assign', ['attr', ['self'], 'd'], ['bin', '+', ['fcall', 'H', [['n', sel]]], X]]]
    branch = [['if', ['attr', ['self'], 'b'], [['assign', ['attr', ['self'], 'd'], sel]], [], [['assign', ['attr', ['self'], 'd'], ['un', '-', sel]]]]]
    d1 = ['attr', A1, 'd']
    mains = [
        [['selfrom', 'any', 'a1', 'A', None], ['assign', X, d1], ['assign', ['attr', A1, 'i'], ['bin', '+', ['attr', A1, 'i'], ['int', 5]]],
         ['assign', Y, d1], ['return', ['bin', '-', ['bin', '*', Y, ['int', 100]], X]]],
        [['selfrom', 'many', 'as1', 'A', ['bin', '>', ['attr', ['selected'], 'd'], ['int', 2]]], ['return', ['un', 'cardinality', ['var', 'as1']]]],
        [['selfrom', 'many', 'as1', 'A', None], ['assign', X, ['int', 0]],
         ['for', 'a1', 'as1', [['assign', X, ['bin', '+', X, d1]], ['assign', ['attr', A1, 'i'], ['bin', '+', ['attr', A1, 'i'], ['int', 1]]], ['assign', X, ['bin', '+', X, d1]]]],
         ['return', X]],
        [['selfrom', 'any', 'a1', 'A', None], ['assign', X, ['int', 0]], ['assign', Y, ['int', 0]],
         ['while', ['bin', '<', d1, ['int', 9]], [['assign', ['attr', A1, 'i'], ['bin', '+', ['attr', A1, 'i'], ['int', 1]]], ['assign', Y, ['bin', '+', Y, ['int', 1]]]]],
         ['return', ['bin', '+', ['bin', '*', Y, ['int', 100]], d1]]],
    ]
    for dname, dbody in (('twice', twice), ('via-call', via_call), ('branch', branch)):
        for main in mains:
            yield dict(callables=[helper, dict(kind='function', name='main', owner=None, params=[], ret='int', form='value', body=main)],
                       derived={'d': dbody}, rows=None, clause='derived-attribute-recomputed',
                       entry=dict(kind='function', name='main', owner=None, args={}, this=None))
        for this in (0, 1, 2):
            yield dict(callables=[helper], derived={'d': dbody}, rows=None, clause='derived-attribute-recomputed',
                       entry=dict(kind='derived', name='d', owner='A', args={}, this=this))


SELF_POPULATION = dict(C.POPULATION, B=C.POPULATION['B'] + [dict(b_id=14, n=40, t='free')])


def self_cases():
    """self as the handle of statements inside instance-based operations."""
    free_b = ['selfrom', 'any', 'b1', 'B', ['bin', '==', ['attr', ['selected'], 'n'], ['int', 40]]]
    mine_b = ['selrel', 'any', 'b1', ['self'], [['B', 'R1', None]], None]
    count = [['selrel', 'many', 'bs1', ['self'], [['B', 'R1', None]], None], ['return', ['un', 'cardinality', ['var', 'bs1']]]]
    bodies = {
        'attribute-read': [['return', ['bin', '+', ['attr', ['self'], 'i'], ['param', 'n']]]],
        'attribute-write': [['assign', ['attr', ['self'], 'i'], ['bin', '+', ['attr', ['self'], 'i'], ['param', 'n']]], ['return', ['attr', ['self'], 'i']]],
        'select-related': count,
        'select-related-where': [['selrel', 'many', 'bs1', ['self'], [['B', 'R1', None]], ['bin', '>', ['attr', ['selected'], 'n'], ['param', 'n']]],
                                 ['return', ['un', 'cardinality', ['var', 'bs1']]]],
        'relate-from': [free_b, ['relate', 'self', 'b1', 'R1', None, None]] + count,
        'relate-to': [free_b, ['relate', 'b1', 'self', 'R1', None, None]] + count,
        'unrelate-from': [mine_b, ['unrelate', 'self', 'b1', 'R1', None, None]] + count,
        'unrelate-to': [mine_b, ['unrelate', 'b1', 'self', 'R1', None, None]] + count,
        'delete': [['delete', 'self'], ['selfrom', 'many', 'as1', 'A', None], ['return', ['un', 'cardinality', ['var', 'as1']]]],
        'invocation': [['assign', X, ['int', 1]], ['assign', Y, ['icall', ['self'], 'S2', [['n', ['attr', ['self'], 'i']]]]], ['return', ['bin', '+', X, Y]]],
        'compare-where': [['selfrom', 'many', 'as1', 'A', ['bin', '==', ['attr', ['selected'], 'a_id'], ['attr', ['self'], 'a_id']]],
                          ['return', ['un', 'cardinality', ['var', 'as1']]]],
        'not_empty': [['return', ['un', 'not_empty', ['self']]]],
    }
    s2 = dict(kind='iop', name='S2', owner='A', params=[['n', 'integer']], ret='int', form='value',
              body=[['assign', X, ['bin', '*', ['param', 'n'], ['int', 10]]], ['return', ['bin', '+', X, ['attr', ['self'], 'i']]]])
    for name in sorted(bodies):
        ret = 'bool' if name == 'not_empty' else 'int'
        for this in (0, 1, 2):
            yield dict(callables=[dict(kind='iop', name='S', owner='A', params=[['n', 'integer']], ret=ret, form='value', body=bodies[name]), s2],
                       derived={}, rows=None, population=SELF_POPULATION, clause='self-bound:' + name,
                       entry=dict(kind='iop', name='S', owner='A', args=dict(n=15), this=this))


# ------------------------------------------------------------------------------------------------- locals named like parameters
def _args_in_order(args, order):
    perms = list(itertools.permutations(args))          # parameters are bound by name: any order of the arguments
    return [list(a) for a in perms[order % len(perms)]]


def invocation(kind, name, args, target=A1, order=0):
    args = _args_in_order(args, order)
    if kind == 'function':
        return ['fcall', name, args]
    if kind == 'bridge':
        return ['bcall', 'EX', name, args]
    if kind == 'cop':
        return ['ccall', 'A', name, args]
    return ['icall', target, name, args]


def _param(n):
    return ['param', n]


def _mul_add(a, k, b):
    return ['bin', '+', ['bin', '*', a, ['int', k]], b]


SHADOW_SHAPES = ('assign', 'loop-counter', 'for-variable', 'select-variable', 'where', 'block-local', 'create')


def shadow_callable(shape, kind, form='int', name='T'):
    """A callable whose body assigns local variables named like its parameters and reads param.<name> before and after.
    Returns (callable, python arguments, OAL argument expressions)."""
    Z, A2 = ['var', 'z'], ['var', 'a2']
    if shape == 'assign':
        params = [['x', 'integer'], ['u', 'string'], ['p', 'boolean']]
        body = [['assign', Y, _param('x')], ['assign', V, _param('u')], ['assign', Q, _param('p')],           # read before
                ['assign', X, ['bin', '+', _param('x'), ['int', 1]]], ['assign', U, ['bin', '+', _param('u'), ['str', '!']]],
                ['assign', P, ['un', 'not', _param('p')]],
                ['assign', X, ['bin', '*', X, ['int', 2]]]]                                                          # and assigned again
        if kind == 'iop':
            body.append(['assign', X, ['bin', '+', X, ['attr', ['self'], 'i']]])
        body.append(['if', ['bin', 'or', ['bin', '!=', Y, _param('x')], ['bin', 'or', ['bin', '!=', V, _param('u')], ['bin', '!=', Q, _param('p')]]],
                     [['return', dict(int=['un', '-', ['int', 1]], str=['str', 'changed'], bool=_param('p'))[form]]], [], None])
        body.append(['return', dict(int=_mul_add(_param('x'), 100, X), str=['bin', '+', ['bin', '+', _param('u'), ['str', '/']], U],
                                    bool=['bin', 'and', ['bin', '!=', _param('p'), P], ['bin', '==', Q, _param('p')]])[form]])
        py, oal = dict(x=3, u='s', p=False), [['x', ['int', 3]], ['u', ['str', 's']], ['p', ['bool', False]]]
        return dict(kind=kind, name=name, owner=OWNER[kind], params=params, ret=form, form='value', body=body), py, oal
    form = 'int'
    if shape == 'loop-counter':
        params = [['n', 'integer']]
        total, N = ['var', 'total'], ['var', 'n']
        body = [['assign', N, ['int', 0]], ['assign', total, ['int', 0]],
                ['while', ['bin', '<', N, _param('n')], [['assign', N, ['bin', '+', N, ['int', 1]]], ['assign', total, ['bin', '+', total, N]]]],
                ['return', _mul_add(total, 100, _mul_add(N, 10, _param('n')))]]
        py, oal = dict(n=4), [['n', ['int', 4]]]
    elif shape == 'for-variable':
        params = [['a2', 'integer']]
        total = ['var', 'total']
        body = [['selfrom', 'many', 'as1', 'A', None], ['assign', total, ['int', 0]],
                ['for', 'a2', 'as1', [['assign', total, ['bin', '+', total, ['bin', '*', ['attr', A2, 'i'], _param('a2')]]]]],
                ['return', _mul_add(total, 10, _param('a2'))]]
        py, oal = dict(a2=5), [['a2', ['int', 5]]]
    elif shape == 'select-variable':
        params = [['a2', 'integer'], ['bs1', 'integer']]
        body = [['selfrom', 'any', 'a2', 'A', ['bin', '==', ['attr', ['selected'], 'i'], _param('a2')]],
                ['selrel', 'many', 'bs1', A2, [['B', 'R1', None]], ['bin', '>=', ['attr', ['selected'], 'n'], _param('bs1')]],
                ['return', _mul_add(_mul_add(['attr', A2, 'i'], 10, ['un', 'cardinality', ['var', 'bs1']]), 100, _mul_add(_param('a2'), 10, _param('bs1')))]]
        py, oal = dict(a2=1, bs1=20), [['a2', ['int', 1]], ['bs1', ['int', 20]]]
    elif shape == 'where':
        params = [['x', 'integer']]
        body = [['assign', X, ['int', 2]],
                ['selfrom', 'many', 'as1', 'A', ['bin', 'and', ['bin', '>=', ['attr', ['selected'], 'i'], _param('x')], ['bin', '!=', ['attr', ['selected'], 'i'], X]]],
                ['return', _mul_add(['un', 'cardinality', ['var', 'as1']], 100, _mul_add(_param('x'), 10, X))]]
        py, oal = dict(x=1), [['x', ['int', 1]]]
    elif shape == 'block-local':
        params = [['x', 'integer'], ['y', 'integer']]
        body = [['assign', Z, ['int', 0]],
                ['if', ['bin', '>', _param('x'), ['int', 0]],
                 [['assign', X, ['bin', '*', _param('x'), ['int', 2]]], ['assign', Z, ['bin', '+', X, _param('x')]]], [], [['assign', Z, ['int', 1]]]],
                ['assign', Y, ['bin', '+', Z, ['int', 1]]],
                ['while', ['bin', '<', Y, ['bin', '+', _param('y'), ['int', 12]]], [['assign', Y, ['bin', '+', Y, _param('y')]], ['assign', X, Y]]],
                ['return', _mul_add(_mul_add(_param('x'), 10, _param('y')), 1000, _mul_add(Z, 20, Y))]]
        py, oal = dict(x=3, y=2), [['x', ['int', 3]], ['y', ['int', 2]]]
    elif shape == 'create':
        params = [['b1', 'integer']]
        B1 = ['var', 'b1']
        body = [['create', 'b1', 'B'], ['assign', ['attr', B1, 'n'], ['bin', '+', _param('b1'), ['int', 1]]],
                ['return', _mul_add(['attr', B1, 'n'], 100, _param('b1'))]]
        py, oal = dict(b1=6), [['b1', ['int', 6]]]
    else:
        raise KeyError(shape)
    return dict(kind=kind, name=name, owner=OWNER[kind], params=params, ret='int', form='value', body=body), py, oal


def shadow_cases():
    """Locals named like parameters: every shape x kind, invoked from Python and from a caller whose own variables carry the
    same names; callers that shadow their own parameter around a nested invocation (16 pairs of kinds); recursion."""
    entry_main = dict(kind='function', name='main', owner=None, args={}, this=None)
    n = 0
    for kind in KINDS:
        for shape in SHADOW_SHAPES:
            for form in (('int', 'str', 'bool') if shape == 'assign' else ('int',)):
                cal, py, oal = shadow_callable(shape, kind, form)
                yield dict(callables=[cal], derived={}, rows=None, clause='parameters-distinct-from-locals',
                           entry=dict(kind=kind, name='T', owner=OWNER[kind], args=py, this=1 if kind == 'iop' else None))
                n += 1
                keep = dict(int=['int', 7], str=['str', 'keep'], bool=['bool', True])[form]
                R_ = ['var', 'r']
                # the caller's variables have the names of the callee's parameters and locals
                pre = [['assign', ['var', p[0]], keep if p[1] == TYPE_OF_FORM[form] else dict(integer=['int', 7], string=['str', 'keep'], boolean=['bool', True])[p[1]]]
                       for p in cal['params'] if p[0] not in ('a2', 'bs1', 'b1')]
                pre.append(['selfrom', 'any', 'a1', 'A', None])
                own = [p[0] for p in cal['params'] if p[1] == TYPE_OF_FORM[form] and p[0] not in ('a2', 'bs1', 'b1')]
                mine = ['var', own[0]] if own else keep
                ret = dict(int=_mul_add(R_, 10, mine), str=['bin', '+', R_, mine], bool=['bin', '==', R_, mine])[form]
                main = dict(kind='function', name='main', owner=None, params=[], ret=form, form='value',
                            body=pre + [['assign', R_, invocation(kind, 'T', oal, A1, n)], ['return', ret]])
                yield dict(callables=[cal, main], derived={}, rows=None, clause='parameters-distinct-from-locals', entry=entry_main)
    # a caller that shadows its own parameter x around an invocation of a callee that does the same
    for k1 in KINDS:
        for k2 in KINDS:
            n += 1
            cal, _, _ = shadow_callable('assign', k2, 'int')
            target = ['self'] if k1 == 'iop' and n % 2 else A1
            body = [['assign', Y, _param('x')], ['assign', X, ['int', 7]], ['selfrom', 'any', 'a1', 'A', None],
                    ['assign', ['var', 'r'], invocation(k2, 'T', [['x', ['bin', '+', _param('x'), X]], ['u', ['str', 's']], ['p', ['bool', True]]], target, n)],
                    ['assign', X, ['bin', '+', X, ['int', 1]]],
                    ['if', ['bin', '!=', Y, _param('x')], [['return', ['un', '-', ['int', 1]]]], [], None],
                    ['return', _mul_add(['var', 'r'], 100, _mul_add(X, 10, _param('x')))]]
            outer = dict(kind=k1, name='O', owner=OWNER[k1], params=[['x', 'integer']], ret='int', form='value', body=body)
            yield dict(callables=[cal, outer], derived={}, rows=None, clause='parameters-distinct-from-locals',
                       entry=dict(kind=k1, name='O', owner=OWNER[k1], args=dict(x=2), this=2 if k1 == 'iop' else None))
    # recursion: every level has a parameter x and a local x
    for kind in KINDS:
        nxt = invocation(kind, 'R', [['x', X]], ['self'])
        body = [['if', ['bin', '<=', _param('x'), ['int', 0]], [['return', ['int', 0]]], [], None],
                ['assign', X, ['bin', '-', _param('x'), ['int', 1]]], ['assign', ['var', 'r'], nxt],
                ['return', _mul_add(['var', 'r'], 100, _mul_add(_param('x'), 10, X))]]
        for depth in (1, 3):
            yield dict(callables=[dict(kind=kind, name='R', owner=OWNER[kind], params=[['x', 'integer']], ret='int', form='value', body=body)],
                       derived={}, rows=None, clause='parameters-distinct-from-locals',
                       entry=dict(kind=kind, name='R', owner=OWNER[kind], args=dict(x=depth), this=1 if kind == 'iop' else None))


TYPE_OF_FORM = dict(int='integer', str='string', bool='boolean')


@item('templates', stands_in_for=STANDS, shards=2, weight=2,
      bound='every kind (function, bridge, class-based, instance-based operation) x return form (integer / string / boolean value, bare return, '
            'falling off the end) x call context (from Python, invocation statement, assignment, inside an expression, as argument of another '
            'invocation, if / elif / while condition, where clause, for-each body, return expression) with 3 parameters (integer, string, boolean) '
            'passed by name in all 6 orders, caller and callee using the same variable names; self recursion (depth 0,1,3), mutual recursion '
            'between all 16 pairs of kinds, chains over all 4 kinds in all 24 orders, void recursion; derived attributes (3 bodies) read twice around '
            'a write, in where clauses, loops and loop conditions, and from Python; self as handle of 12 statement forms on 3 receivers; locals named '
            'like parameters (7 body shapes: assignment after / before reads of param.<name> of all 3 types, loop counter, for-each variable, selected '
            'instance / set, where clause, block-local, created instance) x 4 kinds invoked from Python and from a caller whose variables carry the '
            'same names, callers shadowing their own parameter around an invocation of a shadowing callee (16 pairs of kinds), recursion with a '
            'parameter and a local of one name on every level; exhaustive')
def templates(ctx):
    if ctx.shard == 0:
        ctx.note(NOTE)
    cases = list(template_cases()) + list(recursion_cases()) + list(derived_cases()) + list(self_cases()) + list(shadow_cases())
    for n, case in enumerate(cases):
        if n % ctx.nshards != ctx.shard:
            continue
        if ctx.expired():
            ctx.exhausted = False
            return
        run_case(ctx, case)
    ctx.exhausted = True


# ------------------------------------------------------------------------------------------------- equal names
# Elements with equal names are different elements (wide model of _c15_gen): bridges of two external entities, a function named
# like a bridge, operations and derived attributes of two classes that have the same *name* (key letters A and T; B as a class of
# another name).  Every element has a body of its own (its own constant, its own trace) and they are invoked in every order.
HOMONYMS = dict(bX=('bridge', 'EX'), bY=('bridge', 'EY'), f=('function', None), cA=('cop', 'A'), cT=('cop', 'T'), cB=('cop', 'B'),
                iA=('iop', 'A'), iT=('iop', 'T'), iB=('iop', 'B'), dA=('derived', 'A'), dT=('derived', 'T'))
HOMONYM_GROUPS = [['bX', 'bY'], ['bX', 'f'], ['bY', 'f'], ['bX', 'bY', 'f'], ['cA', 'cT'], ['iA', 'iT'], ['cA', 'iT'], ['iA', 'cT'],
                  ['cA', 'cT', 'cB'], ['iA', 'iT', 'iB'], ['f', 'cA', 'iT'], ['bX', 'bY', 'f', 'cA', 'cT'], ['bX', 'f', 'iA', 'iT', 'cB'],
                  ['dA', 'dT'], ['dA', 'iT'], ['dA', 'cT'], ['dT', 'iA'], ['dA', 'dT', 'f']]
RECEIVER = dict(A=1, T=2, B=0)            # receiver of instance-based operations / derived attributes: index in C.POPULATION_WIDE
RECEIVER_VAR = dict(A='a1', T='t1', B='b1')
RECEIVER_SELECT = dict(A=['selfrom', 'any', 'a1', 'A', ['bin', '==', ['attr', ['selected'], 'i'], ['int', 2]]],
                       T=['selfrom', 'any', 't1', 'T', ['bin', '==', ['attr', ['selected'], 'i'], ['int', 8]]],
                       B=['selfrom', 'any', 'b1', 'B', ['bin', '==', ['attr', ['selected'], 'n'], ['int', 10]]])
KEY_ATTR = dict(A='i', T='i', B='n')
HOMONYM_STYLES = ('value', 'effect', 'recursive')
HOMONYM_MODES = ('python', 'oal', 'nested', 'python+oal')


def _hom_call(elem, name, arg, inside=None):
    """Invocation of (read of) one element; inside = the element whose body the expression stands in (self is the receiver there)."""
    kind, owner = HOMONYMS[elem]
    args = [['n', arg]]
    recv = ['self'] if inside == elem else ['var', RECEIVER_VAR.get(owner)]
    if kind == 'function':
        return ['fcall', name, args]
    if kind == 'bridge':
        return ['bcall', owner, name, args]
    if kind == 'cop':
        return ['ccall', owner, name, args]
    if kind == 'iop':
        return ['icall', recv, name, args]
    return ['attr', recv, name]


def _hom_needs(elem):
    kind, owner = HOMONYMS[elem]
    return [RECEIVER_SELECT[owner]] if kind in ('iop', 'derived') else []


def _hom_body(elem, k, name, style, nested=None):
    """Body of element number k (its constant: k + 1).  nested: an equally named element invoked from this body."""
    kind, owner = HOMONYMS[elem]
    c = ['int', k + 1]
    if kind == 'derived':
        own = ['attr', ['self'], name]
        body = [['assign', own, ['bin', '+', ['bin', '*', ['attr', ['self'], 'i'], ['int', 10]], c]]]
        if nested:
            call = _hom_call(nested, name, ['int', 2], elem)
            if HOMONYMS[nested][0] == 'derived' or style != 'effect':
                body += _hom_needs(nested) + [['assign', X, call], ['assign', own, ['bin', '+', own, ['bin', '*', X, ['int', 100]]]]]
            else:                       # the equally named operation returns nothing: its trace is in the population
                body += _hom_needs(nested) + [['call', call], ['assign', own, ['bin', '+', own, ['int', 50]]]]
        return body, 'int'
    mine = ['bin', '*', ['attr', ['self'], KEY_ATTR[owner]], ['int', 1000]] if kind == 'iop' else ['int', 0]
    void_callee = nested and style == 'effect' and HOMONYMS[nested][0] != 'derived'
    inner = []
    if nested:
        call = _hom_call(nested, name, ['bin', '+', ['param', 'n'], ['int', 1]], elem)
        inner = _hom_needs(nested) + ([['call', call]] if void_callee else [['assign', Y, call]])
    if style == 'effect':
        body = [['create', 'b9', 'B'], ['assign', ['attr', ['var', 'b9'], 'n'], ['bin', '+', ['bin', '+', ['int', 1000 + 10 * (k + 1)], ['param', 'n']], mine]]]
        body += inner
        if nested and not void_callee:
            body.append(['assign', ['attr', ['var', 'b9'], 'n'], ['bin', '+', ['attr', ['var', 'b9'], 'n'], ['bin', '*', Y, ['int', 10000]]]])
        return body, None
    if style == 'recursive' and not nested:
        again = _hom_call(elem, name, ['bin', '-', ['param', 'n'], ['int', 1]], elem)
        return [['if', ['bin', '<=', ['param', 'n'], ['int', 0]], [['return', ['bin', '+', c, mine]]], [], None],
                ['assign', X, ['param', 'n']], ['assign', Y, again],
                ['return', ['bin', '+', ['bin', '*', Y, ['int', 10]], ['bin', '+', c, ['bin', '-', X, ['param', 'n']]]]]], 'int'
    body = [['assign', X, ['bin', '*', ['param', 'n'], ['int', 10]]]] + inner
    value = ['bin', '+', ['bin', '+', X, c], mine]
    if nested:
        value = ['bin', '+', value, ['bin', '*', Y, ['int', 10000]]]
    return body + [['return', value]], 'int'


def _hom_step(elem, name, n):
    kind, owner = HOMONYMS[elem]
    return dict(kind=kind, name=name, owner=owner, args={} if kind == 'derived' else dict(n=n),
                this=RECEIVER[owner] if kind in ('iop', 'derived') else None)


def homonym_case(group, order, style, mode):
    """group: element ids; order: the order in which they are invoked; see HOMONYM_STYLES / HOMONYM_MODES."""
    name = 'd' if any(HOMONYMS[e][0] == 'derived' for e in group) else 'N'
    nested = dict([(order[0], order[1])]) if mode == 'nested' else {}
    callables, derived = [], {}
    for k, elem in enumerate(group):
        kind, owner = HOMONYMS[elem]
        st = style
        if nested.get(elem) and HOMONYMS[nested[elem]][0] == 'derived' and style == 'effect':
            st = 'value'                # the value of the equally named derived attribute goes into the result
        body, ret = _hom_body(elem, k, name, st, nested.get(elem))
        if kind == 'derived':
            derived[name if owner == 'A' else '%s.%s' % (owner, name)] = body
        else:
            callables.append(dict(kind=kind, name=name, owner=owner, params=[['n', 'integer']], ret=ret, form='value' if ret else 'fall', body=body))
    main = []
    for sel in RECEIVER_SELECT.values():
        if any(sel in _hom_needs(e) for e in order):
            main.append(sel)
    for p, elem in enumerate(order):
        call = _hom_call(elem, name, ['int', p % 3 + 1])
        void = [c for c in callables if (c['kind'], c['owner']) == HOMONYMS[elem] and c['ret'] is None]
        if void:
            main.append(['call', call])
        else:
            main += [['create', 'b8', 'B'], ['assign', ['attr', ['var', 'b8'], 'n'], call]]
    main.append(['return', ['int', len(order)]])
    callables.append(dict(kind='function', name='main', owner=None, params=[], ret='int', form='value', body=main))
    run_main = dict(kind='function', name='main', owner=None, args={}, this=None)
    if mode == 'python':
        steps = [_hom_step(e, name, p % 3 + 1) for p, e in enumerate(order)] + [_hom_step(order[0], name, 2)]
    elif mode == 'oal':
        steps = [run_main]
    elif mode == 'nested':
        steps = [_hom_step(order[0], name, 2), _hom_step(order[-1], name, 3)]
    else:
        steps = [_hom_step(order[0], name, 4), run_main, _hom_step(order[-1], name, 5)]
    return dict(callables=callables, derived=derived, rows=None, wide=True, clause='equal-names-distinct-elements',
                entry=dict(kind='sequence', steps=steps))


def homonym_cases(quick=True):
    n = 0
    for group in HOMONYM_GROUPS:
        if len(group) <= 3:
            orders = [list(o) for o in itertools.permutations(group)]
        elif quick:
            orders = [group, group[2:] + group[:2], group[::-1]]
        else:
            orders = [group[r:] + group[:r] for r in range(len(group))] + [group[::-1][r:] + group[::-1][:r] for r in range(len(group))]
        only_derived = all(HOMONYMS[e][0] == 'derived' for e in group)
        for order in orders:
            for style in (HOMONYM_STYLES[:1] if only_derived else HOMONYM_STYLES):
                for mode in HOMONYM_MODES:
                    n += 1
                    if style == 'recursive' and mode == 'nested':
                        continue
                    if quick and style != 'value' and mode in ('python', 'python+oal') and n % 2:     # the 4 ways in full for style value
                        continue
                    yield homonym_case(group, order, style, mode)
                    if not quick and any(HOMONYMS[e][1] == 'T' for e in group) and mode == 'python':
                        # control: the same elements when the two classes have different names
                        yield dict(homonym_case(group, order, style, mode), twin_name='TW')


# Derived attributes whose bodies read / assign the *equally named* attribute of other instances (C.derived_body): another
# instance of the class (recursion over R3, or found by a where clause), instances of another class on which the name is an
# ordinary attribute (B.n, T.n) or a derived attribute with a body of its own (T.d, class name equal to A's).
A0, A4 = ['var', 'a0'], ['var', 'a4']
_SEL = lambda var, cls, attr, v: ['selfrom', 'any', var, cls, ['bin', '==', ['attr', ['selected'], attr], ['int', v]]]
DERIVED_OTHER = [       # (key of the attribute, form, extra derived attributes, instance whose value changes, statements that change it)
    ('d', 'up', {}, 5, [_SEL('a4', 'A', 'i', 4), ['selrel', 'one', 'a0', A4, [['A', 'R3', 'leads']], None], ['unrelate', 'a4', 'a0', 'R3', 'leads', None]]),
    ('d', 'down', {}, 3, [_SEL('a4', 'A', 'i', 4), ['assign', ['attr', A4, 'i'], ['int', 9]]]),
    ('d', 'first-then', {}, 5, [_SEL('a4', 'A', 'i', 4), ['selrel', 'one', 'a0', A4, [['A', 'R3', 'leads']], None], ['unrelate', 'a0', 'a4', 'R3', 'follows', None]]),
    ('d', 'peer', {}, 5, [_SEL('a4', 'A', 'i', 3), ['assign', ['attr', A4, 'i'], ['int', 13]]]),
    ('d', 'sum-T', {'T.d': ('own', 3)}, 1, [_SEL('t1', 'T', 'i', 6), ['assign', ['attr', ['var', 't1'], 'i'], ['int', 16]]]),
    ('d', 'up', {'T.d': ('T-up', 0)}, 5, [_SEL('a4', 'A', 'i', 4), ['selrel', 'one', 'a0', A4, [['A', 'R3', 'leads']], None], ['unrelate', 'a4', 'a0', 'R3', 'leads', None]]),
    ('n', 'up', {}, 5, [_SEL('a4', 'A', 'i', 4), ['selrel', 'one', 'a0', A4, [['A', 'R3', 'leads']], None], ['unrelate', 'a4', 'a0', 'R3', 'leads', None]]),
    ('n', 'peer', {}, 5, [_SEL('a4', 'A', 'i', 3), ['assign', ['attr', A4, 'i'], ['int', 13]]]),
    ('n', 'sum-B', {}, 1, [_SEL('b1', 'B', 'n', 20), ['assign', ['attr', ['var', 'b1'], 'n'], ['int', 27]]]),
    ('n', 'acc-B', {}, 1, [_SEL('b1', 'B', 'n', 20), ['assign', ['attr', ['var', 'b1'], 'n'], ['int', 27]]]),
    ('n', 'where-B', {}, 1, [_SEL('b1', 'B', 'n', 10), ['assign', ['attr', ['var', 'b1'], 'n'], ['int', 7]]]),
    ('n', 'write-B', {}, 1, [_SEL('a0', 'A', 'i', 1), ['selrel', 'any', 'b1', A0, [['B', 'R1', None]], None], ['assign', ['attr', ['var', 'b1'], 'n'], ['int', 7]]]),
    ('n', 'sum-T', {}, 1, [_SEL('t1', 'T', 'i', 6), ['assign', ['attr', ['var', 't1'], 'n'], ['int', 107]]]),
]


def derived_other_cases():
    entry_main = dict(kind='function', name='main', owner=None, args={}, this=None)
    for key, form, extra, watch, change in DERIVED_OTHER:
        for k in (0, 2):
            derived = {key: C.derived_body(form, key, k)}
            for ekey, (eform, ek) in extra.items():
                derived[ekey] = C.derived_body(eform, ekey.split('.')[-1], ek)
            base = dict(derived=derived, rows=None, wide=True, clause='derived-attribute-other-instances')
            for cls, name, _ in C.derived_items(base):
                for this in range(len(C.POPULATION_WIDE[cls])):       # read from Python on every instance
                    if k and this % 2:
                        continue
                    yield dict(base, callables=[], entry=dict(kind='derived', name=name, owner=cls, args={}, this=this))
            d = ['attr', ['var', 'a1'], key]
            seen = [['selfrom', 'many', 'as1', 'A', None], ['assign', X, ['int', 0]], ['for', 'a1', 'as1', [['assign', X, ['bin', '+', ['bin', '*', X, ['int', 3]], d]]]]]
            mains = [seen + [['return', X]],
                     [['selfrom', 'many', 'as1', 'A', ['bin', '>=', ['attr', ['selected'], key], ['int', 2]]],
                      ['selfrom', 'any', 'a1', 'A', ['bin', '>', ['attr', ['selected'], key], ['int', 2]]], ['assign', X, ['int', 0]],
                      ['if', ['un', 'not_empty', ['var', 'a1']], [['assign', X, ['attr', ['var', 'a1'], 'i']]], [], None],
                      ['return', ['bin', '+', ['bin', '*', ['un', 'cardinality', ['var', 'as1']], ['int', 10]], X]]],
                     [_SEL('a1', 'A', 'i', watch), ['assign', X, d]] + change + [['assign', Y, d], ['create', 'b8', 'B'], ['assign', ['attr', ['var', 'b8'], 'n'], X],
                                                                           ['return', Y]]]
            if k:
                mains = mains[2:]
            for body in mains:
                main = dict(kind='function', name='main', owner=None, params=[], ret='int', form='value', body=body)
                yield dict(base, callables=[main], entry=entry_main)
            # the change made from Python's point of view: read, run the statements, read again (recomputed on every read)
            if not k:
                chg = dict(kind='function', name='change', owner=None, params=[], ret=None, form='fall', body=change)
                step = dict(kind='derived', name=key, owner='A', args={}, this=watch - 1)
                yield dict(base, callables=[chg], entry=dict(kind='sequence', steps=[step, dict(kind='function', name='change', owner=None, args={}, this=None), step]))


@item('equal-names', stands_in_for=STANDS, shards=3, weight=2,
      bound='wide model (bridges of two external entities EX / EY, classes A and T with the same class name and different key letters, B, '
            'A reflexive over R3, A one-to-many T over R5).  (1) equally named elements with bodies of their own: 18 groups (same bridge name '
            'in EX and EY, a function named like a bridge, class-based / instance-based operations of A and T - and of B - with one name, derived '
            'attribute d of A and of T, an operation of T named like the derived attribute of A, mixtures of up to 5 elements) x every order of '
            'invocation (all permutations up to 3 elements; 3 orders above, thorough: all rotations forward and backward) x 3 body styles (value computed from the parameter, a local '
            'and an own constant; void with a trace in the population; recursive) x 4 ways of invoking (from Python one after the other and the first '
            'again; from one OAL body; the first one invokes the second from its own body; Python, OAL, Python; quick thins the ways for the void and recursive styles; thorough adds the same models with '
            'differently named classes).  (2) derived attributes whose bodies '
            'read / assign the equally named attribute of other instances: 13 bodies (depth in an R3 chain upward / downward / assigned first, a peer '
            'found by a where clause, sums over B.n / T.n (ordinary attributes) with a local or the attribute itself as accumulator, the name in a '
            'where clause, assignment to B.n, sum over T.d with a body of its own, T.d from A.d) read from Python on every instance, summed / '
            'filtered / selected in OAL, and read - changed (unrelate, attribute write) - read again from OAL and from Python; exhaustive')
def equal_names(ctx):
    if ctx.shard == 0:
        ctx.note(NOTE)
        ctx.note('a derived attribute action that reads self.<attribute> before assigning it is outside the property (skipped); after an '
                 'assignment it reads as the value assigned last')
    cases = list(derived_other_cases()) + list(homonym_cases(ctx.quick))
    for n, case in enumerate(cases):
        if n % ctx.nshards != ctx.shard:
            continue
        if ctx.expired():
            ctx.exhausted = False
            return
        run_case(ctx, case)
    ctx.exhausted = True


# ------------------------------------------------------------------------------------------------- random call graphs
@item('callgraphs', stands_in_for=STANDS, shards=8, weight=4,
      bound='random models of 2-5 callables (functions, bridges, class / instance operations) + derived attribute A.d with random bodies '
            '(C04 statement generator + parameters, self, enumerators, constants, up to 3 invocations per body anywhere an expression or '
            'statement may stand; parameters named n/t/c or like the local variables x/y/u/p, about a third of the variable assignments go to a local named like a parameter), every invocation passes d-1 so that call depth <= 3 with recursion and mutual calls; entry invoked from Python '
            'with d in 1..3; <= 60 invocations per case; about 40% of the models are wide ones (item equal-names): bridges of EX / EY and functions '
            'named N1 / N2, operations of A and T (classes of one name) named O1..O3, derived attributes A.d / T.d / A.n whose bodies look at the equally '
            'named attribute of other instances, 1-3 invocations / derived attribute reads from Python in a row; sampled until 80% of the time budget')
def callgraphs(ctx):
    if ctx.shard == 0:
        ctx.note(NOTE)
    while not soft_expired(ctx):
        run_case(ctx, C.gen_case(ctx.rng))
    ctx.exhausted = False


# ------------------------------------------------------------------------------------------------- enumerators, constants, row order
def symbols_case(enums, consts, rows):
    callables = []
    for name in sorted(enums):
        for e in enums[name]:
            callables.append(dict(kind='function', name='get_%s_%s' % (name, e), owner=None, params=[], ret='int', form='value',
                                  body=[['return', ['enum', name, e]]]))
    for cname, ty, text in consts:
        callables.append(dict(kind='function', name='get_%s' % cname, owner=None, params=[], ret=C.TY[ty], form='value',
                              body=[['return', ['const', cname]]]))
    return dict(callables=callables, derived={}, enums=enums, consts=[list(c) for c in consts], rows=rows, symbols=True)


def check_symbols(case):
    """Enumerators and constants of one model (one row order), read from Python and from OAL.  [(clause, observed, required)]."""
    sch = C.make_schema(case)
    try:
        domain = C.load(case)
    except Exception as e:
        return [('row-order-independent', 'loading the model: %s: %s' % (type(e).__name__, e), 'the model loads')]
    out = []
    for name in sorted(case['enums']):
        for pos, e in enumerate(case['enums'][name]):
            for how in ('python', 'oal'):
                try:
                    got = getattr(domain.find_symbol(name), e) if how == 'python' else domain.find_symbol('get_%s_%s' % (name, e))()
                except Exception as ex:
                    got = '%s: %s' % (type(ex).__name__, ex)
                if got != pos or isinstance(got, bool):
                    out.append(('enumerator-modeled-order', '%s::%s read from %s = %r' % (name, e, how, got),
                                '%d (modeled order of %s: %s)' % (pos, name, ', '.join(case['enums'][name]))))
    for cname, ty, text in case['consts']:
        want = sch.consts[cname]
        for how in ('python', 'oal'):
            try:
                got = domain.find_symbol(cname) if how == 'python' else domain.find_symbol('get_%s' % cname)()
            except Exception as ex:
                got = '%s: %s' % (type(ex).__name__, ex)
            if got != want or type(got) is not type(want):
                out.append(('constant-modeled-value', '%s read from %s = %r' % (cname, how, got), '%r (%s %s)' % (want, ty, text)))
    return out


def symbol_cases(quick):
    yield symbols_case({'En': ['e0', 'e1']}, [], 'enum-perm:En:1,0')          # the smallest inputs first
    yield symbols_case({'En': ['e0', 'e1', 'e2']}, [], 'enum-reverse')
    yield symbols_case({'En': ['e0']}, [['B2', 'boolean', 'TRUE']], 'reverse')
    names = ['e0', 'e1', 'e2', 'e3']
    consts = [['N0', 'integer', '0'], ['N1', 'integer', '42'], ['S0', 'string', ''], ['S1', 'string', 'some text'], ['B0', 'boolean', 'false'],
              ['B1', 'boolean', 'true'], ['B2', 'boolean', 'TRUE']]
    for k in (1, 2, 3, 4):
        enums = {'En': names[:k], 'Other': ['p', 'q']}
        yield symbols_case(enums, consts, None)
        for perm in itertools.permutations(range(k)):
            if list(perm) != list(range(k)):
                yield symbols_case(enums, consts, 'enum-perm:En:' + ','.join(str(i) for i in perm))
        yield symbols_case(enums, consts, 'enum-reverse')
        yield symbols_case(enums, consts, 'reverse')
        for seed in range(3 if quick else 12):
            yield symbols_case(enums, consts, 'shuffle:%d' % seed)


@item('enumerators-constants-rows', stands_in_for=['bridgepoint.ooaofooa.mk_enum', 'bridgepoint.ooaofooa.mk_constant', 'bridgepoint.ooaofooa.mk_component'],
      shards=1, weight=1,
      bound='enumeration of 1..4 enumerators (+ a second enumeration) and 7 constants (integer, string, boolean); S_ENUM rows in every permutation, '
            'all enumerations reversed, whole file reversed, whole file shuffled (3 seeds quick / 12 thorough); every enumerator and constant read '
            'from Python (domain symbol) and from OAL (function returning it); exhaustive')
def enumerators_constants_rows(ctx):
    for n, case in enumerate(symbol_cases(ctx.quick)):
        if n % ctx.nshards != ctx.shard:
            continue
        if ctx.expired():
            ctx.exhausted = False
            return
        ctx.case(key=case, nontrivial=bool(case['rows']))
        for clause, observed, required in check_symbols(case):
            ctx.check(False, clause=clause, input=case, observed=observed, required=required)
    ctx.exhausted = True


@item('callgraphs-permuted-rows', stands_in_for=STANDS, shards=2, weight=1,
      bound='random call graphs as in item callgraphs (without bare returns), loaded from model text whose rows are reversed / shuffled / have '
            'the S_ENUM rows reversed; clause enumerator-modeled-order when the reference read an enumerator, else row-order-independent; '
            'sampled until 80% of the time budget')
def callgraphs_permuted_rows(ctx):
    if ctx.shard == 0:
        ctx.note(NOTE)
    while not soft_expired(ctx):
        case = C.gen_case(ctx.rng, bare_rate=0.0)
        case['rows'] = ctx.rng.choice(['reverse', 'enum-reverse', 'shuffle:%d' % ctx.rng.randrange(1000)])
        run_case(ctx, case)
    ctx.exhausted = False


# ------------------------------------------------------------------------------------------------- replay
def replay(item_name, input):
    case = dict((k, v) for k, v in input.items() if k != 'oal')
    if case.get('symbols'):
        res = check_symbols(case)
    else:
        res = C.check_case(case)
        if res is None:
            return [dict(clause='replay', observed='the reference evaluator rejects the recorded case', required='a case inside the property')]
    return [dict(clause=c, observed=G.plain(o), required=G.plain(r)) for c, o, r in res]
