"""C14 (bounded tier) -- component extraction mirrors the BridgePoint class model.

Inputs are (seed model, edit script, configuration).  After every script the real `mk_component` /
`ModelLoader.build_component` / `load_component` / `gen_sql_schema.main` runs on the edited model and the component it
defines (read back from xtuml.serialize_schema + serialize_unique_identifiers) is compared with an independent walk of
the model rows (bounded/_c14_ref.py).  The diff caused by the last edit must equal the diff of the two reference
descriptions, and the SQL schema written for the component (persist_database, what gen_sql_schema writes) must load
back to the same definitions.

Clauses
  classes                          set of classes, attribute names, modeled order, core types, derived only on request
  identifiers                      one unique identifier per modeled identifier (with at least one attribute)
  association-set                  one association per formalized simple / linked (two) / subtype (one per subtype) relationship,
                                   with the modeled referential/identifying attribute pairs
  association-multiplicity         multiplicity and conditionality of both ends
  association-relate-values        after relate() over an association of the built (and of the reloaded) component, every
                                   referential attribute of the referring instance has the value of the identifying attribute
                                   it is paired with in the model (O_REF -> O_RTIDA -> O_OIDA rows)
  association-phrases              phrases (reflexive relationships only)
  edit-changes-exactly             diff(before, after) of the built component == diff of the reference descriptions
  sql-reload                       schema file written for the component loads back to the same definitions
  load-component-restricts-to-name load_component(resource, name) defines the named component only
  build-raises                     the builder raised on a well-formed model
"""
import vlib.fresh_ply  # noqa: F401
import itertools
import json
import os
import random
import shutil
import sys
import tempfile
import traceback

from vlib.bounded import item

from . import _c14_ref as REF
from . import _c14_rows as R
from . import _c14_synth as S

RETYPES = ['integer', 'string', 'real', 'boolean', 'unique_id', 'My_Enum', 'My_Integer', 'date', 'state<State_Model>',
           'inst_ref<Object>', 'timestamp']
SYNTH_RETYPES = ['integer', 'string', 'boolean', 'Colour', 'Len', 'date', 'inst_ref_set<Object>']


# ------------------------------------------------------------------ scripts -------------------------------------------------
def seed(seed_spec):
    if isinstance(seed_spec, str):
        return R.seed_rows(seed_spec)
    assert seed_spec[0] == 'synth'
    return S.build(seed_spec[1])


def with_globals(seed_spec):
    """The predefined ooaofooa globals are loaded next to every seed except the Globals.xtuml file itself."""
    return seed_spec != 'Globals'


def describe(rows, comp, derived, seed_spec):
    """Reference description, or None when the named component does not exist; 'ill-formed' when an O_REF row of the model
    lacks its O_RTIDA / O_OIDA / O_RATTR row (outside the domain of the property)."""
    d, ok = REF.describe2(rows + (R.seed_rows('globals') if with_globals(seed_spec) else []), comp, derived)
    return d if ok or d is None else 'ill-formed'


def apply_op(rows, op):
    k = op[0]
    if k == 'rename_attr':
        R.edit_rename_attr(rows, op[1], op[2], op[3])
    elif k == 'retype_attr':
        R.edit_retype_attr(rows, op[1], op[2], op[3])
    elif k == 'reorder_attrs':
        R.edit_reorder_attrs(rows, op[1], op[2])
    elif k == 'toggle':
        R.edit_toggle(rows, op[1], op[2], op[3])
    elif k == 'phrase':
        R.edit_phrase(rows, op[1], op[2], op[3])
    elif k == 'permute_rows':
        R.edit_permute(rows, op[1])
    elif k == 'reverse_rows':
        R.edit_reverse(rows)
    elif k == 'make_derived':
        make_derived(rows, op[1], op[2])
    elif k == 'add_component':
        add_component(rows, op[1], op[2])
    elif k == 'add_udt':
        from . import _c20_ref
        _c20_ref.edit_add_udt(rows, op[1], op[2], op[3])
    elif k == 'add_attr':
        from . import _c20_ref
        _c20_ref.edit_add_attr(rows, op[1], op[2], op[3])
    else:
        raise ValueError(op)


def make_derived(rows, kl, name):
    oid = R._obj_id(rows, kl)
    a = [r for r in R._attr_rows(rows, kl) if r.get('Name') == name][0].get('Attr_ID')
    for i, r in enumerate(rows):
        if r.kind == 'O_NBATTR' and r.get('Attr_ID') == a and r.get('Obj_ID') == oid:
            rows[i] = R.Row('O_DBATTR', [R.enc_guid(a), R.enc_guid(oid), R.encode('self.%s = 0;' % name), '1', '0'])
            return
    raise KeyError(name)


def add_component(rows, name, classes):
    """A further top-level component with a package holding unrelated classes [[name, key letters, [[attr, type]...]]...]."""
    b = R.Builder(tag=0xadd0 + len(name))
    for r in rows:
        if r.kind == 'S_DT':
            b.types.setdefault(r.get('Name'), r.get('DT_ID'))
    c = b.component(name)
    p = b.package(name + '_pkg', c)
    for i, (cname, kl, attrs) in enumerate(classes):
        b.clazz(cname, kl, 100 + i, p)
        b.attr(kl, 'Id', 'unique_id')
        b.identifier(kl, 0, ['Id'])
        for an, ty in attrs:
            b.attr(kl, an, ty)
    rows.extend(b.rows)


def compound_key_attrs(rows):
    """{key letters: names of the attributes that are part of an identifier of >= 2 attributes or are referential
    attributes of a formalization with >= 2 referential attributes}."""
    t = R.Tables(rows)
    kl_of = dict((o['Obj_ID'], o['Key_Lett']) for o in t['O_OBJ'])
    name_of = dict(((a['Attr_ID'], a['Obj_ID']), a['Name']) for a in t['O_ATTR'])
    groups = {}
    for d in t['O_OIDA']:
        groups.setdefault(('id', d['Obj_ID'], d['Oid_ID']), []).append((d['Attr_ID'], d['Obj_ID']))
    for d in t['O_REF']:
        groups.setdefault(('ref', d['Obj_ID'], d['Rel_ID'], d['OIR_ID'], d['ROIR_ID']), []).append((d['Attr_ID'], d['Obj_ID']))
    out = {}
    for g in groups.values():
        if len(g) >= 2:
            for key in g:
                if key in name_of and key[1] in kl_of:
                    out.setdefault(kl_of[key[1]], set()).add(name_of[key])
    return out


def site_ops(rows, retypes, rng=None):
    """Every listed edit at every applicable site of the model."""
    ops = []
    in_key = compound_key_attrs(rows)
    for kl in R.class_names(rows):
        order = R.attr_order(rows, kl)
        refs = set()
        oid = R._obj_id(rows, kl)
        for r in rows:
            if r.kind == 'O_RATTR' and r.get('Obj_ID') == oid:
                refs.add(r.get('Attr_ID'))
        by_name = dict((r.get('Name'), r) for r in R._attr_rows(rows, kl))
        for nm in order:
            ops.append(['rename_attr', kl, nm, nm + '_renamed'])
            if nm in in_key.get(kl, ()):
                # renaming one attribute of a compound key changes its alphabetical rank among the others
                ops.append(['rename_attr', kl, nm, 'Aaa_' + nm])
                ops.append(['rename_attr', kl, nm, 'Zzz_' + nm])
            for ty in retypes:
                ops.append(['retype_attr', kl, nm, ty])
            if any(r.kind == 'O_NBATTR' and r.get('Attr_ID') == by_name[nm].get('Attr_ID') for r in rows):
                ops.append(['make_derived', kl, nm])
        if len(order) > 1:
            for p in itertools.islice(itertools.permutations(order), 1, 6):
                ops.append(['reorder_attrs', kl, list(p)])
    for numb, end in R.rel_sites(rows):
        ops.append(['toggle', numb, end, 'Mult'])
        ops.append(['toggle', numb, end, 'Cond'])
        ops.append(['phrase', numb, end, 'edited %s' % end])
        ops.append(['phrase', numb, end, ''])
    for s in range(4):
        ops.append(['permute_rows', s])
    ops.append(['reverse_rows'])
    ops.append(['add_component', 'Comp2', [['Extra', 'XTR', [['N', 'integer'], ['S', 'string']]]]])
    return ops


# ------------------------------------------------------------------ observation ----------------------------------------------
def observe_component(c):
    import xtuml
    text = xtuml.serialize_schema(c) + xtuml.serialize_unique_identifiers(c)
    desc, rest = REF.read_sql(text)
    return desc, rest


def build(rows, comp, derived, api, tmp, load_globals=True):
    """Run the code under test; returns the xtuml.MetaModel it built."""
    from bridgepoint import ooaofooa
    from xtuml import where_eq
    text = R.print_rows(rows)
    if api == 'mk':
        m = R.load(text, load_globals)
        c_c = None
        if comp is not None:
            c_c = m.select_any('C_C', where_eq(Name=comp))
            assert c_c is not None
        return ooaofooa.mk_component(m, c_c, derived)
    if api == 'build':
        with R.loaded(text, load_globals) as l:
            return l.build_component(comp, derived)
    path = os.path.join(tmp, 'model.xtuml')
    with open(path, 'w') as f:
        f.write(text)
    if api == 'load':
        return ooaofooa.load_component(path, comp, load_globals)
    if api == 'cli':
        import xtuml
        from bridgepoint import gen_sql_schema
        out = os.path.join(tmp, 'cli.sql')
        argv = ['gen_sql_schema', '-o', out] + (['-c', comp] if comp else []) + (['-d'] if derived else []) + [path]
        old = sys.argv
        sys.argv = argv
        try:
            gen_sql_schema.main()
        finally:
            sys.argv = old
        return xtuml.load_metamodel(out)
    raise ValueError(api)


def compare(obs, ref, out):
    if obs['classes'] != ref['classes']:
        bad = sorted(k for k in set(obs['classes']) | set(ref['classes']) if obs['classes'].get(k) != ref['classes'].get(k))
        out.append(dict(clause='classes', observed=dict((k, obs['classes'].get(k)) for k in bad),
                        required=dict((k, ref['classes'].get(k)) for k in bad)))
    if obs['identifiers'] != ref['identifiers']:
        bad = sorted(k for k in set(obs['identifiers']) | set(ref['identifiers']) if obs['identifiers'].get(k) != ref['identifiers'].get(k))
        out.append(dict(clause='identifiers', observed=dict((k, obs['identifiers'].get(k)) for k in bad),
                        required=dict((k, ref['identifiers'].get(k)) for k in bad)))
    key = lambda a: (a[0], a[1], a[4], str(a[7:]))
    ko, kr = sorted(map(key, obs['associations'])), sorted(map(key, ref['associations']))
    if ko != kr:
        out.append(dict(clause='association-set', observed=[a for a in obs['associations'] if key(a) not in kr],
                        required=[a for a in ref['associations'] if key(a) not in ko]))
        return
    # same shapes: compare cards and phrases; associations with equal key (reflexive linked) are compared as multisets
    co = sorted((key(a), a[2], a[5]) for a in obs['associations'])
    cr = sorted((key(a), a[2], a[5]) for a in ref['associations'])
    if co != cr:
        out.append(dict(clause='association-multiplicity', observed=[x for x in co if x not in cr], required=[x for x in cr if x not in co]))
    po = sorted((key(a), a[3], a[6]) for a in obs['associations'])
    pr = sorted((key(a), a[3], a[6]) for a in ref['associations'])
    if po != pr:
        out.append(dict(clause='association-phrases', observed=[x for x in po if x not in pr], required=[x for x in pr if x not in po]))
    if not (co != cr or po != pr) and obs['associations'] != ref['associations']:
        out.append(dict(clause='association-multiplicity', observed=obs['associations'], required=ref['associations']))


def relate_values(c, ref, out, where):
    """Instances related over every association of the component: the referring instance reads, for every modeled
    [referential attribute, identifying attribute] pair, the value of the identifying attribute of the instance it was
    related to.  Values are fresh and distinct per attribute (booleans excepted), so a wrong pairing shows.  Which phrase
    selects which direction is not the subject here: every phrase of the relationship is tried, the relates that the
    component rejects are skipped, and each association has to be seen with its modeled pairs at least once."""
    import xtuml
    classes = ref['classes']
    refattrs = {}
    for a in ref['associations']:
        refattrs.setdefault(a[1], set()).update(p[0] for p in a[7])
    counter = [0]

    def fresh(ty):
        counter[0] += 1
        n = counter[0]
        return {'BOOLEAN': bool(n % 2), 'INTEGER': 1000 + n, 'REAL': 1000.5 + n, 'STRING': 's%d' % n, 'UNIQUE_ID': 1000 + n}[ty]

    def phrases_of(grp):
        return sorted(set(p for a in grp for p in (a[3], a[6])) | set(['']))

    def populate(kl, depth, skip_rid=None):
        inst = c.new(kl)
        for nm, ty in classes[kl]:
            if nm not in refattrs.get(kl, ()):
                try:
                    setattr(inst, nm, fresh(ty))
                except Exception:
                    pass
        if depth < 3:
            for a in ref['associations']:
                if a[1] == kl and a[4] != kl and a[0] != skip_rid:
                    other = populate(a[4], depth + 1)
                    for p in phrases_of([a]):
                        try:
                            xtuml.relate(inst, other, a[0], p)
                            break
                        except Exception:
                            continue
        return inst

    def reads(x, y, pairs):
        """None: some identifying value is null (nothing to see); else whether x reads y's identifying values."""
        vals = [(getattr(x, r, None), getattr(y, i, None)) for r, i in pairs]
        if any(v is None for _, v in vals):
            return None
        return all(u == v for u, v in vals)

    groups = {}
    for a in ref['associations']:
        groups.setdefault((a[0], a[1], a[4]), []).append(a)
    for (rid, sk, tk), grp in sorted(groups.items()):
        if sk not in classes or tk not in classes:
            continue
        seen, related, log = set(), 0, []
        try:
            for p in phrases_of(grp):
                src, tgt = populate(sk, 0, rid), populate(tk, 0, rid if sk == tk else None)
                try:
                    xtuml.relate(src, tgt, rid, p)
                except Exception:
                    continue
                related += 1
                for i, a in enumerate(grp):
                    got = [reads(src, tgt, a[7])] + ([reads(tgt, src, a[7])] if sk == tk else [])
                    if any(g is None for g in got) or any(got):
                        seen.add(i)
                log.append(dict(phrase=p, referring=dict((r, getattr(src, r, None)) for a in grp for r, _ in a[7]),
                                referred=dict((i, getattr(tgt, i, None)) for a in grp for _, i in a[7])))
        except Exception:
            continue     # instances of these classes cannot be created here (not the subject of this clause)
        if not related:
            continue
        distinguishable = len(grp) == 1 or all(a[3] != a[6] for a in grp)
        missing = [a for i, a in enumerate(grp) if i not in seen]
        if missing and (distinguishable or len(missing) == len(grp)):
            out.append(dict(clause='association-relate-values', observed=dict(component=where, relates=log),
                            required=dict(pairs=[[a[0], a[1], a[4], a[7]] for a in missing])))


def in_domain(ref):
    """Every attribute named by an identifier or by an association end is an attribute of the built class.  Otherwise (a
    derived attribute that was not requested, or an attribute of unsupported type, used as key) the property does not
    say what the component should be, and the case is not evaluated."""
    names = dict((k, set(a for a, _ in v)) for k, v in ref['classes'].items())
    for kl, ids in ref['identifiers'].items():
        for attrs in ids.values():
            if not set(attrs) <= names.get(kl, set()):
                return False
    for a in ref['associations']:
        for sk, tk in a[7]:
            if sk not in names.get(a[1], set()) or tk not in names.get(a[4], set()):
                return False
    return True


_BEFORE = {}


def _remember(key, obs, ref):
    if len(_BEFORE) >= 32:
        _BEFORE.pop(next(iter(_BEFORE)))
    _BEFORE[key] = (obs, ref)


def run_case(case):
    """case: dict(seed, script, comp, derived, api).  Returns the list of violations (None: case outside the domain)."""
    import xtuml
    out = []
    comp, derived, api = case.get('comp'), bool(case.get('derived')), case.get('api', 'mk')
    if api == 'load':
        derived = False      # load_component has no such parameter
    rows = seed(case['seed'])
    script = case.get('script', [])
    states = []
    for op in script[:-1]:
        apply_op(rows, op)
    if script:
        states.append([r.copy() for r in rows])
        apply_op(rows, script[-1])
    states.append(rows)
    tmp = tempfile.mkdtemp(prefix='c14_')
    try:
        observed, refs = [], []
        for i, st in enumerate(states):
            last = i == len(states) - 1
            use_api = api if last else ('mk' if api in ('load', 'cli') else api)
            if not last:
                # the state before the last edit is shared by many cases: its observation is kept (per process)
                memo_key = json.dumps([case['seed'], script[:-1], comp, derived, use_api], sort_keys=True)
                if memo_key in _BEFORE:
                    o, r = _BEFORE[memo_key]
                    observed.append(o)
                    refs.append(r)
                    continue
            ref = describe(st, comp, derived, case['seed'])
            if ref is not None and (ref == 'ill-formed' or not in_domain(ref)):
                if last:
                    return None
                ref = None
            if ref is None:
                # the named component does not exist in this state (before add_component): nothing to compare
                observed.append(None)
                refs.append(None)
                if not last:
                    _remember(memo_key, None, None)
                continue
            try:
                c = build(st, comp, derived, use_api, tmp, with_globals(case['seed']))
            except BaseException as e:
                if isinstance(e, (KeyboardInterrupt, MemoryError)):
                    raise
                out.append(dict(clause='build-raises', observed=traceback.format_exc().splitlines()[-3:], required='a component'))
                return out
            obs, rest = observe_component(c)
            observed.append(obs)
            refs.append(ref)
            if not last:
                _remember(memo_key, obs, ref)
                continue
            if rest:
                out.append(dict(clause='sql-reload', observed='%d characters of the serialized schema are not CREATE TABLE/ROP/INDEX' % rest,
                                required='schema text'))
            before = len(out)
            compare(obs, ref, out)
            if api == 'load' and len(out) > before:
                whole = describe(st, None, False, case['seed'])
                if comp is not None and whole != ref and obs == whole:
                    del out[before:]
                    out.append(dict(clause='load-component-restricts-to-name',
                                    observed=dict(classes=sorted(obs['classes'])), required=dict(classes=sorted(ref['classes']))))
            # SQL schema written for the component loads back to the same definitions
            path = os.path.join(tmp, 'schema.sql')
            xtuml.persist_database(c, path)
            with open(path) as f:
                text = f.read()
            d1, rest1 = REF.read_sql(text)
            try:
                c2 = xtuml.load_metamodel(path)
                d2, _ = observe_component(c2)
            except Exception:
                d2 = traceback.format_exc().splitlines()[-1]
            if d1 != obs or d2 != obs or rest1:
                out.append(dict(clause='sql-reload', observed=dict(file=REF.diff(obs, d1) if isinstance(d1, dict) else d1,
                                                                   reloaded=REF.diff(obs, d2) if isinstance(d2, dict) else d2),
                                required='same definitions as the built component'))
            # instances are created last: the schema file above is written for the empty component
            relate_values(c, ref, out, 'built')
            if isinstance(d2, dict):
                relate_values(c2, ref, out, 'reloaded schema')
        if len(states) == 2 and observed[0] is not None and observed[1] is not None and api != 'load':
            do, dr = REF.diff(observed[0], observed[1]), REF.diff(refs[0], refs[1])
            if do != dr:
                out.append(dict(clause='edit-changes-exactly', observed=do, required=dr))
    finally:
        shutil.rmtree(tmp, ignore_errors=True)
    return out


def check_case(ctx, case, nontrivial=True):
    try:
        vs = run_case(case)
        ctx.case(key=case, nontrivial=vs is not None)
        vs = vs or []
    except BaseException as e:
        if isinstance(e, (KeyboardInterrupt, MemoryError)):
            raise
        ctx.case(key=case, nontrivial=True)
        ctx.check(False, clause='harness-error', input=case, observed=traceback.format_exc().splitlines()[-4:], required='case runs')
        return
    for v in vs:
        ctx.check(False, clause=v['clause'], input=case, observed=v['observed'], required=v['required'])


# ------------------------------------------------------------------ items ----------------------------------------------------
def real_cases(depth):
    rows = R.seed_rows('Simple_Model')
    ops = site_ops(rows, RETYPES)
    configs = [(None, False), ('Comp', False), (None, True), ('Comp', True)]
    yield dict(seed='Globals', script=[], comp=None, derived=False, api='mk')
    for comp, derived in configs:
        yield dict(seed='Simple_Model', script=[], comp=comp, derived=derived, api='mk')
        yield dict(seed='Simple_Model', script=[], comp=comp, derived=derived, api='build')
    for op in ops:
        cfgs = configs + ([('Comp2', False)] if op[0] == 'add_component' else [])
        for comp, derived in cfgs:
            yield dict(seed='Simple_Model', script=[op], comp=comp, derived=derived, api='build' if derived else 'mk')
    if depth >= 2:
        for op1 in ops:
            rows1 = R.seed_rows('Simple_Model')
            apply_op(rows1, op1)
            if op1[0] in ('permute_rows', 'reverse_rows'):
                ops2 = ops
            else:
                ops2 = site_ops(rows1, RETYPES[:6])
            for j, op2 in enumerate(ops2):
                comp, derived = configs[j % 4]
                yield dict(seed='Simple_Model', script=[op1, op2], comp=comp, derived=derived, api='mk')


@item('real-models', stands_in_for=['bridgepoint.ooaofooa.mk_class', 'bridgepoint.ooaofooa.mk_simple_association',
                                    'bridgepoint.ooaofooa.mk_linked_association', 'bridgepoint.ooaofooa.mk_subsuper_association',
                                    'bridgepoint.ooaofooa.mk_component', 'bridgepoint.ooaofooa.ModelLoader.build_component',
                                    'xtuml.persist.persist_database'],
      bound='tests/resources/Simple_Model.xtuml and Globals.xtuml; every single edit (rename, retype to 11 types, reorder, derive, '
            'toggle Mult/Cond, phrase, 5 row orders, added component) at every site x {whole, Comp} x {derived off, on}; '
            'thorough: every pair of edits; non-trivial = every identifier/association key is an attribute of the built class',
      shards=4, weight=3)
def real_models(ctx):
    for i, case in enumerate(real_cases(1 if ctx.quick else 2)):
        if i % ctx.nshards != ctx.shard:
            continue
        if ctx.expired():
            ctx.exhausted = False
            break
        check_case(ctx, case)
    else:
        ctx.exhausted = True
    if ctx.shard == 0:
        ctx.note('not compared / not generated: order of the attributes inside an identifier and of the key pairs of an association, '
                 'unformalized and derived (R_COMP) relationships, imported classes, package references (R1402), names or phrases '
                 'outside the persistable domain (K2), the error raised for an unknown component name')


def synth_cases(quick, rng_seed):
    for d in S.single_relationship_diagrams():
        for layout in ('L0', 'L1', 'L2', 'L3', 'L4'):
            dd = dict(d, layout=layout)
            for comp in [None] + S.components_of(layout):
                for derived in (False, True):
                    yield dict(seed=['synth', dd], script=[], comp=comp, derived=derived, api='mk')
    n = 400 if quick else 6000
    for i in range(n):
        rng = random.Random('c14/synth/%s/%d' % (rng_seed, i))
        d = S.random_diagram(rng)
        d['layout'] = rng.choice(['L0', 'L1', 'L2', 'L3', 'L4'])
        if i % 2:
            # every other diagram: identifiers of 1-3 attributes, renamed referential attributes, O_REF ... storage orders
            d = S.random_compound(rng, d)
        if not S.well_formed(d):
            continue
        comp = rng.choice([None] + S.components_of(d['layout']))
        derived = rng.random() < 0.5
        rows = S.build(d)
        ops = site_ops(rows, SYNTH_RETYPES)
        ops = [o for o in ops if o[0] != 'add_component']
        script = [rng.choice(ops)] if rng.random() < 0.8 else []
        if script and rng.random() < 0.3:
            rows2 = [r.copy() for r in rows]
            apply_op(rows2, script[0])
            script.append(rng.choice([o for o in site_ops(rows2, SYNTH_RETYPES) if o[0] != 'add_component']))
        yield dict(seed=['synth', d], script=script, comp=comp, derived=derived, api=rng.choice(['mk', 'mk', 'build']))


@item('synthesised-diagrams', stands_in_for=['bridgepoint.ooaofooa.mk_class', 'bridgepoint.ooaofooa.mk_association',
                                             'bridgepoint.ooaofooa.mk_component', 'bridgepoint.ooaofooa.is_contained_in'],
      bound='class diagrams with <=3 classes and <=3 relationships: every one-relationship shape (simple, reflexive, linked, '
            'reflexive linked, subtype with 1-2 subtypes) x 16 Mult/Cond combinations x 5 package/component layouts x '
            '{whole, each component} x derived on/off (exhaustive); plus 400 (quick) / 6000 (thorough) seeded random diagrams '
            'with attributes of 10 types, second identifiers, derived attributes and a script of 0-2 edits; every other random '
            'diagram with identifiers of 1-3 attributes, referential attributes named keep / by a permutation of the '
            'alphabetical ranks, and reversed / rotated / swapped storage order of the O_REF, O_RTIDA, O_OIDA, O_RATTR, O_ATTR rows',
      shards=5, weight=3)
def synthesised(ctx):
    for i, case in enumerate(synth_cases(ctx.quick, ctx.seed)):
        if i % ctx.nshards != ctx.shard:
            continue
        if ctx.expired():
            ctx.exhausted = False
            break
        check_case(ctx, case)
    else:
        ctx.exhausted = True


STORES = [{}, {'O_REF': 'rev'}, {'O_REF': 'rot'}, {'O_RTIDA': 'rev'}, {'O_OIDA': 'rev', 'O_REF': 'swap'},
          {'O_ATTR': 'rev', 'O_RATTR': 'rot', 'O_RTIDA': 'swap'}]


def compound_cases(quick):
    """Compound identifiers (2 and 3 attributes) formalised by every relationship kind x naming of the referential attributes
    (keep / every permutation of the alphabetical ranks) x storage orders of the key rows; then one edit: renames that change
    the alphabetical rank of one key attribute, reversed modeled attribute order of a referring class, whole-file row orders."""
    k = 0
    for d in S.compound_key_diagrams():
        for layout in (['L0'] if quick else ['L0', 'L1', 'L3']):
            dd = dict(d, layout=layout)
            comps = [None] + S.components_of(layout)
            for store in STORES:
                k += 1
                api = 'cli' if k % 40 == 7 else 'load' if k % 40 == 27 else ('mk', 'mk', 'build', 'mk')[k % 4]
                yield dict(seed=['synth', dict(dd, store=store)], script=[], comp=comps[k % len(comps)], derived=False, api=api)
            rows = S.build(dd)
            ops = site_ops(rows, [])
            renames = [o for o in ops if o[0] == 'rename_attr' and o[3][:4] in ('Aaa_', 'Zzz_')]
            if quick:
                # renaming matters most where the two alphabetical orders still agree
                agree = all(m in ('keep', 0) for m in d['naming'].values())
                renames = [o for j, o in enumerate(renames) if (j + k) % (2 if agree else 6) == 0]
            else:
                renames += [o for o in ops if o[0] == 'rename_attr' and o[3].endswith('_renamed')]
            edits = renames + ([[['reverse_rows']], [['permute_rows', k % 4]]][k % 2] if quick else
                               [['reverse_rows'], ['permute_rows', 0], ['permute_rows', 1]])
            in_key = sorted(compound_key_attrs(rows))
            for kl in ([in_key[k % len(in_key)]] if quick else in_key):
                order = R.attr_order(rows, kl)
                edits.append(['reorder_attrs', kl, order[::-1]])
                if not quick:
                    edits.append(['reorder_attrs', kl, order[1:] + order[:1]])
            if not quick:
                edits += [o for o in ops if o[0] in ('toggle', 'phrase')]
            for op in edits:
                k += 1
                yield dict(seed=['synth', dd], script=[op], comp=comps[k % len(comps)], derived=False, api=('mk', 'build')[k % 2])


@item('compound-keys', stands_in_for=['bridgepoint.ooaofooa._get_related_attributes', 'bridgepoint.ooaofooa.mk_simple_association',
                                      'bridgepoint.ooaofooa.mk_linked_association', 'bridgepoint.ooaofooa.mk_subsuper_association',
                                      'xtuml.persist.serialize_association'],
      bound='identifiers of 2 and 3 attributes formalised by simple, reflexive, linked (both ends), reflexive linked and subtype '
            '(1-2 subtypes) relationships, referred through subtype chains and link classes (10 shapes); referential attributes '
            'named as the identifying ones or by every permutation of the alphabetical ranks (3 / 7 modes); 6 storage orders of '
            'the O_REF / O_RTIDA / O_OIDA / O_RATTR / O_ATTR rows; one edit: rank-changing rename of a key attribute (quick: '
            'every second where the two alphabetical orders agree, else every sixth), reversed attribute order of a class, '
            'reversed / permuted file; thorough: 3 layouts, all renames, toggles, phrases; pairs compared in the built component, '
            'in the reloaded schema and through relate()',
      shards=4, weight=2)
def compound_keys(ctx):
    for i, case in enumerate(compound_cases(ctx.quick)):
        if i % ctx.nshards != ctx.shard:
            continue
        if ctx.expired():
            ctx.exhausted = False
            break
        check_case(ctx, case)
    else:
        ctx.exhausted = True
    if ctx.shard == 0:
        ctx.note('not generated: relationships formalised over a second identifier (I2), identifiers of more than 3 base '
                 'attributes, referential attributes combined over several relationships, attribute names that start with '
                 'R<digits> (the written schema does not load back: known finding K2a)')


LAYER_BASES = ['boolean', 'integer', 'real', 'string', 'unique_id', 'My_Enum', 'date', 'timestamp', 'inst_ref<Object>']
SYNTH_LAYER_BASES = ['boolean', 'integer', 'real', 'string', 'unique_id', 'Colour', 'Len', 'date']


def layer_script(base, depth, wheres):
    """User types Layer1 on base, Layer2 on Layer1, ...; wheres: where each layer lives (None: global, else a component)."""
    script, below = [], base
    for d in range(depth):
        script.append(['add_udt', 'Layer%d' % (d + 1), below, wheres[d % len(wheres)]])
        below = 'Layer%d' % (d + 1)
    return script, below


def layer_cases(quick):
    """A stack of 1..3 user types on every base type, used by an identifying attribute that referential attributes refer to
    (so the referential attributes and the association keys follow) and by a new attribute."""
    n = 0
    for base in LAYER_BASES:
        for depth in (1, 2, 3):
            script, top = layer_script(base, depth, [[None], ['Comp'], [None, 'Comp']][n % 3])
            for use in (['retype_attr', 'Class', 'Id', top], ['retype_attr', 'Subtype', 'Id', top], ['add_attr', 'Supertype', 'Added', top]):
                n += 1
                for comp in (None, 'Comp') if not quick else [(None, 'Comp')[n % 2]]:
                    yield dict(seed='Simple_Model', script=script + [use], comp=comp, derived=False, api=('mk', 'build')[n % 2])
    shapes = [dict(classes=S.classes_for(2), rels=[['simple', 1, 'A', 'B', 0, 0, 1, 1, 'has', 'is of']]),
              dict(classes=S.classes_for(1), rels=[['simple', 2, 'A', 'A', 0, 1, 0, 1, 'follows', 'leads']]),
              dict(classes=S.classes_for(3), rels=[['linked', 3, 'C', 'A', 'B', 1, 0, 1, 1, 'near', 'far']]),
              dict(classes=S.classes_for(3), rels=[['subsup', 6, 'A', ['B', 'C']]]),
              dict(classes=S.classes_for(3), rels=[['simple', 1, 'B', 'A', 1, 1, 0, 0, '', ''], ['subsup', 2, 'B', ['C']]])]
    n = 0
    for d in shapes:
        for layout in ('L0', 'L1', 'L2', 'L3', 'L4'):
            dd = dict(d, layout=layout)
            comps = [None] + S.components_of(layout)
            rows = S.build(dd)
            t = R.Tables(rows)
            kl_of = dict((o['Obj_ID'], o['Key_Lett']) for o in t['O_OBJ'])
            referred = sorted(set(kl_of[r['BObj_ID']] for r in t['O_RATTR']))
            for base in SYNTH_LAYER_BASES:
                for depth in (1, 2, 3):
                    n += 1
                    if quick and n % 4:
                        continue
                    script, top = layer_script(base, depth, comps)
                    for kl in referred:
                        if 'Id' in R.attr_order(rows, kl):
                            yield dict(seed=['synth', dd], script=script + [['retype_attr', kl, 'Id', top]], comp=comps[n % len(comps)],
                                       derived=False, api='mk')


@item('type-layers', stands_in_for=['bridgepoint.ooaofooa.mk_class', 'bridgepoint.ooaofooa.get_attribute_type',
                                    'bridgepoint.ooaofooa._get_data_type_name'],
      bound='stacks of 1-3 user types on each of 9 base types (5 supported core types, enumeration, user type, date, timestamp, '
            'inst_ref<Object>), the layers global and/or in a component, as type of an identifying attribute that referential '
            'attributes refer to and of a new attribute: Simple_Model (whole / Comp); 5 synthesised relationship shapes x 5 '
            'layouts (quick: every fourth stack); non-trivial = every identifier/association key is an attribute of the built class',
      shards=2, weight=1)
def type_layers(ctx):
    for i, case in enumerate(layer_cases(ctx.quick)):
        if i % ctx.nshards != ctx.shard:
            continue
        if ctx.expired():
            ctx.exhausted = False
            break
        check_case(ctx, case)
    else:
        ctx.exhausted = True


def entry_cases():
    two = ['add_component', 'Comp2', [['Extra', 'XTR', [['N', 'integer']]]]]
    for api in ('load', 'cli', 'build'):
        yield dict(seed='Simple_Model', script=[], comp=None, derived=False, api=api)
        yield dict(seed='Simple_Model', script=[], comp='Comp', derived=False, api=api)
        yield dict(seed='Simple_Model', script=[two], comp='Comp', derived=False, api=api)
        yield dict(seed='Simple_Model', script=[two], comp='Comp2', derived=False, api=api)
        yield dict(seed='Simple_Model', script=[two], comp=None, derived=False, api=api)
        d = dict(list(S.single_relationship_diagrams())[0], layout='L2')
        yield dict(seed=['synth', d], script=[], comp='C1', derived=False, api=api)
        yield dict(seed=['synth', d], script=[], comp='C2', derived=False, api=api)
        d3 = dict(d, layout='L3')
        yield dict(seed=['synth', d3], script=[], comp='C2', derived=False, api=api)
    yield dict(seed='Simple_Model', script=[['make_derived', 'Class', 'Id']], comp='Comp', derived=True, api='cli')
    yield dict(seed='Simple_Model', script=[['make_derived', 'Class', 'Id']], comp='Comp', derived=False, api='cli')


@item('entry-points', stands_in_for=['bridgepoint.ooaofooa.load_component', 'bridgepoint.ooaofooa.load_metamodel',
                                     'bridgepoint.gen_sql_schema.main', 'bridgepoint.ooaofooa.ModelLoader.build_component'],
      bound='load_component(file, name), gen_sql_schema.main (-c/-d/-o) and build_component on Simple_Model (+ a second component) '
            'and a two-component / nested-component synthesised diagram, whole model and each named component (26 cases)',
      shards=1, weight=1)
def entry_points(ctx):
    for i, case in enumerate(entry_cases()):
        if i % ctx.nshards != ctx.shard:
            continue
        if ctx.expired():
            ctx.exhausted = False
            break
        check_case(ctx, case)
    else:
        ctx.exhausted = True


def replay(item_name, input):
    return run_case(input) or []
