"""C03 (bounded tier) -- loading links exactly the key-matching pairs, independent of input order and packaging.

Oracle (written from the property text, plain Python over the rows of a description):
    referring row r is linked to referred row t across association a  iff  every referential value of r is non-null
    and equals t's corresponding identifying value;   null = unset, 0 for UNIQUE_ID, '' for STRING.
Every class of a population carries a first attribute `Tag` (or `_0` for inferred schemas) that is unique per row, so
instances can be identified independently of their order.

Items
  join       one load per population (single / composite keys in several spellings, shared referential attributes,
             several associations into one class through different identifiers with equal / overlapping / crossed
             referential names), links observed by navigation in both directions == the rule; the same rows
             created through MetaClass.new (referred rows first) and through clone from the loaded metamodel must give the
             same links
  orders     all permutations of <=6 statements x all splits into two input() calls give the same metamodel
             (classes, associations, identifiers, instances by tag with their attribute reads, links, statement multiset
             of xtuml.serialize) as the canonical order, whose links equal the rule
  packaging  all partitions of the statements into <=4 files, offered as file list, directory tree, zip archive
             (bridgepoint.ooaofooa.ModelLoader.filename_input) or xtuml.load_metamodel(list) give that same metamodel

Clauses
  no-matching-pair-missed, no-other-pair-linked        loader vs rule
  api-null-key-not-linked                              MetaClass.new links a pair although a referential value is null (F8)
  clone-null-key-not-linked                            the same through clone (an unlinked referential attribute reads unset)
  api-same-links-as-rule                               any other difference of the API route (new / clone)
  api-accepts-rows                                     the API route raised on rows the rule says are within multiplicity
  order-independent, split-independent, packaging-independent
  load-accepted                                        a load of generated (valid) text raised
"""
import itertools
import os
import shutil
import tempfile
import zipfile

from vlib.bounded import item

from bounded import _schema_gen as G

UNSET = '<unset>'     # marker inside alphabets only; rows carry None plus an 'unset' position list

SINGLE = {
    'UNIQUE_ID': [UNSET, 0, 1, 2 ** 127],
    'STRING': [UNSET, '', 'a', "b'--"],
    'INTEGER': [UNSET, 0, 1, -2 ** 70],
    'REAL': [UNSET, 0.0, 1.5, -2.5],
    'BOOLEAN': [UNSET, False, True],
}
COMPONENT = {
    'UNIQUE_ID': [0, 1, 2],
    'STRING': ['', 'a', "b'"],
    'INTEGER': [UNSET, 0, 1],
    'REAL': [UNSET, 0.0, 1.5],
    'BOOLEAN': [UNSET, False, True],
}
CARD_ROT = [('MC', '1C'), ('MC', 'MC'), ('1C', '1C'), ('M', '1')]


def _end(kind, keys, card, phrase=''):
    return dict(kind=kind, keys=list(keys), many='M' in card, cond='C' in card, phrase=phrase)


def mkrow(kind, tag, vals):
    """vals: values after the tag; UNSET entries become unset positions."""
    values, unset = [tag], []
    for i, v in enumerate(vals):
        if isinstance(v, str) and v == UNSET:
            values.append(None)
            unset.append(i + 1)
        else:
            values.append(v)
    r = dict(kind=kind, values=values)
    if unset:
        r['unset'] = unset
    return r


# --------------------------------------------------------------------------------------------------- the rule

def row_value(desc, row, name):
    names = [n for n, _ in G.class_of(desc, row['kind'])['attrs']]
    p = names.index(name)
    if p in row.get('unset', ()):
        return None
    return row['values'][p]


def rule_links(desc):
    """[[association tag, referring tag, referred tag]] by the property's rule."""
    out = []
    for a in desc['assocs']:
        tag = G.link_tag(G.assoc_sig(a))
        s, t = a['source'], a['target']
        sty = G.attr_types(desc, s['kind'])
        for r in G.rows_of(desc, s['kind']):
            rv = [row_value(desc, r, k) for k in s['keys']]
            if any(G.is_null_key(v, sty[k]) for v, k in zip(rv, s['keys'])):
                continue
            for o in G.rows_of(desc, t['kind']):
                ov = [row_value(desc, o, k) for k in t['keys']]
                if all(x == y and y is not None for x, y in zip(rv, ov)):
                    out.append([tag, r['values'][0], o['values'][0]])
    return sorted(out)


def within_multiplicity(desc, links):
    for a in desc['assocs']:
        tag = G.link_tag(G.assoc_sig(a))
        mine = [l for l in links if l[0] == tag]
        if not a['target']['many']:
            rs = [l[1] for l in mine]
            if len(rs) != len(set(rs)):
                return False
        if not a['source']['many']:
            ts = [l[2] for l in mine]
            if len(ts) != len(set(ts)):
                return False
    return True


def null_referring(desc):
    """{(association tag, referring tag)} whose referential values contain a null."""
    out = set()
    for a in desc['assocs']:
        tag = G.link_tag(G.assoc_sig(a))
        s = a['source']
        sty = G.attr_types(desc, s['kind'])
        for r in G.rows_of(desc, s['kind']):
            if any(G.is_null_key(row_value(desc, r, k), sty[k]) for k in s['keys']):
                out.add((tag, r['values'][0]))
    return out


# --------------------------------------------------------------------------------------------------- text

def statements(desc, inferred=(), named_all=False, style=1):
    """SQL statements of a population (independent writer).  Classes in `inferred` get no CREATE TABLE."""
    out = [G.sql_class(c) for c in desc['classes'] if c['kind'] not in inferred]
    out += [G.sql_assoc(a) for a in desc['assocs']]
    out += [G.sql_identifier(i) for i in desc['ids']]
    for r in desc['rows']:
        attrs = G.class_of(desc, r['kind'])['attrs']
        unset = r.get('unset', [])
        if unset or named_all or r.get('named'):
            named = [p for p in range(len(attrs)) if p not in unset]
            out.append(G.sql_insert(r['kind'], attrs, r['values'], named=named, style=style))
        else:
            out.append(G.sql_insert(r['kind'], attrs, r['values'], style=style))
    return out


# --------------------------------------------------------------------------------------------------- observation

def tagged_view(m, kinds=None):
    """Order-insensitive walk of a metamodel through its public interface; instances are identified by their first
    attribute."""
    import xtuml
    classes, instances, ids, tag_of = {}, {}, {}, {}
    for mc in m.metaclasses.values():
        if kinds is not None and mc.kind not in kinds:
            continue
        classes[mc.kind] = [[n, t.upper()] for n, t in mc.attributes]
        pool = {}
        for inst in m.select_many(mc.kind):
            vals = [G.norm_value(getattr(inst, n), t) for n, t in mc.attributes]
            tag = vals[0] if vals else None
            tag_of[id(inst)] = tag
            pool.setdefault(repr(tag), []).append(vals)
        instances[mc.kind] = pool
        if mc.indices:
            ids[mc.kind] = dict((n, list(a)) for n, a in mc.indices.items())
    assocs, fwd, bwd = [], [], []
    for ass in m.associations:
        to_source, to_target = ass.source_link, ass.target_link
        if kinds is not None and (to_source.kind not in kinds or to_target.kind not in kinds):
            continue
        sig = [ass.rel_id, to_source.kind, list(ass.source_keys), bool(to_source.many), bool(to_source.conditional),
               to_target.phrase, to_target.kind, list(ass.target_keys), bool(to_target.many), bool(to_target.conditional),
               to_source.phrase]
        assocs.append(sig)
        tag = G.link_tag(sig)
        for inst in m.select_many(sig[1]):
            for other in xtuml.navigate_many(inst).nav(sig[6], sig[0], sig[5])():
                fwd.append([tag, tag_of[id(inst)], tag_of.get(id(other), '?')])
        for inst in m.select_many(sig[6]):
            for other in xtuml.navigate_many(inst).nav(sig[1], sig[0], sig[10])():
                bwd.append([tag, tag_of.get(id(other), '?'), tag_of[id(inst)]])
    return dict(classes=classes, associations=sorted(assocs), identifiers=ids, instances=instances,
                links_from_referring=sorted(fwd), links_from_referred=sorted(bwd))


def serialized_statements(m):
    import xtuml
    return sorted(s.strip() for s in xtuml.serialize(m).split(';\n') if s.strip())


def view_diff(base, other):
    return dict((k, dict(observed=other[k], required=base[k])) for k in base if base[k] != other.get(k))


def load_texts(texts):
    import xtuml
    l = xtuml.ModelLoader()
    for t in texts:
        l.input(t)
    return l.build_metamodel()


def check_rule(view, expected):
    """[(clause, observed, required)] of the loader's links against the rule."""
    out = []
    for direction in ('links_from_referring', 'links_from_referred'):
        got = view[direction]
        missing = [l for l in expected if l not in got]
        extra = [l for l in got if l not in expected]
        if missing:
            out.append(('no-matching-pair-missed', dict(direction=direction, missing=missing), expected))
        if extra:
            out.append(('no-other-pair-linked', dict(direction=direction, extra=extra), expected))
    return out


# --------------------------------------------------------------------------------------------------- API routes

def kinds_in_dependency_order(desc):
    """Referred classes first; None when there is a cycle (reflexive)."""
    kinds = [c['kind'] for c in desc['classes']]
    deps = dict((k, set()) for k in kinds)
    for a in desc['assocs']:
        if a['source']['kind'] == a['target']['kind']:
            return None
        deps[a['source']['kind']].add(a['target']['kind'])
    out = []
    while kinds:
        ready = [k for k in kinds if not (deps[k] - set(out))]
        if not ready:
            return None
        out.append(ready[0])
        kinds.remove(ready[0])
    return out


def _new_kwargs(desc, kind, r):
    refs = G.referential_names(desc, kind)
    attrs = G.class_of(desc, kind)['attrs']
    kwargs = {}
    for p, (n, _) in enumerate(attrs):
        if p in r.get('unset', ()):
            if n not in refs:
                kwargs[n] = None        # the loader leaves an omitted attribute unset; new() would invent a default
            continue
        kwargs[n] = r['values'][p]
    return kwargs


def clone_nulls(desc, expected):
    """Clone copies what the attributes of the loaded instance read: a referential attribute reads the referred value
    where the row is linked across some association using that attribute, and nothing otherwise.  So on the clone route
    a (association, referring row) pair has a null key when the description says so or when one of its key attributes
    is used by no association the row is linked across."""
    out = set(null_referring(desc))
    for a in desc['assocs']:
        tag = G.link_tag(G.assoc_sig(a))
        for r in G.rows_of(desc, a['source']['kind']):
            rt = r['values'][0]
            for k in a['source']['keys']:
                carried = False
                for b in desc['assocs']:
                    if b['source']['kind'] == a['source']['kind'] and k in b['source']['keys'] and \
                            any(l[0] == G.link_tag(G.assoc_sig(b)) and l[1] == rt for l in expected):
                        carried = True
                if not carried:
                    out.add((tag, rt))
    return out


NULL_CLAUSE = {'new': 'api-null-key-not-linked', 'clone': 'clone-null-key-not-linked'}


def check_api(desc, expected, loaded):
    import xtuml
    out = []
    order = kinds_in_dependency_order(desc)
    if order is None or not within_multiplicity(desc, expected):
        return out
    tags_of_assocs = [(G.link_tag(G.assoc_sig(a)), a['source']['kind']) for a in desc['assocs']]
    for route in ('new', 'clone'):
        nulls = null_referring(desc) if route == 'new' else clone_nulls(desc, expected)
        m = G.api_schema(desc)
        failed = False
        for kind in order:
            if route == 'new':
                todo = [(r['values'][0], (lambda r=r: m.new(kind, **_new_kwargs(desc, kind, r)))) for r in G.rows_of(desc, kind)]
            else:
                todo = [(getattr(inst, G.class_of(desc, kind)['attrs'][0][0]), (lambda inst=inst: m.clone(inst)))
                        for inst in loaded.select_many(kind)]
            for tag, create in todo:
                try:
                    create()
                except xtuml.MetaException as e:
                    failed = True
                    was_null = any((t, tag) in nulls for t, k in tags_of_assocs if k == kind)
                    out.append((NULL_CLAUSE[route] if was_null else 'api-accepts-rows',
                                dict(route=route, row=[kind, tag], raised='%s: %s' % (type(e).__name__, e)),
                                'row created, linked as the rule says'))
                    break
            if failed:
                break
        if failed:
            continue
        v = tagged_view(m)
        for direction in ('links_from_referring', 'links_from_referred'):
            got = v[direction]
            extra = [l for l in got if l not in expected]
            missing = [l for l in expected if l not in got]
            null_extra = [l for l in extra if (l[0], l[1]) in nulls]
            other_extra = [l for l in extra if (l[0], l[1]) not in nulls]
            if null_extra:
                out.append((NULL_CLAUSE[route], dict(route=route, direction=direction, linked=null_extra), expected))
            if other_extra or missing:
                out.append(('api-same-links-as-rule', dict(route=route, direction=direction, extra=other_extra, missing=missing),
                            expected))
    return out


def run_join(desc):
    expected = rule_links(desc)
    try:
        m = load_texts(['\n'.join(statements(desc))])
    except Exception as e:
        return [('load-accepted', '%s: %s' % (type(e).__name__, str(e)[:300]), 'generated text loads')]
    out = check_rule(tagged_view(m), expected)
    out += check_api(desc, expected, m)
    # de-duplicate clauses (both directions usually fail together)
    seen, res = set(), []
    for c, o, r in out:
        if (c, o.get('route') if isinstance(o, dict) else None) in seen:
            continue
        seen.add((c, o.get('route') if isinstance(o, dict) else None))
        res.append((c, o, r))
    return res


# --------------------------------------------------------------------------------------------------- populations

def single_key_desc(ty, trows, rrows, cards):
    sc, tc = cards
    return dict(classes=[dict(kind='T', attrs=[['Tag', 'INTEGER'], ['Id', ty]]),
                         dict(kind='R', attrs=[['Tag', 'INTEGER'], ['Ref', ty]])],
                assocs=[dict(rel_id='R1', source=_end('R', ['Ref'], sc), target=_end('T', ['Id'], tc))], ids=[],
                rows=[mkrow('T', 10 + i, [v]) for i, v in enumerate(trows)] + [mkrow('R', 20 + i, [v]) for i, v in enumerate(rrows)])


DOUBLE_NAMINGS = 6


def double_key_desc(tys, trows, rrows, cards, naming=0):
    """R1: R(two referential attributes) -> T(Id, B).  trows / rrows: (value for Id, value for B) resp. (value referring
    to Id, value referring to B).  naming: how the two sides spell, list and declare the key attributes
      0  R(T_Id, T_B) -> T(Id, B)
      1  R(Z_Id, A_B) -> T(Id, B)         the referential names sort the other way round than the identifying names
      2  R(T_B, T_Id) -> T(B, Id)         the association lists the pairs in the other order than the classes declare
      3  R(Id, B)     -> T(Id, B)         same spelling on both sides
      4  R(B, Id)     -> T(Id, B)         crossed spelling: R.B refers to T.Id and R.Id refers to T.B
      5  R(T_Id, T_B) -> T(Id, B)         R declares T_B before T_Id"""
    sc, tc = cards
    ref_id, ref_b = [('T_Id', 'T_B'), ('Z_Id', 'A_B'), ('T_Id', 'T_B'), ('Id', 'B'), ('B', 'Id'), ('T_Id', 'T_B')][naming]
    skeys, tkeys = ([ref_b, ref_id], ['B', 'Id']) if naming == 2 else ([ref_id, ref_b], ['Id', 'B'])
    flip = naming == 5
    rattrs = [['Tag', 'INTEGER']] + ([[ref_b, tys[1]], [ref_id, tys[0]]] if flip else [[ref_id, tys[0]], [ref_b, tys[1]]])
    return dict(classes=[dict(kind='T', attrs=[['Tag', 'INTEGER'], ['Id', tys[0]], ['B', tys[1]]]),
                         dict(kind='R', attrs=rattrs)],
                assocs=[dict(rel_id='R1', source=_end('R', skeys, sc), target=_end('T', tkeys, tc))],
                ids=[dict(kind='T', name='I1', attrs=['Id', 'B'])],
                rows=[mkrow('T', 10 + i, list(v)) for i, v in enumerate(trows)] +
                     [mkrow('R', 20 + i, list(v)[::-1] if flip else list(v)) for i, v in enumerate(rrows)])


def shared_desc(tys, t1rows, t2rows, rrows, cards):
    """R.X is referential in two associations: R1: R(X) -> T1(Id) and R2: R(X, Y) -> T2(Id, B)."""
    sc, tc = cards
    return dict(classes=[dict(kind='T1', attrs=[['Tag', 'INTEGER'], ['Id', tys[0]]]),
                         dict(kind='T2', attrs=[['Tag', 'INTEGER'], ['Id', tys[0]], ['B', tys[1]]]),
                         dict(kind='R', attrs=[['Tag', 'INTEGER'], ['X', tys[0]], ['Y', tys[1]]])],
                assocs=[dict(rel_id='R1', source=_end('R', ['X'], sc), target=_end('T1', ['Id'], tc)),
                        dict(rel_id='R2', source=_end('R', ['X', 'Y'], sc), target=_end('T2', ['Id', 'B'], tc))],
                ids=[],
                rows=[mkrow('T1', 10 + i, [v]) for i, v in enumerate(t1rows)] +
                     [mkrow('T2', 30 + i, list(v)) for i, v in enumerate(t2rows)] +
                     [mkrow('R', 20 + i, list(v)) for i, v in enumerate(rrows)])


TWO_KEYS_NAMINGS = ('one-class', 'equal', 'crossed', 'shared', 'overlap', 'permuted')


def two_keys_desc(tys, trows, rrows, cards, naming='one-class', first=0):
    """Two associations reach the same class T(Id, B) through different identifying attributes.  trows: (Id, B) values;
    rrows: (x, y) values, x referring to an Id and y to a B.  naming: who refers and how the referentials are called
      one-class  R(X, Y):             R1: R(X) -> T(Id)       R2: R(Y) -> T(B)
      equal      P(Ref), Q(Ref):      R1: P(Ref) -> T(Id)     R2: Q(Ref) -> T(B)          equal referential names
      crossed    P(B), Q(Id):         R1: P(B) -> T(Id)       R2: Q(Id) -> T(B)           spelled like the other identifier
      shared     R(X), B typed as Id: R1: R(X) -> T(Id)       R2: R(X) -> T(B)            one attribute, two identifiers (y unused)
      overlap    P(X, Y), Q(X):       R1: P(X, Y) -> T(Id, B) R2: Q(X) -> T(B)            overlapping names and identifiers
      permuted   P(X, Y), Q(X, Y):    R1: P(X, Y) -> T(Id, B) R2: Q(X, Y) -> T(B, Id)     same names, other pairing
    first: 1 = R2 is stated before R1."""
    sc, tc = cards
    t0, t1 = tys
    T = dict(kind='T', attrs=[['Tag', 'INTEGER'], ['Id', t0], ['B', t1]])
    rows = [mkrow('T', 10 + i, list(v)) for i, v in enumerate(trows)]
    tag = lambda kind, vals_of: [mkrow(kind, (20 if kind in 'PR' else 40) + i, vals_of(v)) for i, v in enumerate(rrows)]
    if naming == 'one-class':
        classes = [T, dict(kind='R', attrs=[['Tag', 'INTEGER'], ['X', t0], ['Y', t1]])]
        a1 = dict(rel_id='R1', source=_end('R', ['X'], sc), target=_end('T', ['Id'], tc))
        a2 = dict(rel_id='R2', source=_end('R', ['Y'], sc), target=_end('T', ['B'], tc))
        rows += tag('R', lambda v: [v[0], v[1]])
    elif naming in ('equal', 'crossed'):
        pn, qn = ('Ref', 'Ref') if naming == 'equal' else ('B', 'Id')
        classes = [T, dict(kind='P', attrs=[['Tag', 'INTEGER'], [pn, t0]]), dict(kind='Q', attrs=[['Tag', 'INTEGER'], [qn, t1]])]
        a1 = dict(rel_id='R1', source=_end('P', [pn], sc), target=_end('T', ['Id'], tc))
        a2 = dict(rel_id='R2', source=_end('Q', [qn], sc), target=_end('T', ['B'], tc))
        rows += tag('P', lambda v: [v[0]]) + tag('Q', lambda v: [v[1]])
    elif naming == 'shared':
        if t0 != t1:
            raise ValueError('one referential attribute has one type')
        classes = [T, dict(kind='R', attrs=[['Tag', 'INTEGER'], ['X', t0]])]
        a1 = dict(rel_id='R1', source=_end('R', ['X'], sc), target=_end('T', ['Id'], tc))
        a2 = dict(rel_id='R2', source=_end('R', ['X'], sc), target=_end('T', ['B'], tc))
        rows += tag('R', lambda v: [v[0]])
    elif naming == 'overlap':
        classes = [T, dict(kind='P', attrs=[['Tag', 'INTEGER'], ['X', t0], ['Y', t1]]), dict(kind='Q', attrs=[['Tag', 'INTEGER'], ['X', t1]])]
        a1 = dict(rel_id='R1', source=_end('P', ['X', 'Y'], sc), target=_end('T', ['Id', 'B'], tc))
        a2 = dict(rel_id='R2', source=_end('Q', ['X'], sc), target=_end('T', ['B'], tc))
        rows += tag('P', lambda v: [v[0], v[1]]) + tag('Q', lambda v: [v[1]])
    elif naming == 'permuted':
        classes = [T, dict(kind='P', attrs=[['Tag', 'INTEGER'], ['X', t0], ['Y', t1]]), dict(kind='Q', attrs=[['Tag', 'INTEGER'], ['X', t1], ['Y', t0]])]
        a1 = dict(rel_id='R1', source=_end('P', ['X', 'Y'], sc), target=_end('T', ['Id', 'B'], tc))
        a2 = dict(rel_id='R2', source=_end('Q', ['X', 'Y'], sc), target=_end('T', ['B', 'Id'], tc))
        rows += tag('P', lambda v: [v[0], v[1]]) + tag('Q', lambda v: [v[1], v[0]])
    else:
        raise ValueError(naming)
    return dict(classes=classes, assocs=[a2, a1] if first else [a1, a2], ids=[], rows=rows)


def reflexive_desc(ty, rows, cards):
    sc, tc = cards
    return dict(classes=[dict(kind='N', attrs=[['Tag', 'INTEGER'], ['Id', ty], ['Prev', ty]])],
                assocs=[dict(rel_id='R1', source=_end('N', ['Prev'], sc, 'succeeds'), target=_end('N', ['Id'], tc, 'precedes'))],
                ids=[], rows=[mkrow('N', 10 + i, list(v)) for i, v in enumerate(rows)])


DOUBLE_QUICK = [('INTEGER', 'STRING'), ('UNIQUE_ID', 'UNIQUE_ID'), ('STRING', 'BOOLEAN'), ('REAL', 'INTEGER'), ('BOOLEAN', 'UNIQUE_ID')]
SHARED_QUICK = [('UNIQUE_ID', 'STRING'), ('STRING', 'INTEGER'), ('INTEGER', 'UNIQUE_ID')]
SHARED_ALL = SHARED_QUICK + [('STRING', 'STRING'), ('UNIQUE_ID', 'UNIQUE_ID'), ('REAL', 'BOOLEAN'), ('BOOLEAN', 'REAL'),
                             ('INTEGER', 'INTEGER'), ('UNIQUE_ID', 'INTEGER')]


def join_cases(quick):
    cwr = itertools.combinations_with_replacement
    n = 0
    for ty in G.CORE_TYPES:
        k = len(SINGLE[ty])
        for size in (1, 2, 3):
            for t in cwr(range(k), size):
                for r in cwr(range(k), size):
                    n += 1
                    yield ('single', ty, list(t), list(r), n % 4)
    for tys in (DOUBLE_QUICK if quick else list(itertools.product(G.CORE_TYPES, repeat=2))):
        tuples = list(itertools.product(range(3), repeat=2))
        big = (not quick) and tys in DOUBLE_QUICK
        for t in cwr(range(9), 2):
            for r in cwr(range(9), 3 if big else 2):
                n += 1
                yield ('double', list(tys), list(t), list(r), n % 4, (n // 4) % DOUBLE_NAMINGS)
    for tys in (SHARED_QUICK if quick else SHARED_ALL):
        for t1 in ([1], [1, 2], [0, 1]):
            for t2 in range(9):
                for r in cwr(range(9), 2):
                    n += 1
                    yield ('shared', list(tys), t1, [t2], list(r), n % 4)
    others = TWO_KEYS_NAMINGS[1:]
    for tys in (SHARED_QUICK if quick else SHARED_ALL):
        for t in cwr(range(9), 2):
            for r in cwr(range(9), 1 if quick else 2):
                n += 1
                yield ('two-keys', list(tys), list(t), list(r), n % 4, 'one-class', 0)
                # quick: two of the five other namings per population, rotating; thorough: all; either association first
                for j, naming in enumerate(others):
                    if quick and (n + j) % 5 > 1:
                        continue
                    yield ('two-keys', list(tys), list(t), list(r), n % 4, naming, (n // 5 + j) % 2)
    for ty in G.CORE_TYPES:
        k = len(SINGLE[ty])
        pairs = list(itertools.product(range(k), repeat=2))
        for rows in cwr(range(len(pairs)), 3):
            n += 1
            yield ('reflexive', ty, list(rows), n % 4)


def join_desc(case):
    kind = case[0]
    if kind == 'single':
        _, ty, t, r, c = case
        a = SINGLE[ty]
        return single_key_desc(ty, [a[i] for i in t], [a[i] for i in r], CARD_ROT[c])
    if kind == 'double':
        _, tys, t, r, c, naming = case
        tup = [(COMPONENT[tys[0]][i], COMPONENT[tys[1]][j]) for i, j in itertools.product(range(3), repeat=2)]
        return double_key_desc(tys, [tup[i] for i in t], [tup[i] for i in r], CARD_ROT[c], naming)
    if kind == 'shared':
        _, tys, t1, t2, r, c = case
        tup = [(COMPONENT[tys[0]][i], COMPONENT[tys[1]][j]) for i, j in itertools.product(range(3), repeat=2)]
        return shared_desc(tys, [COMPONENT[tys[0]][i] for i in t1], [tup[i] for i in t2], [tup[i] for i in r], CARD_ROT[c])
    if kind == 'two-keys':
        _, tys, t, r, c, naming, first = case
        if naming == 'shared':
            tys = [tys[0], tys[0]]
        tup = [(COMPONENT[tys[0]][i], COMPONENT[tys[1]][j]) for i, j in itertools.product(range(3), repeat=2)]
        return two_keys_desc(tys, [tup[i] for i in t], [tup[i] for i in r], CARD_ROT[c], naming, first)
    if kind == 'reflexive':
        _, ty, rows, c = case
        a = SINGLE[ty]
        pairs = list(itertools.product(range(len(a)), repeat=2))
        return reflexive_desc(ty, [(a[pairs[i][0]], a[pairs[i][1]]) for i in rows], CARD_ROT[c])
    raise ValueError(kind)


def small_populations(quick):
    """(name, desc, inferred kinds, named_all) with <= 6 statements (7 for the last ones, thorough only, sampled)."""
    U = UNSET
    pops = []
    pops.append(('uid-linked-dangling', single_key_desc('UNIQUE_ID', [1], [1, 2], ('MC', '1C')), (), False))
    pops.append(('string-dup', single_key_desc('STRING', ['a', 'a'], ['a'], ('MC', 'MC')), (), False))
    pops.append(('string-null-ref', single_key_desc('STRING', [''], ['', 'a'], ('MC', '1C')), (), False))
    pops.append(('integer-zero-key', single_key_desc('INTEGER', [0, 1], [0], ('MC', '1C')), (), False))
    pops.append(('uid-unset', single_key_desc('UNIQUE_ID', [U, 0], [U], ('MC', '1C')), (), False))
    d = double_key_desc(('INTEGER', 'STRING'), [(1, 'a')], [(1, 'a'), (1, '')], ('MC', '1C'), naming=1)
    d['ids'] = []
    pops.append(('double-key', d, (), False))
    d = double_key_desc(('UNIQUE_ID', 'BOOLEAN'), [(1, True)], [(1, True), (1, U)], ('MC', '1C'), naming=5)
    d['ids'] = []
    pops.append(('double-key-unset', d, (), False))
    pops.append(('two-identifiers-one-referential', two_keys_desc(('UNIQUE_ID', 'UNIQUE_ID'), [(1, 2)], [(2, U)], ('MC', '1C'), 'shared'), (), False))
    pops.append(('reflexive-chain', reflexive_desc('UNIQUE_ID', [(1, 0), (2, 1), (3, 2), (4, 4)], ('1C', '1C')), (), False))
    pops.append(('reflexive-string', reflexive_desc('STRING', [('a', ''), ('', 'a'), ('b', 'a'), ('a', 'b')], ('MC', 'MC')), (), False))
    sh = shared_desc(('UNIQUE_ID', 'STRING'), [1], [(1, 'a')], [(1, 'a')], ('MC', '1C'))
    sh['classes'] = sh['classes'][:1] + sh['classes'][2:]
    sh['rows'] = [r for r in sh['rows'] if r['kind'] != 'T2']
    sh['assocs'][1] = dict(rel_id='R2', source=_end('R', ['X'], 'MC', 'other'), target=_end('T1', ['Id'], '1C', 'other way'))
    sh['assocs'][0]['source']['phrase'], sh['assocs'][0]['target']['phrase'] = 'one', 'one way'
    pops.append(('shared-attr-two-associations', sh, (), False))
    inf = dict(classes=[dict(kind='K', attrs=[['_0', 'INTEGER'], ['_1', 'STRING']]), dict(kind='L', attrs=[['_0', 'INTEGER'], ['_1', 'UNIQUE_ID'], ['_2', 'REAL']])],
               assocs=[], ids=[], rows=[mkrow('K', 1, ['a']), mkrow('K', 2, ["b'"]), mkrow('K', 3, ['']),
                                        mkrow('L', 4, [1, 1.5]), mkrow('L', 5, [0, -2.5]), mkrow('L', 6, [2 ** 127, 0.0])])
    pops.append(('inferred-positional', inf, ('K', 'L'), False))
    infn = dict(classes=[dict(kind='K', attrs=[['Tag', 'INTEGER'], ['Name', 'STRING'], ['Flag', 'BOOLEAN']])], assocs=[], ids=[],
                rows=[mkrow('K', i, [s, b]) for i, (s, b) in enumerate([('a', True), ('b', False), ('', True), ('c', False), ('d', True), ('a', False)])])
    pops.append(('inferred-named', infn, ('K',), True))
    mixed = single_key_desc('UNIQUE_ID', [1], [1], ('MC', '1C'))
    mixed['classes'].append(dict(kind='X', attrs=[['_0', 'INTEGER']]))
    mixed['rows'].append(mkrow('X', 7, []))
    pops.append(('explicit-and-inferred', mixed, ('X',), False))
    if not quick:
        for ty in ('BOOLEAN', 'REAL', 'INTEGER', 'STRING', 'UNIQUE_ID'):
            a = SINGLE[ty]
            pops.append(('single-%s-a' % ty, single_key_desc(ty, [a[1], a[2]], [a[2]], ('MC', '1C')), (), False))
            pops.append(('single-%s-b' % ty, single_key_desc(ty, [a[2]], [a[0], a[2]], ('M', '1')), (), False))
            pops.append(('reflexive-%s' % ty, reflexive_desc(ty, [(a[2], a[1]), (a[1], a[2]), (a[2], a[2]), (a[0], a[2])], ('MC', 'MC')), (), False))
        ac = dict(classes=[dict(kind='A', attrs=[['Tag', 'INTEGER'], ['Id', 'UNIQUE_ID']]),
                           dict(kind='C', attrs=[['Tag', 'INTEGER'], ['A_Id', 'UNIQUE_ID'], ['B_Id', 'UNIQUE_ID']])],
                  assocs=[dict(rel_id='R3', source=_end('C', ['A_Id'], 'MC', 'one'), target=_end('A', ['Id'], '1', 'one way')),
                          dict(rel_id='R3', source=_end('C', ['B_Id'], 'MC', 'other'), target=_end('A', ['Id'], '1', 'other way'))],
                  ids=[], rows=[mkrow('A', 1, [1]), mkrow('A', 2, [2]), mkrow('C', 3, [1, 2])])
        pops.append(('association-class-7', ac, (), False))
        pops.append(('shared-7', shared_desc(('UNIQUE_ID', 'STRING'), [1], [(1, 'a')], [(1, 'a')], ('MC', '1C')), (), False))
        d = double_key_desc(('STRING', 'STRING'), [('a', "b'")], [('a', "b'"), ("b'", 'a')], ('MC', '1C'), naming=4)
        d['ids'] = []
        pops.append(('double-key-crossed-names', d, (), False))
        pops.append(('two-identifiers-equal-referential-names-8',
                     two_keys_desc(('INTEGER', 'STRING'), [(1, 'a')], [(1, 'a')], ('MC', '1C'), 'equal', 1), (), False))
    return pops


# --------------------------------------------------------------------------------------------------- items

_CANON = {}


def _canonical(stmts):
    key = tuple(stmts)
    if key not in _CANON:
        if len(_CANON) > 64:
            _CANON.clear()
        m = load_texts(['\n'.join(stmts)])
        _CANON[key] = (tagged_view(m), serialized_statements(m))
    return _CANON[key]


def run_order(stmts, order, split):
    """Relation between two runs: the permuted / split input gives the metamodel of the canonical single input."""
    base, base_ser = _canonical(stmts)
    seq = [stmts[i] for i in order]
    texts = ['\n'.join(seq)] if split in (0, len(seq)) else ['\n'.join(seq[:split]), '\n'.join(seq[split:])]
    clause = 'order-independent' if len(texts) == 1 else 'split-independent'
    try:
        m = load_texts(texts)
    except Exception as e:
        return [(clause, '%s: %s' % (type(e).__name__, str(e)[:300]), 'same metamodel as the canonical order')]
    v, ser = tagged_view(m), serialized_statements(m)
    d = view_diff(base, v)
    if ser != base_ser:
        d['serialize'] = dict(observed=[s for s in ser if s not in base_ser], required=[s for s in base_ser if s not in ser])
    return [(clause, d, 'same metamodel as the canonical order')] if d else []


@item('join', stands_in_for=['xtuml.load.ModelLoader.populate_connections', 'xtuml.meta.Link.compute_lookup_key',
                             'xtuml.meta.Link.compute_index_key', 'xtuml.meta._is_null', 'xtuml.meta.MetaClass.new',
                             'xtuml.meta.MetaClass.clone'], shards=6, weight=3,
      bound='single keys of the 5 core types: all multisets of n referred x n referring rows (n=1,2,3) over {unset, null/zero, 2 values}; '
            '2-attribute keys (quick 5 type pairs, thorough 25): multisets of 2 x 2 rows (3 referring rows for 5 pairs in '
            'thorough) over 9 key tuples incl. null/unset components, 6 rotating spellings of the key (referential names '
            'sorting like / unlike the identifying ones, pairs listed in the other order, same and crossed spelling on the '
            'two sides, other declaration order); shared referential attribute in two associations (quick 3, '
            'thorough 9 type pairs); two associations to one class over different identifying attributes (same type pairs): '
            'from one class over two attributes, and from two classes with equal / crossed / overlapping / permuted '
            'referential names or from one class over one shared attribute (quick: 2 of these 5 per population, rotating; '
            'thorough: all; either association stated first, rotating); reflexive: multisets of 3 rows over 16 '
            '(Id, Prev) pairs; 4 cardinality pairs rotating; API routes new/clone on non-reflexive populations within multiplicity')
def join(ctx):
    if ctx.shard == 0:
        ctx.note('API routes are evaluated only where the rule\'s links respect the declared multiplicities (relate raises '
                 'otherwise) and the classes can be created referred-first (not reflexive)')
    for i, case in enumerate(join_cases(ctx.quick)):
        if i % ctx.nshards != ctx.shard:
            continue
        if ctx.expired():
            ctx.exhausted = False
            break
        desc = join_desc(case)
        ctx.case(key=case, nontrivial=bool(rule_links(desc)) or bool(null_referring(desc)))
        for clause, observed, required in run_join(desc):
            ctx.check(False, clause=clause, input=dict(desc=desc), observed=observed, required=required)
    else:
        ctx.exhausted = True


@item('orders', stands_in_for=['xtuml.load.ModelLoader.populate', 'xtuml.load.ModelLoader.input'], shards=6, weight=3,
      bound='populations of <=6 statements (quick 14, thorough 30 + 3 of 7..8 statements sampled): all permutations; quick: '
            'single input + 1 rotating split per permutation, thorough: all split points; explicit, inferred (positional, '
            'named) and mixed schemas, composite keys with differently ordered names, one referential attribute reaching '
            'one class through two identifiers')
def orders(ctx):
    n = 0
    complete = True
    for name, desc, inferred, named_all in small_populations(ctx.quick):
        stmts = statements(desc, inferred, named_all)
        if n % ctx.nshards == ctx.shard:
            # the canonical order against the rule
            try:
                base, _ = _canonical(stmts)
                for clause, observed, required in check_rule(base, rule_links(desc)):
                    ctx.check(False, clause=clause, input=dict(population=name, desc=desc, statements=stmts), observed=observed, required=required)
            except Exception as e:
                ctx.check(False, clause='load-accepted', input=dict(population=name, desc=desc, statements=stmts),
                          observed='%s: %s' % (type(e).__name__, e), required='generated text loads')
        perms = itertools.permutations(range(len(stmts)))
        if len(stmts) > 6:
            allp = list(perms)
            perms = allp[::max(1, len(allp) // 700)]
            complete = False
        for pi, order in enumerate(perms):
            n += 1
            if n % ctx.nshards != ctx.shard:
                continue
            if ctx.expired():
                complete = False
                break
            splits = [0, 1 + pi % (len(stmts) - 1)] if ctx.quick else range(0, len(stmts))
            for split in splits:
                ctx.case(key=(name, order, split), nontrivial=list(order) != sorted(order) or split != 0)
                for clause, observed, required in run_order(stmts, order, split):
                    ctx.check(False, clause=clause, input=dict(population=name, statements=stmts, order=list(order), split=split),
                              observed=observed, required=required)
    ctx.exhausted = complete


# --------------------------------------------------------------------------------------------------- packaging

LAYOUTS = ('xtuml-files', 'xtuml-files-reversed', 'bp-files', 'bp-dir-flat', 'bp-dir-nested', 'bp-zip-flat', 'bp-zip-nested',
           'bp-mixed')
NEST = ['', 'sub1', os.path.join('sub1', 'sub2'), 'sub3']


def set_partitions(n, maxblocks):
    """Restricted growth strings: every partition of range(n) into <= maxblocks blocks exactly once."""
    def rec(prefix, used):
        if len(prefix) == n:
            yield list(prefix)
            return
        for b in range(min(used + 1, maxblocks)):
            prefix.append(b)
            for x in rec(prefix, max(used, b + 1)):
                yield x
            prefix.pop()
    return rec([], 0)


def _bp_loader(real=False):
    import xtuml
    import bridgepoint.ooaofooa as ooa
    if real:
        return ooa.ModelLoader(load_globals=False)

    class Bare(ooa.ModelLoader):
        """The bridgepoint loader without the preloaded ooaofooa schema (its filename_input is the code under test)."""
        def __init__(self):
            xtuml.ModelLoader.__init__(self)
    return Bare()


def load_packaged(stmts, assignment, layout, tmp, real=False):
    import xtuml
    nfiles = max(assignment) + 1
    texts = ['\n'.join(s for s, a in zip(stmts, assignment) if a == f) + '\n' for f in range(nfiles)]
    root = tempfile.mkdtemp(dir=tmp)
    paths = []
    if layout.startswith('xtuml-files') or layout == 'bp-files':
        for f, t in enumerate(texts):
            p = os.path.join(root, 'f%d.sql' % f)
            with open(p, 'w') as fh:
                fh.write(t)
            paths.append(p)
        if layout == 'xtuml-files':
            return xtuml.load_metamodel(paths)
        if layout == 'xtuml-files-reversed':
            return xtuml.load_metamodel(paths[::-1])
        l = _bp_loader(real)
        for p in paths:
            l.filename_input(p)
        return l.build_metamodel()
    if layout in ('bp-dir-flat', 'bp-dir-nested', 'bp-mixed'):
        l = _bp_loader(real)
        d = os.path.join(root, 'model')
        os.mkdir(d)
        for f, t in enumerate(texts):
            if layout == 'bp-mixed' and f == 0:
                p = os.path.join(root, 'first.xtuml')
            else:
                sub = os.path.join(d, NEST[f % 4]) if layout != 'bp-dir-flat' else d
                os.makedirs(sub, exist_ok=True)
                p = os.path.join(sub, 'f%d.xtuml' % f)
            with open(p, 'w') as fh:
                fh.write(t)
        if layout == 'bp-mixed':
            l.filename_input(os.path.join(root, 'first.xtuml'))
        l.filename_input(d)
        return l.build_metamodel()
    if layout in ('bp-zip-flat', 'bp-zip-nested'):
        z = os.path.join(root, 'model.zip')
        with zipfile.ZipFile(z, 'w') as zf:
            for f, t in enumerate(texts):
                name = 'f%d.xtuml' % f if layout == 'bp-zip-flat' else '/'.join([x for x in NEST[f % 4].split(os.sep) if x] + ['f%d.xtuml' % f])
                zf.writestr(name, t.encode('utf-8'))
        l = _bp_loader(real)
        l.filename_input(z)
        return l.build_metamodel()
    raise ValueError(layout)


def run_packaging(stmts, assignment, layout, kinds, tmp, real=False):
    base, base_ser = _canonical(stmts)
    try:
        m = load_packaged(stmts, assignment, layout, tmp, real)
    except Exception as e:
        return [('packaging-independent', '%s: %s' % (type(e).__name__, str(e)[:300]), 'same metamodel as one input')]
    finally:
        for e in os.listdir(tmp):
            shutil.rmtree(os.path.join(tmp, e), ignore_errors=True)
    v = tagged_view(m, kinds=set(kinds))
    d = view_diff(base, v)
    if not real:
        ser = serialized_statements(m)
        if ser != base_ser:
            d['serialize'] = dict(observed=[s for s in ser if s not in base_ser], required=[s for s in base_ser if s not in ser])
    return [('packaging-independent', d, 'same metamodel as one input')] if d else []


def packaging_populations(quick):
    pops = small_populations(True)
    keep = ('uid-linked-dangling', 'string-dup', 'double-key', 'reflexive-chain', 'shared-attr-two-associations',
            'inferred-positional', 'explicit-and-inferred', 'two-identifiers-one-referential')
    quick_keep = ('uid-linked-dangling', 'string-dup', 'double-key', 'reflexive-chain', 'inferred-positional')
    return [p for p in pops if p[0] in (quick_keep if quick else keep)]


@item('packaging', stands_in_for=['bridgepoint.ooaofooa.ModelLoader.filename_input', 'xtuml.load.load_metamodel',
                                  'xtuml.load.ModelLoader.filename_input', 'xtuml.load.ModelLoader.file_input'], shards=4, weight=2,
      bound='populations of <=6 statements (quick 5, thorough 8): every partition of the statements into <=3 (quick) / <=4 '
            '(thorough) files x 8 layouts (quick: 4 alternating layouts for 3-file partitions) (file list in both orders, bridgepoint loader over files, flat / nested directory, '
            'flat / nested zip, file + directory); the bridgepoint loader with its preloaded ooaofooa schema once per '
            'population and layout, otherwise a subclass that skips the preload')
def packaging(ctx):
    tmp = tempfile.mkdtemp(prefix='verif_c03_')
    n = 0
    complete = True
    try:
        for name, desc, inferred, named_all in packaging_populations(ctx.quick):
            stmts = statements(desc, inferred, named_all)
            kinds = [c['kind'] for c in desc['classes']]
            for ai, assignment in enumerate(set_partitions(len(stmts), 3 if ctx.quick else 4)):
                for li, layout in enumerate(LAYOUTS):
                    if ctx.quick and max(assignment) >= 2 and (li + ai) % 2:
                        continue        # quick: 3-file partitions take every other layout, alternating
                    n += 1
                    if n % ctx.nshards != ctx.shard:
                        continue
                    if ctx.expired():
                        complete = False
                        break
                    real = layout.startswith('bp-') and ai == 7
                    ctx.case(key=(name, assignment, layout), nontrivial=max(assignment) > 0)
                    for clause, observed, required in run_packaging(stmts, assignment, layout, kinds, tmp, real):
                        ctx.check(False, clause=clause, input=dict(population=name, statements=stmts, assignment=assignment,
                                                                   layout=layout, kinds=kinds, real=real),
                                  observed=observed, required=required)
        ctx.exhausted = complete
    finally:
        shutil.rmtree(tmp, ignore_errors=True)

# --------------------------------------------------------------------------------------------------- API route with phrases

def phrased_cases():
    """associations whose ends carry phrases: a binary one (phrases are optional there, but allowed) and reflexive chains (where
    they are required); rows in referred-first order so that the API route can create them one after the other"""
    for sc, tc in (('M', '1'), ('MC', '1C'), ('1C', '1C')):
        for rrows in ([1], [1, 2], [2, 3], [3], [None, 1]):
            d = single_key_desc('INTEGER', [1, 2], rrows, (sc, tc))
            d['assocs'][0]['source']['phrase'] = 'is for'
            d['assocs'][0]['target']['phrase'] = 'has'
            if within_multiplicity(d, rule_links(d)):
                yield 'binary', d
    for rows in ([(1, None), (2, 1)], [(1, None), (2, 1), (3, 2)], [(1, None), (2, None), (3, 1)], [(1, None), (2, 7)]):
        d = reflexive_desc('INTEGER', rows, ('1C', '1C'))
        if within_multiplicity(d, rule_links(d)):
            yield 'reflexive', d


def run_api_phrases(shape, desc):
    import xtuml
    expected = rule_links(desc)
    try:
        loaded = tagged_view(load_texts(['\n'.join(statements(desc))]))
    except Exception as e:
        return [('load-accepted', '%s: %s' % (type(e).__name__, str(e)[:300]), 'generated text loads')]
    out = check_rule(loaded, expected)
    m = G.api_schema(desc)
    for r in desc['rows']:
        kw = dict((k, v) for k, v in _new_kwargs(desc, r['kind'], r).items() if v is not None)
        try:
            m.new(r['kind'], **kw)
        except xtuml.MetaException as e:
            out.append(('api-phrased-association:%s' % shape, dict(row=[r['kind'], r['values'][0]], raised='%s: %s' % (type(e).__name__, e)),
                        'row created and linked as the loader links it'))
            return out
    v = tagged_view(m)
    for direction in ('links_from_referring', 'links_from_referred'):
        if v[direction] != loaded[direction]:
            out.append(('api-phrased-association:%s' % shape, dict(direction=direction, api=v[direction], loaded=loaded[direction]),
                        'same links as loading the same rows'))
            break
    return out


@item('api-phrases', stands_in_for=['xtuml.meta.MetaClass.new'], shards=1,
      bound='binary association with phrases on both ends (3 cardinality pairs x 5 referring populations) and reflexive chains with '
            'phrases (4 populations); rows created through MetaClass.new in referred-first order, links compared with the loader and the rule')
def api_phrases(ctx):
    for shape, desc in phrased_cases():
        ctx.case(key=[shape, desc['rows'], desc['assocs'][0]['source']['many']], nontrivial=True)
        for c, o, r in run_api_phrases(shape, desc):
            ctx.check(False, clause=c, input=dict(shape=shape, desc=desc, api_phrases=True), observed=o, required=r)
    ctx.exhausted = True


def replay(item_name, input):
    def fmt(res):
        return [dict(clause=c, observed=o, required=r) for c, o, r in res]
    if 'order' in input:
        return fmt(run_order(input['statements'], input['order'], input['split']))
    if 'assignment' in input:
        tmp = tempfile.mkdtemp(prefix='verif_c03_')
        try:
            return fmt(run_packaging(input['statements'], input['assignment'], input['layout'], input['kinds'], tmp,
                                     input.get('real', False)))
        finally:
            shutil.rmtree(tmp, ignore_errors=True)
    desc = input['desc']
    if input.get('api_phrases'):
        return fmt(run_api_phrases(input['shape'], desc))
    if item_name == 'join':
        return fmt(run_join(desc))
    base, _ = _canonical(input['statements'])
    return fmt(check_rule(base, rule_links(desc)))
