"""C17 (bounded tier): ordered sets behave as insertion-ordered mathematical sets.

Real code driven: xtuml.tools.OrderedSet and xtuml.meta.QuerySet (plus the stdlib MutableSet/Set mixins they inherit).
Oracle: a plain Python list without duplicates (`ref`), written from the property text:

* contents after every operation are those of the mathematical set;
* *order* is only claimed for elements that arrived one at a time (add), by the constructor or by in-place union:
  there `list(s)` must equal `ref`.  After `&=`, `-=`, `^=` only the contents are claimed, so the reference adopts the
  observed order (after having checked contents and absence of duplicates).  For the results of `| & - ^` contents only;
* `reversed` is the exact reverse of forward iteration; `len`, `in`, `first`, `last` agree with `ref`;
* `==` holds exactly for ordered collections (list, tuple, OrderedSet, QuerySet) with the same elements in the same order;
* removing the element being visited during iteration: the visited sequence is exactly the old view, each element once.

An operation is a JSON list, a case is dict(cls=..., init=..., ops=[...]):
  ['add',x] ['discard',x] ['remove',x] ['pop',last] ['clear']
  ['ior'|'iand'|'isub'|'ixor', operand, form]      in-place algebra;  form in 'list','tuple','oset','self'
  ['or'|'and'|'sub'|'xor', operand, form]          algebra producing a new set (receiver must keep contents and order)
  ['iterrm', R] / ['reviterrm', R]                 iterate (forward / reversed), removing every visited element that is in R

Interrupted operations (the caller catches the error and keeps using the set; item interrupted-operations and random-long):
  [<one of the 8 algebra kinds>, P, 'gen-raises']       the right-hand side is a generator that yields the elements of P, then raises
  [<one of the 8 algebra kinds>, P, 'list-unhashable']  the right-hand side is the list P followed by an unhashable element
  ['add-unhashable'] ['discard-unhashable']             the element itself cannot be a member
What the property claims there (nothing about which exception comes out, nor whether the part taken before the failure stays):
the receiver is still a consistent ordered set (no duplicates, len = number of elements walked, reverse = exact reverse, then all the
observations of `observe`), nothing is in it that was neither there before nor delivered by P, `|=` and `-=`/`^=` lose no element
that they have no reason to touch, the old elements keep their order in front of what `|=` brought (a |= is a sequence of
one-at-a-time arrivals in the order of P), and `| & - ^` leave the receiver as it was.  The reference adopts the observed walk.
"""
import itertools
import signal

import vlib.fresh_ply  # noqa: F401
import xtuml
from xtuml.meta import QuerySet
from xtuml.tools import OrderedSet

from vlib.bounded import item

U = (0, 1, 2)
ABSENT = 3
CLASSES = {'OrderedSet': OrderedSet, 'QuerySet': QuerySet}
MAX_TIMEOUTS = 3
KEY_CAP = 100000   # recorded distinct keys per shard (memory); evaluations are always counted


def _ordered_sublists(universe):
    out = []
    for n in range(len(universe) + 1):
        for p in itertools.permutations(universe, n):
            out.append(list(p))
    return out


ORDERED = _ordered_sublists(U)                              # 16 ordered lists without duplicates
SUBSETS = [list(c) for n in range(len(U) + 1) for c in itertools.combinations(U, n)]   # 8
# contents-only operands are given in a scrambled order so that nothing can rely on sortedness
SCRAMBLED = [list(reversed(s)) if i % 2 else s for i, s in enumerate(SUBSETS)]
FORMS = ('list', 'oset', 'tuple')


class Failure(Exception):
    def __init__(self, clause, observed, required):
        Exception.__init__(self, clause)
        self.clause, self.observed, self.required = clause, observed, required


ITER_LIMIT = 16      # no set in these items ever holds more than 7 elements
CPU_LIMIT_S = 1.0    # CPU seconds per case (ITIMER_VIRTUAL); a case normally takes well under a millisecond


class _Timeout(BaseException):
    pass


def _on_timer(signum, frame):
    raise _Timeout()


try:
    signal.signal(signal.SIGVTALRM, _on_timer)
    _HANDLER = True
except ValueError:       # imported outside the main thread: no guard available
    _HANDLER = False


def _bounded(iterator, what):
    """list(iterator), but a walk that does not terminate (corrupt structure) is reported instead of followed."""
    out = list(itertools.islice(iterator, ITER_LIMIT + 1))
    if len(out) > ITER_LIMIT:
        raise Failure('contents', dict(what=what, iteration='does not terminate', begins=out[:8]), 'a finite walk over the elements')
    return out


def _operand(cls, s, operand, form):
    if form == 'self':
        return s
    if form == 'list':
        return list(operand)
    if form == 'tuple':
        return tuple(operand)
    if form == 'oset':
        return OrderedSet(list(operand))
    raise ValueError(form)


def _operand_elems(ref, operand, form):
    return list(ref) if form == 'self' else list(operand)


FAILING_FORMS = ('gen-raises', 'list-unhashable')
INPLACE = ('ior', 'iand', 'isub', 'ixor')
BINARY = ('or', 'and', 'sub', 'xor')


class _SourceFails(Exception):
    """raised by the right-hand side of an interrupted operation"""


def _failing_operand(operand, form):
    if form == 'gen-raises':
        def gen():
            for x in operand:
                yield x
            raise _SourceFails('the source of the elements fails here')
        return gen()
    if form == 'list-unhashable':
        return list(operand) + [[ABSENT]]
    raise ValueError(form)


# ----------------------------------------------------------------------------------------------------------------------
# consistency of any ordered set with expected contents (used for the receiver and for results of | & - ^)
# ----------------------------------------------------------------------------------------------------------------------
def _check_contents(s, expected_elems, what):
    fwd = _bounded(iter(s), what)
    if len(fwd) != len(set(fwd)) or set(fwd) != set(expected_elems):
        raise Failure('contents', dict(what=what, iterated=fwd), dict(elements=sorted(set(expected_elems), key=repr)))
    if len(s) != len(set(expected_elems)):
        raise Failure('length', dict(what=what, len=len(s)), dict(len=len(set(expected_elems))))
    rev = _bounded(reversed(s), what + ' (reversed)')
    if rev != fwd[::-1]:
        raise Failure('reverse-iteration', dict(what=what, reversed=rev, forward=fwd), dict(reversed=fwd[::-1]))
    return fwd


MAKERS = ((list, 'list'), (tuple, 'tuple'), (OrderedSet, 'OrderedSet'), (QuerySet, 'QuerySet'))


def observe(cls, s, ref, level=2, salt=0):
    """All read-only observations of the receiver `s` against the reference list `ref` (order claimed).
    level 2: equality against every kind of ordered collection and 7 near misses; level 1: one kind (chosen by salt), one near miss."""
    fwd = _check_contents(s, ref, 'receiver')
    if fwd != ref:
        raise Failure('insertion-order', dict(iterated=fwd), dict(order=list(ref)))
    for x in U + (ABSENT,):
        if (x in s) != (x in ref):
            raise Failure('membership', dict(element=x, result=(x in s)), dict(result=(x in ref)))
    if isinstance(s, QuerySet):
        f, l = s.first, s.last
        rf, rl = (ref[0], ref[-1]) if ref else (None, None)
        if f != rf or l != rl or (ref and (f is None or l is None)):
            raise Failure('first-last', dict(first=f, last=l), dict(first=rf, last=rl))
    if level == 0:
        return
    # equality: exactly the ordered collections with the same elements in the same order
    same = list(ref)
    if level == 1:
        mk, name = MAKERS[salt % 4]
        o = mk(same)
        if not (s == o) or (s != o):
            raise Failure('equality', dict(other=name, elements=same, eq=(s == o), ne=(s != o)), dict(eq=True, ne=False))
        other = (same[::-1] if len(same) >= 2 and salt % 2 else (same[:-1] if same and salt % 3 else same + [ABSENT]))
        o = mk(other)
        if (s == o) or (o == s):
            raise Failure('equality', dict(other=name, elements=other, receiver=same, eq=(s == o), eq_reflected=(o == s)), dict(eq=False))
        return
    others = []
    if len(ref) >= 2:
        others.append(ref[::-1])
        others.append(ref[1:] + ref[:1])
    if ref:
        others.append(ref[:-1])
        others.append(ref[1:])
    others.append(ref + [ABSENT])
    others.append([ABSENT] + ref)
    if ref:
        others.append(ref[:-1] + [ABSENT])
    for mk, name in MAKERS:
        o = mk(same)
        if not (s == o) or (s != o) or not (o == s) or (o != s):
            raise Failure('equality', dict(other=name, elements=same, eq=(s == o), ne=(s != o), eq_reflected=(o == s)),
                          dict(eq=True, ne=False))
        for other in others:
            if other == same:
                continue
            o = mk(other)
            if (s == o) or not (s != o) or (o == s):
                raise Failure('equality', dict(other=name, elements=other, receiver=same, eq=(s == o), ne=(s != o),
                                               eq_reflected=(o == s)), dict(eq=False, ne=True))
    # observations must not have changed anything
    again = _bounded(iter(s), 'receiver after observations')
    if again != ref:
        raise Failure('insertion-order', dict(iterated=again, after='observations'), dict(order=list(ref)))


# ----------------------------------------------------------------------------------------------------------------------
# interrupted operations: the operation raises part-way (failing right-hand side, unhashable element), the set stays in use
# ----------------------------------------------------------------------------------------------------------------------
def _consistent_walk(s, what, may_hold, must_hold):
    """The forward walk of `s` after checking that it is the walk of a set: no duplicates, only elements of `may_hold`, every element
    of `must_hold`, len = number of elements, reverse walk = exact reverse."""
    fwd = _bounded(iter(s), what)
    if len(fwd) != len(set(fwd)) or not set(fwd) <= set(may_hold) or not set(must_hold) <= set(fwd):
        raise Failure('contents', dict(what=what, iterated=fwd),
                      dict(no_duplicates=True, at_least=sorted(set(must_hold), key=repr), at_most=sorted(set(may_hold), key=repr)))
    if len(s) != len(fwd):
        raise Failure('length', dict(what=what, len=len(s), iterated=fwd), dict(len=len(fwd)))
    rev = _bounded(reversed(s), what + ' (reversed)')
    if rev != fwd[::-1]:
        raise Failure('reverse-iteration', dict(what=what, reversed=rev, forward=fwd), dict(reversed=fwd[::-1]))
    return fwd


def _is_subsequence(small, big):
    it = iter(big)
    return all(any(x == y for y in it) for x in small)


def _step_interrupted(cls, s, ref, op, checked):
    kind = op[0]
    if kind in ('add-unhashable', 'discard-unhashable'):
        try:
            if kind == 'add-unhashable':
                s.add([ABSENT])
            else:
                s.discard([ABSENT])
        except Exception:        # TypeError today; which exception is not part of the property
            pass
        # an unhashable object is not an element of any of these sets: contents and order as before (checked by the caller)
        return s, ref
    if kind not in INPLACE + BINARY:
        raise ValueError('unknown op %r' % (op,))
    P = list(op[1])
    o = _failing_operand(P, op[2])
    what = 'receiver after interrupted %s' % kind
    old = list(ref)
    if kind in INPLACE:
        try:
            if kind == 'ior':
                s |= o
            elif kind == 'iand':
                s &= o
            elif kind == 'isub':
                s -= o
            else:
                s ^= o
        except Exception:
            pass
        if kind == 'ior':
            fwd = _consistent_walk(s, what, may_hold=old + P, must_hold=old)
            arrivals = [x for i, x in enumerate(P) if x not in old and x not in P[:i]]
            if fwd[:len(old)] != old or not _is_subsequence(fwd[len(old):], arrivals):
                raise Failure('insertion-order', dict(what=what, iterated=fwd),
                              dict(order='%r, then elements of %r in that order' % (old, arrivals)))
        elif kind == 'iand':
            fwd = _consistent_walk(s, what, may_hold=old, must_hold=[])
        elif kind == 'isub':
            fwd = _consistent_walk(s, what, may_hold=old, must_hold=[x for x in old if x not in P])
        else:
            fwd = _consistent_walk(s, what, may_hold=old + P, must_hold=[x for x in old if x not in P])
        ref[:] = fwd      # what stayed of the part taken before the failure is not claimed: the reference adopts the walk
        return s, ref
    try:
        if kind == 'or':
            r = s | o
        elif kind == 'and':
            r = s & o
        elif kind == 'sub':
            r = s - o
        else:
            r = s ^ o
    except Exception:
        return s, ref         # no result; the receiver is as before (checked by the caller against the unchanged reference)
    if checked:
        _consistent_walk(r, 'result of interrupted %s' % kind, may_hold=old + P, must_hold=[])
    return s, ref


# ----------------------------------------------------------------------------------------------------------------------
# one step: real operation + reference operation + step-specific clauses.  Returns (s, ref)
# ----------------------------------------------------------------------------------------------------------------------
def _unexpected(op, exc):
    return Failure('operation-completes', dict(op=op, raised='%s: %s' % (type(exc).__name__, exc)), 'no exception')


def step(cls, s, ref, op, checked=True):
    kind = op[0]
    try:
        if kind in ('add-unhashable', 'discard-unhashable') or (len(op) > 2 and op[2] in FAILING_FORMS):
            return _step_interrupted(cls, s, ref, op, checked)
        if kind == 'add':
            s.add(op[1])
            if op[1] not in ref:
                ref.append(op[1])
        elif kind == 'discard':
            s.discard(op[1])
            if op[1] in ref:
                ref.remove(op[1])
        elif kind == 'remove':
            if op[1] in ref:
                s.remove(op[1])
                ref.remove(op[1])
            else:
                try:
                    s.remove(op[1])      # absent: a KeyError is the usual answer; either way the contents stay
                except KeyError:
                    pass
        elif kind == 'pop':
            last = op[1]
            if ref:
                want = ref[-1] if last else ref[0]
                got = s.pop() if last else s.pop(last=False)
                if last:
                    ref.pop()
                else:
                    ref.pop(0)
                if checked and got != want:
                    raise Failure('pop-returns-end', dict(returned=got, last=last), dict(returned=want))
            else:
                try:
                    got = s.pop(last=last)
                except LookupError:      # KeyError today; which exception says "empty" is not part of the property
                    pass
                else:
                    if checked:
                        raise Failure('pop-returns-end', dict(returned=got, last=last, set='empty'), 'an exception: there is nothing to pop')
        elif kind == 'clear':
            s.clear()
            del ref[:]
        elif kind in ('ior', 'iand', 'isub', 'ixor'):
            elems = _operand_elems(ref, op[1], op[2])
            o = _operand(cls, s, op[1], op[2])
            if kind == 'ior':
                s |= o
                for x in elems:
                    if x not in ref:
                        ref.append(x)
            else:
                if kind == 'iand':
                    s &= o
                    want = [x for x in ref if x in elems]
                elif kind == 'isub':
                    s -= o
                    want = [x for x in ref if x not in elems]
                else:
                    s ^= o
                    want = [x for x in ref if x not in elems] + [x for x in elems if x not in ref]
                # contents only are claimed: the reference adopts the observed order
                fwd = _check_contents(s, want, 'receiver after %s' % kind)
                ref[:] = fwd
            if op[2] == 'oset' and checked:
                _check_contents(o, elems, 'operand after %s' % kind)
        elif kind in ('or', 'and', 'sub', 'xor'):
            elems = _operand_elems(ref, op[1], op[2])
            o = _operand(cls, s, op[1], op[2])
            if kind == 'or':
                r = s | o
                want = set(ref) | set(elems)
            elif kind == 'and':
                r = s & o
                want = set(ref) & set(elems)
            elif kind == 'sub':
                r = s - o
                want = set(ref) - set(elems)
            else:
                r = s ^ o
                want = set(ref) ^ set(elems)
            if checked:
                _check_contents(r, want, 'result of %s' % kind)
                for x in U + (ABSENT,):
                    if (x in r) != (x in want):
                        raise Failure('membership', dict(what='result of %s' % kind, element=x, result=(x in r)), dict(result=(x in want)))
        elif kind in ('iterrm', 'reviterrm'):
            R = op[1]
            old = list(ref)
            visited = []
            it = iter(s) if kind == 'iterrm' else reversed(s)
            guard = 0
            for x in it:
                visited.append(x)
                guard += 1
                if guard > 4 * (len(old) + 2):
                    break
                if x in R:
                    s.discard(x)
            want = old if kind == 'iterrm' else old[::-1]
            for x in R:
                if x in ref:
                    ref.remove(x)
            if checked and visited != want:
                raise Failure('iteration-with-removal' if kind == 'iterrm' else 'reversed-iteration-with-removal',
                              dict(visited=visited, removing=R), dict(visited=want))
        else:
            raise ValueError('unknown op %r' % (op,))
    except Failure:
        raise
    except Exception as e:    # the set algebra is total on these inputs
        raise _unexpected(op, e)
    return s, ref


def make(case):
    cls = CLASSES[case['cls']]
    init = case.get('init')
    ref = []
    try:
        if init is None:
            s = cls()
        else:
            form = case.get('init_form', 'list')
            if form == 'gen':
                s = cls(x for x in init)
            elif form == 'tuple':
                s = cls(tuple(init))
            elif form == 'oset':
                s = cls(OrderedSet(init))
            else:
                s = cls(list(init))
            for x in init:
                if x not in ref:
                    ref.append(x)
    except Exception as e:
        raise _unexpected(['init', init], e)
    return cls, s, ref


FULL_EQ_LEN = 3    # sequences up to this length get the full equality observation (they reach all 16 abstract states)


def _guarded(fn, on_timeout):
    """fn under a CPU-time limit: operations of the library iterate internally, a corrupt structure may loop for ever."""
    def wrapper(*args, **kw):
        if not _HANDLER:
            return fn(*args, **kw)
        try:
            signal.setitimer(signal.ITIMER_VIRTUAL, CPU_LIMIT_S)
            try:
                return fn(*args, **kw)
            finally:
                signal.setitimer(signal.ITIMER_VIRTUAL, 0)
        except _Timeout:
            return on_timeout(Failure('bounded-time', dict(cpu_seconds='> %s' % CPU_LIMIT_S),
                                      'every operation on a set of <= 7 elements terminates'), *args, **kw)
    return wrapper


def _run_case(case, check_every_step=False, full_eq_len=FULL_EQ_LEN):
    """Runs a case on the real code.  Checks the last step (and the state after it); with check_every_step all steps.
    Returns None or a Failure."""
    try:
        cls, s, ref = make(case)
        ops = case['ops']
        if not ops or check_every_step:
            observe(cls, s, ref)
        elif _bounded(iter(s), 'receiver') != ref:      # the constructor already fails: reported by the case without operations
            return None
    except Failure as f:
        return f if (not case['ops'] or check_every_step) else None
    n = len(ops)
    for i, op in enumerate(ops):
        _PROGRESS[0] = i
        last = (i == n - 1) or check_every_step
        try:
            s, ref = step(cls, s, ref, op, checked=True)
            if not last:
                if _bounded(iter(s), 'receiver') != ref:      # the prefix already fails: reported by the shorter case
                    return None
            else:
                observe(cls, s, ref, level=2 if (check_every_step or n <= full_eq_len) else 1, salt=n + len(ref) + i)
        except Failure as f:
            # a failure inside the prefix belongs to the shorter case (every prefix is enumerated as a case of its own)
            return f if last else None
    return None


_PROGRESS = [0]


def _timeout_in_case(f, case, check_every_step=False, full_eq_len=None):
    # a timeout inside the prefix belongs to the shorter case
    return f if (check_every_step or _PROGRESS[0] >= len(case['ops']) - 1) else None


run_case = _guarded(_run_case, _timeout_in_case)


def replay(item_name, input):
    f = run_case(input, check_every_step=True)
    if f is None:
        return []
    return [dict(clause=f.clause, observed=f.observed, required=f.required)]


# ----------------------------------------------------------------------------------------------------------------------
# alphabets
# ----------------------------------------------------------------------------------------------------------------------
def _subsets_nonempty():
    return [s for s in SUBSETS if s]


CORE = ([['add', x] for x in U] + [['discard', x] for x in U] + [['remove', x] for x in U] +
        [['pop', True], ['pop', False], ['clear']] + [['iterrm', r] for r in _subsets_nonempty()])


def _algebra_alphabet():
    a = [['add', x] for x in U] + [['discard', x] for x in U] + [['pop', True], ['pop', False], ['clear'], ['remove', ABSENT]]
    for i, o in enumerate(ORDERED):
        a.append(['ior', o, FORMS[i % 3]])
    for k in ('iand', 'isub', 'ixor'):
        for i, o in enumerate(SCRAMBLED):
            a.append([k, o, FORMS[(i + len(k)) % 3]])
    for k in ('or', 'and', 'sub', 'xor'):
        for i, o in enumerate(SCRAMBLED):
            a.append([k, o, FORMS[(i + len(k)) % 2]])
    for k in ('ior', 'iand', 'isub', 'ixor', 'or', 'and', 'sub', 'xor'):
        a.append([k, [], 'self'])
    a += [['reviterrm', r] for r in _subsets_nonempty()]
    a += [['iterrm', list(U)], ['iterrm', [1]]]
    return a


ALGEBRA = _algebra_alphabet()


def _roots():
    roots = [dict(init=None)]
    for i, o in enumerate(ORDERED):
        roots.append(dict(init=o, init_form=('list', 'tuple', 'gen', 'oset')[i % 4]))
    roots.append(dict(init=[1, 1, 0, 1, 2, 0], init_form='list'))     # duplicates: first arrival counts
    roots.append(dict(init=[2, 2], init_form='gen'))
    return roots


def _sequences(alphabet, depth):
    """All sequences of length 1..depth in order of increasing length (index tuples)."""
    n = len(alphabet)
    for d in range(1, depth + 1):
        for idx in itertools.product(range(n), repeat=d):
            yield idx


def _pattern_sequences(patterns):
    """patterns: list of patterns, a pattern is a list of alphabets (one per position).  Yields op lists."""
    for pattern in patterns:
        for ops in itertools.product(*pattern):
            yield ops


def _enumerate(ctx, heads, alphabet, depth, full_eq_len=FULL_EQ_LEN, patterns=None):
    """heads: list of case dicts without 'ops'.  Each sequence is a case of its own; the last step is checked.
    With `patterns` the sequences are those of the patterns (alphabet/depth unused) and the empty sequence is left out."""
    i = -1
    noted = False
    timeouts = 0
    for head in heads:
        if patterns is None:
            sequences = ([alphabet[j] for j in idx] for idx in itertools.chain([()], _sequences(alphabet, depth)))
        else:
            sequences = _pattern_sequences(patterns)
        for ops in sequences:
            i += 1
            if i % ctx.nshards != ctx.shard:
                continue
            if (i & 255) == ctx.shard and ctx.expired():
                ctx.exhausted = False
                return False
            case = dict(head, ops=list(ops))
            record = len(ctx.keys) < KEY_CAP
            if not record and not noted:
                noted = True
                ctx.note('distinct_nontrivial is capped at %d recorded keys per shard; every sequence is distinct by construction' % KEY_CAP)
            ctx.case(key=None, nontrivial=record, sample=case if i < 3 * ctx.nshards and len(ops) >= 2 else None)
            f = run_case(case, full_eq_len=full_eq_len)
            if f is not None:
                ctx.check(False, clause=f.clause, input=case, observed=f.observed, required=f.required)
                if f.clause == 'bounded-time':
                    timeouts += 1
                    if timeouts >= MAX_TIMEOUTS:
                        ctx.exhausted = False
                        ctx.note('enumeration stopped after %d cases that ran into the CPU limit' % timeouts)
                        return False
    return True


# ----------------------------------------------------------------------------------------------------------------------
# interrupted operations: an operation that raises part-way, after which the set stays in use
# ----------------------------------------------------------------------------------------------------------------------
def _interrupt_alphabets():
    ior = [['ior', o, f] for o in ORDERED for f in FAILING_FORMS]                       # 32: every ordered part taken before the failure
    rest = []
    for k in ('iand', 'isub', 'ixor'):
        for i, o in enumerate(SCRAMBLED):
            rest.append([k, o, FAILING_FORMS[(i + len(k)) % 2]])
    for k in BINARY:
        for i, o in enumerate(SCRAMBLED):
            rest.append([k, o, FAILING_FORMS[(i + len(k) + 1) % 2]])
    rest += [['add-unhashable'], ['discard-unhashable']]
    follow = ([['add', x] for x in U] + [['discard', x] for x in U] + [['pop', True], ['pop', False], ['clear'], ['remove', ABSENT]] +
              [['ior', [0, 1, 2], 'list'], ['ior', [2, 1], 'oset'], ['ior', [1], 'tuple'], ['ior', [], 'self'],
               ['isub', [1], 'list'], ['ixor', [2, 0], 'tuple'], ['or', [2, 1, 0], 'list'],
               ['iterrm', list(U)], ['reviterrm', list(U)], ['iterrm', [1]]])
    return ior, rest, follow


INTERRUPT_IOR, INTERRUPT_REST, FOLLOW = _interrupt_alphabets()
INTERRUPT = INTERRUPT_IOR + INTERRUPT_REST
INTERRUPT_ALL = INTERRUPT + FOLLOW
INTERRUPT_HEADS_3 = (None, [1], [0, 2], [2, 0, 1])     # constructors after which length-3 sequences are enumerated in the quick tier


def _interrupted_plan(ctx, roots):
    """(heads, patterns) of the interrupted-operations part of algebra-sequences"""
    all_heads = [dict(r, cls=c) for r in roots for c in ('OrderedSet', 'QuerySet')]
    q_heads = [h for h in all_heads if h['cls'] == 'QuerySet']
    few = [dict(cls='QuerySet', init=i) if i is None else dict(cls='QuerySet', init=i, init_form='list') for i in INTERRUPT_HEADS_3]
    plan = [(all_heads, [[INTERRUPT], [INTERRUPT, FOLLOW]]),
            (q_heads if ctx.quick else all_heads, [[FOLLOW, INTERRUPT]]),
            (few if ctx.quick else all_heads, [[INTERRUPT_IOR, FOLLOW, FOLLOW]])]
    if not ctx.quick:
        plan.append((few, [[INTERRUPT_ALL, INTERRUPT_IOR, INTERRUPT_ALL]]))
    return plan


@item('core-sequences',
      stands_in_for=['xtuml.tools.OrderedSet.add', 'xtuml.tools.OrderedSet.discard', 'xtuml.tools.OrderedSet.pop',
                     'xtuml.tools.OrderedSet.__iter__', 'xtuml.tools.OrderedSet.__reversed__', 'xtuml.tools.OrderedSet.__eq__',
                     'xtuml.tools.OrderedSet.__len__', 'xtuml.tools.OrderedSet.__contains__', 'xtuml.meta.QuerySet.first',
                     'xtuml.meta.QuerySet.last', 'collections.abc.MutableSet.remove', 'collections.abc.MutableSet.clear'],
      bound='every sequence of length<=5 (quick) / <=6 (thorough) on QuerySet and length<=4 / <=5 on OrderedSet, starting empty, over the '
            '19 operations add/discard/remove x in {0,1,2}, pop first/last, clear, iterate-removing-visited-elements-in-R (7 non-empty R); '
            'every prefix is a case of its own, all observations after its last step',
      shards=16, weight=3)
def core_sequences(ctx):
    dq = 5 if ctx.quick else 6
    ok = _enumerate(ctx, [dict(cls='QuerySet', init=None)], CORE, dq)
    if ok:
        ok = _enumerate(ctx, [dict(cls='OrderedSet', init=None)], CORE, dq - 1)
    if ok:
        ctx.exhausted = True
    if ctx.shard == 0:
        ctx.note('== against unordered collections (set), against iterables with duplicates and against non-iterables is not claimed by the property and not checked')


@item('algebra-sequences',
      stands_in_for=['xtuml.tools.OrderedSet.__init__', 'collections.abc.MutableSet.__ior__', 'collections.abc.MutableSet.__iand__',
                     'collections.abc.MutableSet.__isub__', 'collections.abc.MutableSet.__ixor__', 'collections.abc.Set.__or__',
                     'collections.abc.Set.__and__', 'collections.abc.Set.__sub__', 'collections.abc.Set.__xor__'],
      bound='constructor from each of the 16 duplicate-free ordered lists over {0,1,2} (as list/tuple/generator/OrderedSet), from nothing and '
            'from 2 iterables with duplicates, for OrderedSet and QuerySet, followed by every sequence of length<=2 (quick: plus length 3 after the constructor from [2,0,1] on QuerySet; thorough: length<=3 for all '
            'constructors on QuerySet, <=2 on OrderedSet) over %d operations: add/discard/pop/clear/remove-absent, |= with 16 ordered operands, &= -= ^= and | & - ^ with the 8 subsets, the same 8 '
            'operators with the receiver itself as operand, reversed-iteration with removal (7 R), forward iteration with removal (2 R).  '
            'Interrupted operations (they raise part-way, the set stays in use): |= whose right-hand side delivers each of the 16 duplicate-free '
            'ordered lists over {0,1,2} and then fails (a generator that raises / a list ending in an unhashable element), &= -= ^= | & - ^ with a '
            'right-hand side that fails after each of the 8 subsets, add/discard of an unhashable element (%d interrupted operations I), and %d '
            'completing operations F (add/discard/pop/clear/remove-absent, |= -= ^= |, iteration with removal forward and reversed): after all '
            'constructors on both classes every I and every I,F; every F,I (quick: QuerySet; thorough: both classes); every interrupted |= '
            'followed by F,F (quick: QuerySet from nothing, [1], [0,2], [2,0,1]; thorough: all constructors, both classes, plus after those 4 '
            'every length-3 sequence over I and F with an interrupted |= in the middle)' % (len(ALGEBRA), len(INTERRUPT), len(FOLLOW)),
      shards=16, weight=3)
def algebra_sequences(ctx):
    roots = _roots()
    all_heads = [dict(r, cls=c) for r in roots for c in ('OrderedSet', 'QuerySet')]
    if ctx.quick:
        plan = [(all_heads, 2), ([dict(roots[15], cls='QuerySet')], 3)]
    else:
        plan = [([h for h in all_heads if h['cls'] == 'OrderedSet'], 2), ([h for h in all_heads if h['cls'] == 'QuerySet'], 3)]
    ok = True
    for heads, patterns in _interrupted_plan(ctx, roots):      # the small part first: it is always enumerated completely
        ok = ok and _enumerate(ctx, heads, None, 0, full_eq_len=1, patterns=patterns)
    for heads, depth in plan:
        ok = ok and _enumerate(ctx, heads, ALGEBRA, depth, full_eq_len=1)
    if ok:
        ctx.exhausted = True
    if ctx.shard == 0:
        ctx.note('after an operation that raised part-way the property is taken to claim a consistent set that invented nothing and lost nothing '
                 'it had no reason to touch; whether the part taken before the failure stays, and which exception comes out, is not claimed. '
                 'A constructor whose source fails yields no set and is not checked')
        ctx.note('order of the results of | & - ^ and of the survivors/arrivals of &= -= ^= is not claimed by the property: contents only '
             '(the reference adopts the observed order after &= -= ^=)')


# ----------------------------------------------------------------------------------------------------------------------
# random long sequences over a larger universe
# ----------------------------------------------------------------------------------------------------------------------
def _random_op(rng, universe):
    r = rng.random()
    x = rng.choice(universe)
    if r < 0.30:
        return ['add', x]
    if r < 0.40:
        return ['discard', x]
    if r < 0.45:
        return ['remove', x]
    if r < 0.52:
        return ['pop', rng.random() < 0.5]
    if r < 0.53:
        return ['clear'] if rng.random() < 0.7 else [rng.choice(['add-unhashable', 'discard-unhashable'])]
    k = rng.randint(0, len(universe))
    operand = rng.sample(universe, k)
    q = rng.random()
    form = rng.choice(FORMS) if q < 0.88 else ('self' if q < 0.93 else rng.choice(FAILING_FORMS))
    if r < 0.63:
        return ['ior', operand, form]
    if r < 0.70:
        return [rng.choice(['iand', 'isub', 'ixor']), operand, form]
    if r < 0.82:
        return [rng.choice(['or', 'and', 'sub', 'xor']), operand, form]
    return [rng.choice(['iterrm', 'iterrm', 'reviterrm']), operand]


def _shrink(case, clause, deadline_checks=400, seconds=8.0):
    """Greedy removal of operations while the same clause still fails."""
    import time
    ops = list(case['ops'])
    budget = deadline_checks
    stop = time.time() + seconds
    changed = True
    while changed and budget > 0:
        changed = False
        for i in range(len(ops) - 1, -1, -1):
            if time.time() > stop:
                budget = 0
                break
            cand = dict(case, ops=ops[:i] + ops[i + 1:])
            budget -= 1
            f = run_case(cand, check_every_step=True)
            if f is not None and f.clause == clause:
                ops = cand['ops']
                changed = True
            if budget <= 0:
                break
    return dict(case, ops=ops)


@item('random-long',
      stands_in_for=['xtuml.tools.OrderedSet', 'xtuml.meta.QuerySet'],
      bound='random sequences of 120 operations (all operation kinds, operands drawn from a 6-element universe incl. 0; about 1 in 14 of the algebra '
            'operations is interrupted: its right-hand side fails after the drawn elements), every step checked; '
            'quick: 150 sequences per shard, thorough: until the time share ends (at most 20000 per shard)',
      shards=16, weight=1)
def random_long(ctx):
    universe = [0, 1, 2, 'a', 'b', '']
    n = 150 if ctx.quick else 20000
    done = failures = 0
    for k in range(n):
        if ctx.expired():
            break
        case = dict(cls=('QuerySet', 'OrderedSet')[k % 2], init=None if k % 3 else rng_sample(ctx.rng, universe),
                    ops=[_random_op(ctx.rng, universe) for _ in range(120)])
        ctx.case(key=None, nontrivial=True, sample=dict(case, ops=case['ops'][:6]) if k == 0 else None)
        done += 1
        f = run_case_long(case)
        if f is not None:
            fail, upto = f
            small = _shrink(dict(case, ops=case['ops'][:upto + 1]), fail.clause)
            f2 = run_case(small, check_every_step=True)
            if f2 is None:
                small, f2 = dict(case, ops=case['ops'][:upto + 1]), fail
            ctx.check(False, clause=f2.clause, input=small, observed=f2.observed, required=f2.required)
            failures += 1
            if failures >= 5:
                ctx.note('sampling stopped after 5 failing sequences')
                break
    ctx.exhausted = None   # sampling, not exhaustive
    ctx.note('random sampling (seeded): %d sequences in this shard' % done)


def rng_sample(rng, universe):
    return rng.sample(universe, rng.randint(0, len(universe)))


def _run_case_long(case):
    """Every step checked; membership/equality observations use the universe of the short items plus the elements present."""
    try:
        cls, s, ref = make(case)
        observe(cls, s, ref)
    except Failure as f:
        return f, -1
    for i, op in enumerate(case['ops']):
        _PROGRESS[0] = i
        try:
            s, ref = step(cls, s, ref, op, checked=True)
            observe(cls, s, ref, level=2 if i % 8 == 0 else 1, salt=i)
            for x in ref:
                if x not in s:
                    raise Failure('membership', dict(element=x, result=False), dict(result=True))
        except Failure as f:
            return f, i
    return None


run_case_long = _guarded(_run_case_long, lambda f, case: (f, _PROGRESS[0]))
