"""C04 program space: schema, initial populations, program generator, and the harness that runs a program on the real
interpreter (bridgepoint.interpret.run_function on a Domain built by ooaofooa.mk_component from generated model text)
and compares return value + final population with the reference evaluation of ref_oal.  Used by c04 and c08."""
import signal

import vlib.fresh_ply  # noqa: F401
import xtuml
from bridgepoint import interpret, ooaofooa

from bounded import _c04_bp as bp
from bounded import ref_oal as R

# ------------------------------------------------------------------------------------------------- schema
# A(a_id, i, s, b, prev_id)  B(b_id, n, t, a_id, a2_id)  L(l_id, w, a_id, b_id)
# R1  A 0..1 --- 0..* B   (B formalizes)         R2  A 0..1 --- 0..1 B   (B formalizes)
# R3  A 0..1 'leads' --- 0..1 'follows' A  (reflexive; the instance at the 'follows' end holds prev_id)
# R4  A 0..* --- 0..* B with association class L


def make_schema():
    s = R.Schema()
    s.classes['A'] = [R.Attr('a_id', 'unique_id', 'id'), R.Attr('i', 'integer'), R.Attr('s', 'string'), R.Attr('b', 'boolean'),
                      R.Attr('prev_id', 'unique_id', 'ref', 'R3', 'a_id', 'A')]
    s.classes['B'] = [R.Attr('b_id', 'unique_id', 'id'), R.Attr('n', 'integer'), R.Attr('t', 'string'),
                      R.Attr('a_id', 'unique_id', 'ref', 'R1', 'a_id', 'A'), R.Attr('a2_id', 'unique_id', 'ref', 'R2', 'a_id', 'A')]
    s.classes['L'] = [R.Attr('l_id', 'unique_id', 'id'), R.Attr('w', 'integer'),
                      R.Attr('a_id', 'unique_id', 'ref', 'R4', 'a_id', 'A'), R.Attr('b_id', 'unique_id', 'ref', 'R4', 'b_id', 'B')]
    s.rels['R1'] = R.Rel('R1', 'simple', 'A', 'B', form_many=True)
    s.rels['R2'] = R.Rel('R2', 'simple', 'A', 'B')
    s.rels['R3'] = R.Rel('R3', 'simple', 'A', 'A', part_phrase='leads', form_phrase='follows')
    s.rels['R4'] = R.Rel('R4', 'linked', 'A', 'B', 'L', part_many=True, form_many=True)
    for h in HELPERS:
        c = R.Callable_(h['kind'], h['name'], [(n, t) for n, t in h['params']], h['ret'], h['body'], h['owner'], pure=False)
        if h['kind'] == 'function':
            s.functions[h['name']] = c
        elif h['kind'] == 'bridge':
            s.bridges[(h['owner'], h['name'])] = c
        else:
            s.operations[(h['owner'], h['name'])] = c
    return s


# Callable elements of the model whose invocation is *observable*: every invocation leaves a trace in the population (a new
# B whose n is the tag passed by the caller - creation order = invocation order; the instance operation adds the tag to
# self.i) and delivers the value passed in.  C04's own programs never invoke them (invocations belong to C15); C08 uses them
# as operands of and / or / not, in conditions, where clauses and arguments.
def _trace_body(result):
    return [['create', 'b9', 'B'], ['assign', ['attr', ['var', 'b9'], 'n'], ['param', 'n']]] + ([['return', result]] if result else [])


_CN = [['c', 'boolean'], ['n', 'integer']]
HELPERS = [
    dict(kind='function', name='fb', owner=None, params=_CN, ret='bool', body=_trace_body(['param', 'c'])),
    dict(kind='function', name='fi', owner=None, params=[['n', 'integer']], ret='int', body=_trace_body(['param', 'n'])),
    dict(kind='function', name='fv', owner=None, params=[['n', 'integer']], ret=None, body=_trace_body(None)),
    dict(kind='bridge', name='bb', owner='EX', params=_CN, ret='bool', body=_trace_body(['param', 'c'])),
    dict(kind='cop', name='cb', owner='A', params=_CN, ret='bool', body=_trace_body(['param', 'c'])),
    dict(kind='iop', name='ib', owner='A', params=_CN, ret='bool',
         body=[['assign', ['attr', ['self'], 'i'], ['bin', '+', ['attr', ['self'], 'i'], ['param', 'n']]], ['return', ['param', 'c']]]),
]
_RET_NAME = {'bool': 'boolean', 'int': 'integer', 'str': 'string', None: 'void'}


def make_model(functions=()):
    m = bp.BPModel('C04')
    m.klass('A', [('a_id', 'unique_id'), ('i', 'integer'), ('s', 'string'), ('b', 'boolean')])
    m.klass('B', [('b_id', 'unique_id'), ('n', 'integer'), ('t', 'string')])
    m.klass('L', [('l_id', 'unique_id'), ('w', 'integer')])
    m.simple(1, 'B', 'A', 'a_id', 'a_id', form_many=True)
    m.simple(2, 'B', 'A', 'a_id', 'a2_id', form_many=False)
    m.simple(3, 'A', 'A', 'a_id', 'prev_id', form_many=False, form_phrase='follows', part_phrase='leads')
    m.linked(4, 'A', 'a_id', 'B', 'b_id', 'L', 'a_id', 'b_id')
    for name, body, params, ret in functions:
        m.function(name, body, params, ret)
    bridges = {}
    for h in HELPERS:
        params, ret, text = tuple((n, t) for n, t in h['params']), _RET_NAME[h['ret']], R.render(h['body'])
        if h['kind'] == 'function':
            m.function(h['name'], text, params, ret)
        elif h['kind'] == 'bridge':
            bridges.setdefault(h['owner'], []).append((h['name'], text, params, ret))
        else:
            m.operation(h['owner'], h['name'], text, params, ret, instance_based=(h['kind'] == 'iop'))
    for ee in sorted(bridges):
        m.external_entity(ee, bridges[ee])
    return m


POPULATIONS = {
    'rich': dict(
        A=[dict(a_id=1, i=1, s='x', b=True), dict(a_id=2, i=2, s='y', b=False), dict(a_id=3, i=3, s='x', b=True)],
        B=[dict(b_id=11, n=10, t='p'), dict(b_id=12, n=20, t='q'), dict(b_id=13, n=30, t='p')],
        L=[dict(l_id=21, w=5), dict(l_id=22, w=6)],
        links=dict(R1=[[0, 0], [0, 1]], R2=[[1, 1]], R3=[[0, 1]], R4=[[0, 0, 0]])),
    'sparse': dict(
        A=[dict(a_id=1, i=2, s='', b=False)],
        B=[dict(b_id=11, n=0, t='x'), dict(b_id=12, n=2, t='x')],
        L=[], links=dict(R1=[], R2=[], R3=[], R4=[])),
    'empty': dict(A=[], B=[], L=[], links=dict(R1=[], R2=[], R3=[], R4=[])),
}
POP_NAMES = ['rich', 'sparse', 'empty']

# Populations for the association class L of R4 in which the participants take part in 0, 1, 2 and 3 link instances:
# A[k] (i = 10 + k) is linked with k instances of B, B[0..3] (n = 10, 20, 30, 40) with 3, 2, 1, 0 instances of A.  The link
# instances are related in an order that differs from the creation order of the partners; R1 / R2 / R3 give the hops before
# and behind R4 something to reach.  'links-rev' holds the same links with the instances of B and L created in reverse order.
POPULATIONS['links'] = dict(
    A=[dict(a_id=1, i=10, s='x', b=True), dict(a_id=2, i=11, s='y', b=False), dict(a_id=3, i=12, s='x', b=True), dict(a_id=4, i=13, s='', b=False)],
    B=[dict(b_id=11, n=10, t='p'), dict(b_id=12, n=20, t='q'), dict(b_id=13, n=30, t='p'), dict(b_id=14, n=40, t='')],
    L=[dict(l_id=21 + j, w=11 + j) for j in range(6)],
    links=dict(R1=[[0, 3], [1, 1], [1, 2]], R2=[[2, 0], [3, 3]], R3=[[1, 3], [3, 2]],
               R4=[[3, 2, 0], [2, 1, 1], [1, 0, 2], [3, 0, 3], [2, 0, 4], [3, 1, 5]]))
POPULATIONS['links-rev'] = dict(
    A=POPULATIONS['links']['A'], B=POPULATIONS['links']['B'][::-1], L=POPULATIONS['links']['L'][::-1],
    links=dict(R1=[[0, 0], [1, 2], [1, 1]], R2=[[2, 3], [3, 0]], R3=[[1, 3], [3, 2]],
               R4=[[3, 1, 5], [2, 2, 4], [1, 3, 3], [3, 3, 2], [2, 3, 1], [3, 2, 0]]))

_proc = {}


def population(pop):
    """A population is named (POPULATIONS) or given as rows + links."""
    return pop if isinstance(pop, dict) else POPULATIONS[pop]


def random_population(rng):
    """A small arbitrary population that respects the multiplicities of R1..R4."""
    # up to 4 link instances: an instance of A or B may take part in several links of R4 (about half of the populations with
    # two or more link instances have such a participant)
    na, nb, nl = rng.randint(0, 3), rng.randint(0, 3), rng.choice([0, 1, 2, 2, 3, 4])
    pop = dict(A=[dict(a_id=1 + i, i=rng.choice([0, 1, 2, 3]), s=rng.choice(['', 'x', 'y']), b=rng.random() < 0.5) for i in range(na)],
               B=[dict(b_id=11 + i, n=rng.choice([0, 2, 10, 20]), t=rng.choice(['', 'x', 'p'])) for i in range(nb)],
               L=[dict(l_id=21 + i, w=rng.choice([0, 5, 6])) for i in range(nl)], links=dict(R1=[], R2=[], R3=[], R4=[]))
    if na:
        for b in range(nb):
            if rng.random() < 0.5:
                pop['links']['R1'].append([rng.randrange(na), b])
        free_b = list(range(nb))
        rng.shuffle(free_b)
        for a in range(na):
            if free_b and rng.random() < 0.4:
                pop['links']['R2'].append([a, free_b.pop()])
        order = list(range(na))
        rng.shuffle(order)
        for p, f in zip(order, order[1:]):
            if rng.random() < 0.5:
                pop['links']['R3'].append([p, f])
        pairs = set()
        for l in range(nl):
            if nb and rng.random() < 0.7:
                a, b = rng.randrange(na), rng.randrange(nb)
                if (a, b) not in pairs:
                    pairs.add((a, b))
                    pop['links']['R4'].append([a, b, l])
    return pop


def schema():
    if 'schema' not in _proc:
        _proc['schema'] = make_schema()
    return _proc['schema']


def bp_loader():
    """Loader holding the C04 model (classes, associations, function prog(n: integer)), once per process."""
    if 'loader' not in _proc:
        _proc['loader'] = bp.loader_with(make_model([('prog', 'return 0;', (('n', 'integer'),), 'integer')]).sql())
    return _proc['loader']


def bp_metamodel():
    """The ooaofooa population of the C04 model, loaded once per process."""
    if 'mm' not in _proc:
        _proc['mm'] = bp_loader().build_metamodel()
    return _proc['mm']


def fresh_domain():
    return ooaofooa.mk_component(bp_metamodel())


# ------------------------------------------------------------------------------------------------- populations
def populate_ref(sch, pop):
    w = R.World(sch)
    rows = dict((c, [w.create(c, **vals) for vals in pop.get(c, [])]) for c in sch.classes)
    for rel_name, tuples in pop['links'].items():
        rel = sch.rels[rel_name]
        for t in tuples:
            if rel.kind == 'simple':
                w.links[rel_name].append((rows[rel.part][t[0]], rows[rel.form][t[1]]))
            else:
                w.links[rel_name].append((rows[rel.part][t[0]], rows[rel.form][t[1]], rows[rel.link][t[2]]))
    return w


def populate_real(domain, sch, pop):
    rows = dict((c, [domain.new(c, **vals) for vals in pop.get(c, [])]) for c in sch.classes)
    for rel_name, tuples in pop['links'].items():
        rel = sch.rels[rel_name]
        numb = int(rel_name[1:])
        for t in tuples:
            if rel.kind == 'simple':
                xtuml.relate(rows[rel.part][t[0]], rows[rel.form][t[1]], numb, rel.form_phrase if rel.reflexive else '')
            else:
                xtuml.relate(rows[rel.part][t[0]], rows[rel.link][t[2]], numb)
                xtuml.relate(rows[rel.link][t[2]], rows[rel.form][t[1]], numb)
    return rows


def snapshot_real(domain, sch):
    """Same shape as ref_oal.snapshot, read through the public query / navigation API."""
    index, inst, ext = {}, {}, {}
    for cls in sorted(sch.classes):
        ext[cls] = list(domain.select_many(cls))
        rows = []
        for i, r in enumerate(ext[cls]):
            index[id(r)] = (cls, i)
            vals = {}
            for a in sch.classes[cls]:
                if a.kind in ('plain', 'id'):
                    vals[a.name] = getattr(r, a.name)
            rows.append(vals)
        inst[cls] = rows

    def nav(r, cls, rel, phrase=''):
        return [index.get(id(x), ('dead', cls)) for x in xtuml.navigate_many(r).nav(cls, rel, phrase)()]

    links = {}
    for rel_name in sorted(sch.rels):
        rel = sch.rels[rel_name]
        got, back = [], []
        if rel.kind == 'simple':
            fp, pp = (rel.form_phrase, rel.part_phrase) if rel.reflexive else ('', '')
            for p in ext[rel.part]:
                got += [(index[id(p)], f) for f in nav(p, rel.form, rel_name, fp)]
            for f in ext[rel.form]:
                back += [(p, index[id(f)]) for p in nav(f, rel.part, rel_name, pp)]
        else:
            for l in ext[rel.link]:
                ones, oths = nav(l, rel.part, rel_name), nav(l, rel.form, rel_name)
                if len(ones) == 1 and len(oths) == 1:
                    got.append((ones[0], oths[0], index[id(l)]))
                elif ones or oths:
                    got.append(('partial', tuple(ones), tuple(oths), index[id(l)]))
            for p in ext[rel.part]:
                for l in nav(p, rel.link, rel_name):
                    lrow = ext[rel.link][l[1]] if l[0] == rel.link else None
                    for f in (nav(lrow, rel.form, rel_name) if lrow is not None else [('dead', rel.form)]):
                        back.append((index[id(p)], f, l))
        links[rel_name] = sorted(got, key=repr)
        if sorted(back, key=repr) != links[rel_name]:
            links[rel_name + ' (seen from the other end)'] = sorted(back, key=repr)
    # referential attributes of linked instances
    for cls in sch.classes:
        for i, r in enumerate(ext[cls]):
            for a in sch.classes[cls]:
                if a.kind == 'ref':
                    v = getattr(r, a.name)
                    if v is not None:
                        inst[cls][i][a.name] = v
    return dict(instances=inst, links=links)


class IdMap(object):
    """Identifiers generated by `create` are compared up to a consistent one-to-one renaming."""

    def __init__(self):
        self.fwd, self.bwd = {}, {}

    def same(self, ref, real):
        if isinstance(ref, R.Id):
            if isinstance(real, bool) or not isinstance(real, int):
                return False
            if ref.key[0] == 'fix':
                return real == ref.key[1]
            if ref in self.fwd or real in self.bwd:
                return self.fwd.get(ref) == real and self.bwd.get(real) == ref
            self.fwd[ref], self.bwd[real] = real, ref
            return True
        if isinstance(ref, (bool, int)):
            return isinstance(real, (int, float)) and real == ref
        if ref is None:
            return real is None
        return type(real) is type(ref) and real == ref


def plain(v):
    if isinstance(v, R.Id):
        return repr(v)
    if isinstance(v, dict):
        return dict((k, plain(x)) for k, x in v.items())
    if isinstance(v, (list, tuple)):
        return [plain(x) for x in v]
    return v


def differences(ref_result, ref_snap, real_result, real_snap):
    """[] when return value and final population agree, else short descriptions."""
    ids = IdMap()
    out = []
    for cls in sorted(ref_snap['instances']):
        a, b = ref_snap['instances'][cls], real_snap['instances'].get(cls, [])
        if len(a) != len(b):
            out.append('%s: %d instances, reference has %d' % (cls, len(b), len(a)))
            continue
        for i, (ra, rb) in enumerate(zip(a, b)):
            for name in ra:
                if name not in rb or not ids.same(ra[name], rb[name]):
                    out.append('%s[%d].%s = %r, reference has %r' % (cls, i, name, rb.get(name), plain(ra[name])))
    for rel in sorted(set(ref_snap['links']) | set(real_snap['links'])):
        a = [list(t) for t in ref_snap['links'].get(rel, [])]
        b = [list(t) for t in real_snap['links'].get(rel, [])]
        if plain(a) != plain(b):
            out.append('links %s = %r, reference has %r' % (rel, plain(b), plain(a)))
    if not ids.same(ref_result, real_result):
        out.append('returned %r, reference returns %r' % (real_result, plain(ref_result)))
    return out


# ------------------------------------------------------------------------------------------------- running
class Timeout(BaseException):
    pass


def _alarm(signum, frame):
    raise Timeout()


TIMEOUT_CPU_S = 5.0


def with_timeout(fn, seconds=TIMEOUT_CPU_S):
    """Run fn under a limit on the *CPU time* of this process (robust against a loaded machine)."""
    warm_up()
    old = signal.signal(signal.SIGVTALRM, _alarm)
    signal.setitimer(signal.ITIMER_VIRTUAL, seconds, 0.5)      # repeats: a handler that swallows the exception cannot stop it
    try:
        return fn()
    finally:
        signal.setitimer(signal.ITIMER_VIRTUAL, 0)
        signal.signal(signal.SIGVTALRM, old)


def warm_up():
    """PLY builds the OAL tables on the first parse of a process (seconds): keep that out of the timed region."""
    if 'warm' not in _proc:
        from bridgepoint import oal
        oal.parse('return 1;')
        _proc['warm'] = True


def run_reference(tree, pop_name, max_steps=600, params=None, logic='strict', where_effects=False):
    """(result, snapshot) of the reference evaluation; raises OutOfDomain."""
    sch = schema()
    w = populate_ref(sch, population(pop_name))
    m = R.Machine(w, max_steps=max_steps, logic=logic, where_effects=where_effects)
    try:
        result = with_timeout(lambda: m.run_body(tree, params), 10.0)
    except Timeout:
        raise R.OutOfDomain('reference evaluation exceeds its time budget')
    return result, R.snapshot(w), m


def run_real(text, pop_name, params=None):
    """(result, snapshot, error) of bridgepoint.interpret.run_function on a fresh Domain with the population."""
    sch = schema()
    domain = fresh_domain()
    populate_real(domain, sch, population(pop_name))
    try:
        result = with_timeout(lambda: interpret.run_function(domain, 'prog', text, dict(params or {})))
    except Timeout:
        return None, None, 'timeout'
    except Exception as e:       # the property covers error-free programs: any exception is a finding
        return None, None, '%s: %s' % (type(e).__name__, e)
    return result, snapshot_real(domain, sch), None


def check_program(tree, pop_name, text=None, style=None):
    """Run one program both ways.  Returns None when the program is outside the property for this population,
    else (clause, observed, required) lists: [] when it passes."""
    try:
        ref_result, ref_snap, _ = run_reference(tree, pop_name)
    except R.OutOfDomain:
        return None
    text = text if text is not None else R.render(tree, style)
    result, snap, err = run_real(text, pop_name)
    if err == 'timeout':
        return [('bounded-time', 'no result within %g s of CPU time' % TIMEOUT_CPU_S, 'terminates (the reference needs < 600 steps)')]
    if err:
        return [('result-and-final-population', err, dict(returns=plain(ref_result)))]
    diff = differences(ref_result, ref_snap, result, snap)
    if diff:
        return [('result-and-final-population', diff[:6], dict(returns=plain(ref_result), population=plain(ref_snap)))]
    return []


# ------------------------------------------------------------------------------------------------- generator
VARS = {'int': ['x', 'y', 'z'], 'str': ['u', 'v'], 'bool': ['p', 'q'], 'id': ['k'],
        'A': ['a1', 'a2'], 'B': ['b1', 'b2'], 'L': ['l1', 'l2'], 'A*': ['as1'], 'B*': ['bs1'], 'L*': ['ls1'],
        'T': ['t1', 't2'], 'T*': ['ts1']}          # T: third class of C15's wide model
TYPE_OF = dict(integer='int', string='str', boolean='bool', unique_id='id')


class RandomChooser(object):
    def __init__(self, rng):
        self.rng = rng

    def pick(self, seq):
        return seq[self.rng.randrange(len(seq))]

    def weighted(self, pairs):
        total = sum(w for _, w in pairs)
        r = self.rng.random() * total
        for v, w in pairs:
            r -= w
            if r < 0:
                return v
        return pairs[-1][0]

    def chance(self, p):
        return self.rng.random() < p


class ReplayChooser(object):
    """Systematic enumeration: follows a prefix of choice indices, then always takes the first alternative."""

    def __init__(self, prefix):
        self.prefix, self.trace = prefix, []

    def pick(self, seq):
        k = len(self.trace)
        c = self.prefix[k] if k < len(self.prefix) else 0
        self.trace.append((c, len(seq)))
        return seq[c]

    def weighted(self, pairs):
        return self.pick([v for v, w in pairs if w > 0])

    def chance(self, p):
        if p <= 0:
            return False
        if p >= 1:
            return True
        return self.pick([False, True])


def enumerate_all(build):
    """All results of build(chooser) over every sequence of choices (depth-first, deterministic)."""
    prefix = []
    while True:
        ch = ReplayChooser(prefix)
        yield build(ch)
        trace = ch.trace
        while trace and trace[-1][0] == trace[-1][1] - 1:
            trace.pop()
        if not trace:
            return
        prefix = [c for c, _ in trace]
        prefix[-1] += 1


DEFAULT_PROFILE = dict(
    ints=[0, 1, 2, 3], strs=['x', 'y', ''], depth=2, chain=2,
    kinds=dict(assign_var=4, assign_attr=3, create=2, delete=1, selfrom=3, selrel=4, relate=3, unrelate=2, if_=3, while_=2,
               for_=3, break_=1, continue_=1, return_=2, stop=0.3),
    where=0.5, elifs=[0, 0, 1, 2], else_=0.5)


class Gen(object):
    def __init__(self, chooser, profile=None, sch=None):
        self.ch = chooser
        self.p = dict(DEFAULT_PROFILE)
        self.p.update(profile or {})
        self.s = sch or schema()
        self.scopes = [{}]
        self.budget = 0
        self.ret = 'int'
        self.steps = self._steps()

    def _steps(self):
        """class -> [(to class, rel, phrase, to-many)] navigations the schema allows."""
        out = dict((c, []) for c in self.s.classes)
        for name in sorted(self.s.rels):
            r = self.s.rels[name]
            if r.kind == 'simple' and r.reflexive:
                out[r.part].append((r.part, name, r.form_phrase, r.form_many))
                out[r.part].append((r.part, name, r.part_phrase, r.part_many))
            elif r.kind == 'simple':
                out[r.part].append((r.form, name, None, r.form_many))
                out[r.form].append((r.part, name, None, r.part_many))
            else:
                out[r.part] += [(r.form, name, None, r.form_many), (r.link, name, None, r.form_many)]
                out[r.form] += [(r.part, name, None, r.part_many), (r.link, name, None, r.part_many)]
                out[r.link] += [(r.part, name, None, False), (r.form, name, None, False)]
        return out

    # -- scopes ------------------------------------------------------------------------------------------------
    def visible(self, ty):
        return [n for sc in self.scopes for n, t in sc.items() if t == ty]

    def visible_insts(self):
        return [(n, t) for sc in self.scopes for n, t in sc.items() if t in self.s.classes]

    def visible_sets(self):
        return [(n, t[:-1]) for sc in self.scopes for n, t in sc.items() if t.endswith('*')]

    def declare(self, name, ty):
        if not any(name in sc for sc in self.scopes):
            self.scopes[-1][name] = ty

    # -- expressions -------------------------------------------------------------------------------------------
    def attrs_of(self, cls, ty):
        return [a.name for a in self.s.classes[cls] if TYPE_OF[a.ty] == ty and a.kind in ('plain', 'id', 'ref')]

    def atoms(self, ty, sel):
        out = []
        if ty == 'int':
            out += [['int', n] for n in self.p['ints']]
            out += [['un', 'cardinality', ['var', n]] for n, _ in self.visible_insts() + self.visible_sets()]
        elif ty == 'str':
            out += [['str', s] for s in self.p['strs']]
        elif ty == 'bool':
            out += [['bool', True], ['bool', False]]
            for n, _ in self.visible_insts() + self.visible_sets():
                out += [['un', 'empty', ['var', n]], ['un', 'not_empty', ['var', n]]]
        out += [['var', n] for n in self.visible(ty)]
        for n, cls in self.visible_insts():
            out += [['attr', ['var', n], a] for a in self.attrs_of(cls, ty)]
        if sel:
            out += [['attr', ['selected'], a] for a in self.attrs_of(sel, ty)]
        return out

    def helper_call(self, ty, depth, sel):
        """An invocation of one of HELPERS (observable: it leaves a trace tagged with a fresh number) of type int / bool."""
        self.tag = getattr(self, 'tag', 0) + 1
        n = ['int', self.tag]
        if ty == 'int':
            return ['fcall', 'fi', [['n', n]]]
        c = self.expr('bool', depth - 1, sel)
        args = [['c', c if c is not None else ['bool', True]], ['n', n]]
        if self.ch.chance(0.5):
            args.reverse()
        kind = self.ch.pick(['function', 'bridge', 'cop'] + (['iop'] if self.visible('A') else []))
        if kind == 'function':
            return ['fcall', 'fb', args]
        if kind == 'bridge':
            return ['bcall', 'EX', 'bb', args]
        if kind == 'cop':
            return ['ccall', 'A', 'cb', args]
        return ['icall', ['var', self.ch.pick(self.visible('A'))], 'ib', args]

    def expr(self, ty, depth, sel=None):
        """A type-correct expression of type ty, or None if the scope offers nothing of that type."""
        rate = self.p.get('helper_calls', 0)       # only C08 asks for invocations (profile helper_calls > 0)
        if rate and depth > 0 and ty in ('int', 'bool') and self.ch.chance(rate):
            return self.helper_call(ty, depth, sel)
        atoms = self.atoms(ty, sel)
        forms = []
        if atoms:
            forms.append(('atom', 3 if depth else 1))
        if depth > 0:
            if ty == 'int':
                forms += [('neg', 1), ('arith', 3)]
            elif ty == 'str':
                forms += [('concat', 2)]
            elif ty == 'bool':
                forms += [('not', 1), ('logic', 2), ('cmp', 3), ('eq', 2)]
        if not forms:
            return None
        f = self.ch.weighted(forms)
        if f == 'atom':
            if sel and self.ch.chance(0.5):
                pref = [a for a in atoms if a[0] == 'attr' and a[1][0] == 'selected']
                if pref:
                    return self.ch.pick(pref)
            return self.ch.pick(atoms)
        if f == 'neg':
            return ['un', self.ch.pick(['-', '-', '+']), self.expr('int', depth - 1, sel)]
        if f == 'arith':
            return ['bin', self.ch.pick(['+', '-', '*']), self.expr('int', depth - 1, sel), self.expr('int', depth - 1, sel)]
        if f == 'concat':
            return ['bin', '+', self.expr('str', depth - 1, sel), self.expr('str', depth - 1, sel)]
        if f == 'not':
            return ['un', 'not', self.expr('bool', depth - 1, sel)]
        if f == 'logic':
            return ['bin', self.ch.pick(['and', 'or']), self.expr('bool', depth - 1, sel), self.expr('bool', depth - 1, sel)]
        if f == 'cmp':
            return ['bin', self.ch.pick(['<', '<=', '>', '>=', '==', '!=']), self.expr('int', depth - 1, sel),
                    self.expr('int', depth - 1, sel)]
        tys = [t for t in ('str', 'bool', 'id') if self.expr_possible(t, sel)]
        t = self.ch.pick(tys)
        return ['bin', self.ch.pick(['==', '!=']), self.expr(t, depth - 1, sel), self.expr(t, depth - 1, sel)]

    def expr_possible(self, ty, sel):
        return bool(self.atoms(ty, sel))

    # -- statements --------------------------------------------------------------------------------------------
    def block(self, in_loop, depth):
        """Statements until the budget is used up or the generator decides to stop."""
        self.scopes.append({})
        out = []
        while self.budget > 0 and (not out or self.ch.chance(self.p.get('more', 0.7))):
            out += self.statement(in_loop, depth)
        self.scopes.pop()
        return out

    def statement(self, in_loop, depth):
        """One statement (a list, because a counted while loop brings its initialisation)."""
        kinds = dict(self.p['kinds'])
        if not in_loop:
            kinds['break_'] = kinds['continue_'] = 0
        if depth >= 3 or self.budget < 2:
            kinds['if_'] = kinds['while_'] = kinds['for_'] = 0
        if not self.visible_insts():
            kinds['assign_attr'] = kinds['delete'] = kinds['relate'] = kinds['unrelate'] = 0
        if not self.visible_insts() and not self.visible_sets():
            kinds['selrel'] = 0
        if not self.visible_sets():
            kinds['for_'] = 0
        for _ in range(20):
            k = self.ch.weighted([(n, w) for n, w in sorted(kinds.items()) if w > 0])
            s = getattr(self, 'st_' + k)(in_loop, depth)
            if s is not None:
                self.budget -= len(s) if k != 'while_' else 1
                return s
            kinds[k] = 0
        self.budget -= 1
        self.declare('x', 'int')
        return [['assign', ['var', 'x'], ['int', 0]]]

    def st_assign_var(self, in_loop, depth):
        ty = self.ch.pick([t for t in ('int', 'int', 'str', 'bool', 'id') if t != 'id' or self.expr_possible('id', None)])
        name = self.ch.pick(VARS[ty])
        e = self.expr(ty, self.p['depth'])
        if e is None:
            return None
        self.declare(name, ty)
        return [['assign', ['var', name], e]]

    def st_assign_attr(self, in_loop, depth):
        n, cls = self.ch.pick(self.visible_insts())
        a = self.ch.pick([a for a in self.s.classes[cls] if a.kind == 'plain'])
        e = self.expr(TYPE_OF[a.ty], self.p['depth'])
        return None if e is None else [['assign', ['attr', ['var', n], a.name], e]]

    def st_create(self, in_loop, depth):
        cls = self.ch.pick(sorted(self.s.classes))
        if self.ch.chance(0.15):
            return [['create', None, cls]]
        name = self.ch.pick(VARS[cls])
        self.declare(name, cls)
        return [['create', name, cls]]

    def st_delete(self, in_loop, depth):
        n, _ = self.ch.pick(self.visible_insts())
        return [['delete', n]]

    def where(self, cls):
        if not self.ch.chance(self.p['where']):
            return None
        return self.expr('bool', self.p['depth'], cls)

    def st_selfrom(self, in_loop, depth):
        cls = self.ch.pick(sorted(self.s.classes))
        card = self.ch.pick(['any', 'many'])
        name = self.ch.pick(VARS[cls + '*' if card == 'many' else cls])
        w = self.where(cls)
        self.declare(name, cls + '*' if card == 'many' else cls)
        return [['selfrom', card, name, cls, w]]

    def st_selrel(self, in_loop, depth):
        starts = [(n, c, False) for n, c in self.visible_insts()] + [(n, c, True) for n, c in self.visible_sets()]
        n, cls, many = self.ch.pick(starts)
        chain = []
        for _ in range(self.ch.pick(list(range(1, self.p['chain'] + 1)))):
            to, rel, phrase, to_many = self.ch.pick(self.steps[cls])
            chain.append([to, rel, phrase])
            many = many or to_many
            cls = to
        card = self.ch.pick(['any', 'many']) if many else 'one'
        name = self.ch.pick(VARS[cls + '*' if card == 'many' else cls])
        w = self.where(cls)
        self.declare(name, cls + '*' if card == 'many' else cls)
        return [['selrel', card, name, ['var', n], chain, w]]

    def _ends(self, unrelate):
        rel = self.s.rels[self.ch.pick(sorted(self.s.rels))]
        xs, ys = self.visible(rel.part), self.visible(rel.form)
        if not xs or not ys:
            return None
        x, y, phrase, using = self.ch.pick(xs), self.ch.pick(ys), None, None
        if rel.kind == 'linked':
            ls = self.visible(rel.link)
            if not ls:
                return None
            using = self.ch.pick(ls)
        if rel.kind == 'simple' and rel.reflexive:
            phrase = self.ch.pick([rel.form_phrase, rel.part_phrase])
        elif self.ch.chance(0.5):
            x, y = y, x
        return ['unrelate' if unrelate else 'relate', x, y, rel.name, phrase, using]

    def st_relate(self, in_loop, depth):
        s = self._ends(False)
        return None if s is None else [s]

    def st_unrelate(self, in_loop, depth):
        s = self._ends(True)
        return None if s is None else [s]

    def cond(self):
        if self.p.get('conds'):
            return self.ch.pick(self.p['conds'])
        return self.expr('bool', self.p['depth'])

    def st_simple(self, in_loop, depth):
        return [self.ch.pick(self.p['menu'])]

    def st_if_(self, in_loop, depth):
        cond = self.cond()
        self.budget -= 1
        blk = self.block(in_loop, depth + 1)
        elifs = []
        for _ in range(self.ch.pick(self.p['elifs'])):
            if self.budget <= 0:
                break
            elifs.append([self.cond(), self.block(in_loop, depth + 1)])
        els = self.block(in_loop, depth + 1) if self.budget > 0 and self.ch.chance(self.p['else_']) else None
        self.budget += 1
        return [['if', cond, blk, elifs, els]]

    def st_while_(self, in_loop, depth):
        self.budget -= 1
        if self.ch.chance(self.p.get('counted', 0.8)):
            c = self.p['counters_by_depth'][depth] if 'counters_by_depth' in self.p else self.ch.pick(VARS['int'])
            self.declare(c, 'int')
            bound = self.ch.pick(self.p.get('bounds', [1, 2, 3]))
            body = self.block(True, depth + 1)
            inc = ['assign', ['var', c], ['bin', '+', ['var', c], ['int', 1]]]
            if self.ch.chance(self.p.get('inc_first', 0.5)):     # increment first: `continue` keeps the loop finite
                body.insert(0, inc)
            else:
                body.append(inc)
            out = [['assign', ['var', c], ['int', 0]], ['while', ['bin', self.ch.pick(self.p.get('while_ops', ['<', '<=', '!='])), ['var', c], ['int', bound]], body]]
        else:
            cond = self.cond()
            out = [['while', cond, self.block(True, depth + 1)]]
        self.budget += 1
        return out

    def st_for_(self, in_loop, depth):
        n, cls = self.ch.pick(self.visible_sets())
        v = self.ch.pick(self.p.get('loop_vars', VARS)[cls])
        self.budget -= 1
        self.scopes.append({})
        self.declare(v, cls)
        body = self.block(True, depth + 1)
        self.scopes.pop()
        self.budget += 1
        return [['for', v, n, body]]

    def st_break_(self, in_loop, depth):
        return [['break']]

    def st_continue_(self, in_loop, depth):
        return [['continue']]

    def st_return_(self, in_loop, depth):
        e = self.expr(self.ret, self.p['depth'])
        return None if e is None else [['return', e]]

    def st_stop(self, in_loop, depth):
        return [['stop']]

    # -- whole programs ----------------------------------------------------------------------------------------
    def prelude(self, full=False):
        """Statements that bring instances, sets and data values into scope."""
        out = []
        cands = [(['selfrom', 'any', 'a1', 'A', None], 'a1', 'A'), (['selfrom', 'any', 'b1', 'B', None], 'b1', 'B'),
                 (['selfrom', 'any', 'a2', 'A', ['bin', '==', ['attr', ['selected'], 'i'], ['int', 2]]], 'a2', 'A'),
                 (['selfrom', 'any', 'b2', 'B', ['bin', '>', ['attr', ['selected'], 'n'], ['int', 10]]], 'b2', 'B'),
                 (['selfrom', 'any', 'l1', 'L', None], 'l1', 'L'), (['selfrom', 'any', 'l2', 'L', None], 'l2', 'L'),
                 (['selfrom', 'many', 'as1', 'A', None], 'as1', 'A*'),
                 (['selfrom', 'many', 'bs1', 'B', None], 'bs1', 'B*'),
                 (['selfrom', 'any', 't1', 'T', None], 't1', 'T'), (['selfrom', 'many', 'ts1', 'T', None], 'ts1', 'T*'),
                 (['create', 'a2', 'A'], 'a2', 'A'), (['create', 'b2', 'B'], 'b2', 'B'), (['create', 'l1', 'L'], 'l1', 'L'),
                 (['assign', ['var', 'x'], ['int', 1]], 'x', 'int'), (['assign', ['var', 'u'], ['str', 'x']], 'u', 'str'),
                 (['assign', ['var', 'p'], ['bool', True]], 'p', 'bool')]
        for stmt, var, ty in cands:
            if ty.rstrip('*') not in self.s.classes and ty not in ('int', 'str', 'bool'):
                continue
            if stmt[0] == 'create' and self.p.get('prelude_no_create'):
                continue
            if (full or self.ch.chance(self.p.get('prelude', 0.4))) and not any(var in sc for sc in self.scopes):
                self.declare(var, ty)
                out.append(stmt)
        return out

    def observation(self, body):
        """Statements that make the final values of the top-level variables visible in the final population
        (an extra L instance whose w encodes them).  Variables named in a delete statement, and sets when anything is
        deleted, are left alone: touching a deleted instance is outside the property."""
        return observe(self.scopes[0], body, self.s)

    def program(self, statements):
        self.ret = self.ch.pick(['int', 'int', 'bool', 'str'])
        pre = self.prelude()
        self.budget = statements
        body = []
        while self.budget > 0:
            body += self.statement(False, 0)
        tail = []
        if self.ch.chance(0.7):
            e = self.expr(self.ret, self.p['depth'])
            if e is not None:
                tail = [['return', e]]
        return pre + body + self.observation(body) + tail


def _mentions_delete(stmts, found):
    for s in stmts:
        if s[0] == 'delete':
            found.add(s[1])
        elif s[0] == 'if':
            _mentions_delete(s[2], found)
            for _, b in s[3]:
                _mentions_delete(b, found)
            if s[4]:
                _mentions_delete(s[4], found)
        elif s[0] == 'while':
            _mentions_delete(s[2], found)
        elif s[0] == 'for':
            _mentions_delete(s[3], found)
    return found


def observe(scope, body, sch):
    deleted = _mentions_delete(body, set())
    o = ['var', 'o9']
    out = [['assign', o, ['int', 0]]]

    def mix(e):
        return ['assign', o, ['bin', '+', ['bin', '*', o, ['int', 3]], e]]
    for name in sorted(scope):
        ty = scope[name]
        v = ['var', name]
        if ty == 'int':
            out.append(mix(v))
        elif ty == 'bool':
            out.append(['if', v, [mix(['int', 1])], [], [mix(['int', 2])]])
        elif ty == 'str':
            out.append(['if', ['bin', '==', v, ['str', 'x']], [mix(['int', 1])], [[['bin', '==', v, ['str', '']], [mix(['int', 2])]]], [mix(['int', 0])]])
        elif ty in sch.classes and not deleted:
            k = [a.name for a in sch.classes[ty] if a.kind == 'plain' and a.ty == 'integer'][0]
            out.append(['if', ['un', 'not_empty', v], [mix(['attr', v, k])], [], [mix(['int', 1])]])
        elif ty.endswith('*') and not deleted:
            k = [a.name for a in sch.classes[ty[:-1]] if a.kind == 'plain' and a.ty == 'integer'][0]
            out.append(mix(['un', 'cardinality', v]))
            e = 'e9' + ty[0].lower()          # one loop variable per class: a variable has one type
            out.append(['for', e, name, [['assign', o, ['bin', '+', o, ['attr', ['var', e], k]]]]])
    out += [['create', 'z9', 'L'], ['assign', ['attr', ['var', 'z9'], 'w'], o]]
    return out


FULL_PRELUDE = [['selfrom', 'any', 'a1', 'A', None], ['selfrom', 'any', 'b1', 'B', None], ['selfrom', 'any', 'l2', 'L', None],
                ['selfrom', 'many', 'as1', 'A', None], ['create', 'a2', 'A'], ['create', 'b2', 'B'], ['create', 'l1', 'L'],
                ['assign', ['var', 'x'], ['int', 1]]]
FULL_PRELUDE_SCOPE = dict(a1='A', b1='B', l2='L', as1='A*', a2='A', b2='B', l1='L', x='int')


# ------------------------------------------------------------------------------------------------- if / elif / else ladders
# `if g0 B0 elif g1 B1 ... elif gk Bk [else E]` with k = 2..3 elif clauses.  The language rule (property text: if/elif/else):
# exactly the first clause whose guard holds is executed, the else block when none holds.  Every clause leaves its own mark
# (m = m * 10 + clause number) plus an effect of the chosen body style, so that running a wrong clause, a second clause, or
# the else block in addition is visible in the returned value and in the final population.
LADDER_BASIC_GUARDS = ('literal', 'compare', 'boolvar', 'attr', 'handle')
LADDER_GUARDS = LADDER_BASIC_GUARDS + ('mixed0', 'mixed1', 'mixed2')
LADDER_BODIES = ('marker', 'attribute', 'create', 'link', 'flip', 'control')
LADDER_CONTEXTS = ('top', 'while', 'for', 'then-block', 'else-block', 'elif-block')
LADDER_LOOPS = ('for', 'while')
_M, _X5 = ['var', 'm'], ['var', 'x']
_A1, _A0 = ['var', 'a1'], ['var', 'a0']
# on the population `rich`: a1 = A[0] (i=1, s='x', b=true), a0 empty, as1 = the 3 instances of A (i = 1, 2, 3), x = 5
LADDER_PRELUDE = [['selfrom', 'any', 'a1', 'A', None], ['selfrom', 'any', 'b1', 'B', None],
                  ['selfrom', 'any', 'a0', 'A', ['bin', '>', ['attr', ['selected'], 'i'], ['int', 5]]],
                  ['selfrom', 'many', 'as1', 'A', None], ['create', 'a2', 'A'], ['create', 'b2', 'B'],
                  ['assign', _X5, ['int', 5]], ['assign', _M, ['int', 0]]]


def _guard_style(style, j):
    return LADDER_BASIC_GUARDS[(j + int(style[5:])) % len(LADDER_BASIC_GUARDS)] if style.startswith('mixed') else style


def _boolvar_value(j, truth):
    """Value of g<j> that makes the guard of clause j (g<j> for even j, not g<j> for odd j) evaluate to `truth`."""
    return truth if j % 2 == 0 else not truth


def ladder_guard(style, j, truth):
    """Guard of clause j (0 = the if) that evaluates to `truth` after LADDER_PRELUDE on the population rich."""
    style = _guard_style(style, j)
    if style == 'literal':
        return ['bool', truth]
    if style == 'compare':          # overlapping conditions on one variable (x = 5)
        if j % 2 == 0:
            return ['bin', '>', _X5, ['int', 4 - j if truth else 5 + j]]
        return ['bin', '<=', _X5, ['int', 5 + j if truth else 4 - j]]
    if style == 'boolvar':
        g = ['var', 'g%d' % j]
        return g if j % 2 == 0 else ['un', 'not', g]
    if style == 'attr':
        if j % 3 == 0:
            return ['bin', '==', ['attr', _A1, 's'], ['str', 'x' if truth else 'y']]
        if j % 3 == 1:
            return ['attr', _A1, 'b'] if truth else ['un', 'not', ['attr', _A1, 'b']]
        return ['bin', '<' if truth else '>', ['attr', _A1, 'i'], ['int', 2 if truth else 1]]
    if style == 'handle':
        if j % 2 == 0:
            return ['un', 'not_empty' if truth else 'empty', _A1]
        return ['un', 'empty' if truth else 'not_empty', _A0]
    raise KeyError(style)


def ladder_body(style, j, nclauses, in_loop):
    """Block of clause j (else block: j = nclauses): its mark + an effect on the population / the later guards / control."""
    out = [['assign', _M, ['bin', '+', ['bin', '*', _M, ['int', 10]], ['int', j + 1]]]]
    if style == 'attribute':
        out.append(['assign', ['attr', ['var', 'b1'], 'n'], ['bin', '+', ['bin', '*', ['attr', ['var', 'b1'], 'n'], ['int', 10]], ['int', j + 1]]])
    elif style == 'create':
        out += [['create', 'b3', 'B'], ['assign', ['attr', ['var', 'b3'], 'n'], ['int', 500 + j]]]
    elif style == 'link':
        if j % 2 == 0:
            out += [['create', 'b3', 'B'], ['relate', 'a2', 'b3', 'R1', None, None]]
        else:
            out += [['create', 'b3', 'B'], ['create', 'l3', 'L'], ['relate', 'b3', 'a2', 'R4', None, 'l3']]
    elif style == 'flip':           # an earlier clause makes the guards of all later clauses hold
        out += [['assign', ['var', 'g%d' % l], ['bool', _boolvar_value(l, True)]] for l in range(j + 1, nclauses)]
    elif style == 'control':
        if in_loop:
            out.append(['break'] if j % 2 == 0 else ['continue'])
        else:
            out.append(['stop'] if j % 2 == 0 else ['return', _M])
    elif style != 'marker':
        raise KeyError(style)
    return out


def _in_context(ladder, context):
    """Statements that execute the ladder in the given context."""
    if context == 'top':
        return [ladder]
    if context == 'while':
        c = ['var', 'c']
        return [['assign', c, ['int', 0]],
                ['while', ['bin', '<', c, ['int', 3]], [['assign', c, ['bin', '+', c, ['int', 1]]], ladder]]]
    if context == 'for':
        return [['for', 'e1', 'as1', [ladder]]]
    mark = lambda n: ['assign', _M, ['bin', '+', ['bin', '*', _M, ['int', 10]], ['int', n]]]
    if context == 'then-block':
        return [['if', ['bin', '==', _X5, ['int', 5]], [ladder, mark(8)], [], [mark(9)]]]
    if context == 'else-block':
        return [['if', ['bin', '!=', _X5, ['int', 5]], [mark(9)], [], [mark(8), ladder]]]
    if context == 'elif-block':     # the enclosing statement is a ladder itself: two elif guards hold, only the first block runs
        return [['if', ['bool', False], [mark(9)], [[['bin', '==', _X5, ['int', 5]], [ladder, mark(8)]], [['bool', True], [mark(7)]]], [mark(6)]]]
    raise KeyError(context)


def ladder_program(truths, has_else, guard_style, body_style, context):
    """One program around a ladder whose guards evaluate to `truths` (list of 3..4 booleans) when it is reached first."""
    n = len(truths)
    if body_style == 'flip' and not guard_style.startswith('mixed'):
        guard_style = 'boolvar'     # flipping only matters for guards that read the variables g<j>
    in_loop = context in LADDER_LOOPS
    pre = list(LADDER_PRELUDE)
    pre += [['assign', ['var', 'g%d' % j], ['bool', _boolvar_value(j, t)]] for j, t in enumerate(truths)
            if _guard_style(guard_style, j) == 'boolvar' or body_style == 'flip']
    ladder = ['if', ladder_guard(guard_style, 0, truths[0]), ladder_body(body_style, 0, n, in_loop),
              [[ladder_guard(guard_style, j, truths[j]), ladder_body(body_style, j, n, in_loop)] for j in range(1, n)],
              ladder_body(body_style, n, n, in_loop) if has_else else None]
    return pre + _in_context(ladder, context) + [['return', _M]]


CLASSIFY_FORMS = [['>=', 1], ['>=', 2], ['>=', 3], ['>=', 4], ['==', 1], ['==', 2], ['==', 3]]


def classify_program(forms, has_else, body_style, loop):
    """A ladder inside a loop whose guards compare the loop value (1, 2, 3) with constants: the truth assignment changes
    from iteration to iteration (forms: one [operator, constant] per clause)."""
    n = len(forms)
    if body_style == 'flip':
        body_style = 'marker'
    value = ['attr', ['var', 'e1'], 'i'] if loop == 'for' else ['var', 'c']
    ladder = ['if', ['bin', forms[0][0], value, ['int', forms[0][1]]], ladder_body(body_style, 0, n, True),
              [[['bin', forms[j][0], value, ['int', forms[j][1]]], ladder_body(body_style, j, n, True)] for j in range(1, n)],
              ladder_body(body_style, n, n, True) if has_else else None]
    return list(LADDER_PRELUDE) + _in_context(ladder, loop) + [['return', _M]]


def ladder_shapes():
    """(truth assignment, else present) for 2 and 3 elif clauses: all of them."""
    import itertools
    for k in (2, 3):
        for truths in itertools.product([False, True], repeat=k + 1):
            for has_else in (False, True):
                yield list(truths), has_else


def ladder_programs(quick):
    """Deterministic list of (description, tree).  quick: every shape x body style x context (guard styles rotating) and the
    classification loops over the 4 `>=` forms; thorough: the full product with all 8 guard styles and all 7 forms."""
    import itertools
    out = []
    n = 0
    for body in LADDER_BODIES:                  # all 48 shapes of one body style / context first: a cut-off run still saw every shape
        for context in LADDER_CONTEXTS:
            for truths, has_else in ladder_shapes():
                styles = [LADDER_GUARDS[n % len(LADDER_GUARDS)]] if quick else LADDER_GUARDS
                n += 5                          # 5 and 8 are coprime: the guard styles rotate through all 8
                for gs in styles:
                    out.append((dict(ladder=truths, has_else=has_else, guards=gs, body=body, context=context),
                                ladder_program(truths, has_else, gs, body, context)))
    forms = CLASSIFY_FORMS[:4] if quick else CLASSIFY_FORMS
    bodies = [b for b in LADDER_BODIES if b != 'flip']
    for k in (2, 3):
        for i, fs in enumerate(itertools.product(forms, repeat=k + 1)):
            if quick and k == 3 and i % 4 != (i // 4) % 4:      # a quarter of the 256 tuples
                continue
            for has_else in (False, True):
                for loop in LADDER_LOOPS:
                    body = bodies[n % len(bodies)]
                    n += 1
                    out.append((dict(classify=[list(f) for f in fs], has_else=has_else, body=body, loop=loop),
                                classify_program([list(f) for f in fs], has_else, body, loop)))
    return out


# ------------------------------------------------------------------------------------------------- hops over the association class
# Selections along chains that cross the association R4 (A many-to-many B, association class L) on populations in which a
# participant has 0, 1, 2 and 3 link instances.  The language rule (property text: selection along relationship chains, relate
# with a link instance): `x->B[R4]` reaches the B of *every* link instance x takes part in - the same instances the two-hop
# form `x->L[R4]->B[R4]` reaches - and each further step of a chain starts from all instances reached so far.
ASSOC_WHERE = {     # where clauses per class of the selected instances: none holds for the partner related first
    'links': dict(A=[['bin', '>=', ['attr', ['selected'], 'i'], ['int', 12]], ['bin', '==', ['attr', ['selected'], 'i'], ['int', 11]]],
                  B=[['bin', '>', ['attr', ['selected'], 'n'], ['int', 10]], ['bin', '==', ['attr', ['selected'], 'n'], ['int', 20]]],
                  L=[['bin', '>', ['attr', ['selected'], 'w'], ['int', 13]], ['bin', '==', ['attr', ['selected'], 'w'], ['int', 16]]]),
    'made': dict(A=[['bin', '>=', ['attr', ['selected'], 'i'], ['int', 60]], ['bin', '!=', ['attr', ['selected'], 's'], ['str', 'm']]],
                 B=[['bin', '>=', ['attr', ['selected'], 'n'], ['int', 200]], ['bin', '==', ['attr', ['selected'], 'n'], ['int', 300]]],
                 L=[['bin', '>=', ['attr', ['selected'], 'w'], ['int', 21]], ['bin', '==', ['attr', ['selected'], 'w'], ['int', 22]]]),
}


def assoc_chains(sch, start, max_len):
    """Every chain of 1..max_len navigation steps from class `start` with at least one step over an association that has an
    association class (the hop to the other participant directly, or to / from the association class)."""
    steps = Gen(None, None, sch).steps
    out = []

    def grow(cls, chain, crosses):
        if chain and crosses:
            out.append(chain)
        if len(chain) == max_len:
            return
        for to, rel, phrase, _ in steps[cls]:
            grow(to, chain + [[to, rel, phrase]], crosses or sch.rels[rel].kind == 'linked')
    grow(start, [], False)
    return out


def _assoc_select(start, start_ty, chain, card, where):
    """The selection under test + the observation of what it selected (see observe)."""
    cls = chain[-1][0]
    sel = ['selrel', card, 'r', ['var', start], chain, where]
    scope = {'r': cls + '*' if card == 'many' else cls}
    return [sel] + observe(scope, [], schema()) + [['return', ['var', 'o9']]]


def assoc_made_prelude(k, swap):
    """Statements that build the links themselves: a2 takes part in k link instances (with b1 and k-1 further instances of B),
    a3 in one (with b1, when k >= 1) or two (with the last B, when k = 3); `relate .. across R4 using ..` in both argument orders."""
    out = [['create', 'a2', 'A'], ['assign', ['attr', ['var', 'a2'], 'i'], ['int', 50]], ['assign', ['attr', ['var', 'a2'], 's'], ['str', 'm']],
           ['create', 'a3', 'A'], ['assign', ['attr', ['var', 'a3'], 'i'], ['int', 60]],
           ['create', 'b1', 'B'], ['assign', ['attr', ['var', 'b1'], 'n'], ['int', 100]]]

    def link(a, b):
        made = len([s for s in out if s[0] == 'relate'])
        l = 'lm%d' % made
        pair = [b, a] if (swap + made) % 2 else [a, b]
        return [['create', l, 'L'], ['assign', ['attr', ['var', l], 'w'], ['int', 20 + made]], ['relate', pair[0], pair[1], 'R4', None, l]]

    for j in range(k):
        b = 'b1' if j == 0 else 'bm%d' % j
        if j:
            out += [['create', b, 'B'], ['assign', ['attr', ['var', b], 'n'], ['int', 100 * (j + 1)]]]
        out += link('a2', b)
        if j == 0 or j == 2:
            out += link('a3', b)
    out += [['selfrom', 'many', 'as1', 'A', None], ['selfrom', 'many', 'bs1', 'B', None]]
    return out


ASSOC_STARTS = {        # population 'links' / 'links-rev': variable -> (type, selection that binds it)
    'A': [('a%d' % k, 'A', ['selfrom', 'any', 'a%d' % k, 'A', ['bin', '==', ['attr', ['selected'], 'i'], ['int', 10 + k]]]) for k in range(4)] +
         [('as1', 'A*', ['selfrom', 'many', 'as1', 'A', None]),
          ('as2', 'A*', ['selfrom', 'many', 'as2', 'A', ['bin', '>=', ['attr', ['selected'], 'i'], ['int', 12]]])],
    'B': [('b%d' % k, 'B', ['selfrom', 'any', 'b%d' % k, 'B', ['bin', '==', ['attr', ['selected'], 'n'], ['int', 10 * (k + 1)]]]) for k in range(4)] +
         [('bs1', 'B*', ['selfrom', 'many', 'bs1', 'B', None])],
    'L': [('l4', 'L', ['selfrom', 'any', 'l4', 'L', ['bin', '==', ['attr', ['selected'], 'w'], ['int', 14]]]),
          ('ls1', 'L*', ['selfrom', 'many', 'ls1', 'L', None])],
}


def assoc_hop_programs(quick):
    """Deterministic list of (description, tree, population)."""
    sch = schema()
    out = []
    max_len = 2 if quick else 3
    chains = dict((c, assoc_chains(sch, c, max_len)) for c in ('A', 'B', 'L'))
    n = 0
    for cls in ('A', 'B', 'L'):
        for var, ty, stmt in ASSOC_STARTS[cls]:
            for chain in chains[cls]:
                wheres = [None] + ASSOC_WHERE['links'][chain[-1][0]]
                if len(chain) > 2:
                    wheres = wheres[:2]
                for w in wheres:
                    for card in ('one', 'any', 'many'):
                        n += 1
                        pop = 'links' if quick and n % 8 else ('links', 'links-rev')
                        for p in ([pop] if isinstance(pop, str) else pop):
                            out.append((dict(start=var, chain=chain, card=card, where=w is not None, population=p),
                                        [stmt] + _assoc_select(var, ty, chain, card, w), p))
    # links made by the program itself with `relate .. to .. across R4 using ..`
    made_chains = dict((c, assoc_chains(sch, c, 2)) for c in ('A', 'B'))
    for k in range(4):
        for swap in ((k % 2,) if quick else (0, 1)):        # both argument orders occur for every k (they alternate per statement)
            pre = assoc_made_prelude(k, swap)
            for var, ty in (('a2', 'A'), ('b1', 'B'), ('as1', 'A*')) + ((('a3', 'A'), ('bs1', 'B*')) if not quick else ()):
                for chain in made_chains[ty[0]]:
                    for w in [None] + ASSOC_WHERE['made'][chain[-1][0]][:1 if quick else 2]:
                        for card in ('one', 'any', 'many'):
                            out.append((dict(start=var, chain=chain, card=card, where=w is not None, made=k, swap=swap),
                                        pre + _assoc_select(var, ty, chain, card, w), 'sparse'))
    out.sort(key=lambda t: (len(t[0]['chain']), t[0]['where'], 'made' in t[0]))       # stable: the smallest programs first
    return out
