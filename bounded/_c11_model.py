"""Helpers of bounded/c11.py: model specifications, their SQL text, construction on the real code, and an
independent relational reference that counts violations as the text of property C11 words them.

A model specification is a JSON-able dict

  classes  [{'name': 'A', 'attrs': [['Id', 'unique_id'], ...]}, ...]
  idents   [['A', 'I1', ['Id']], ...]
  assocs   [{'rel': 1, 'src': 'B', 'src_keys': ['A_Id'], 'src_card': 'MC', 'src_phrase': '',
             'tgt': 'A', 'tgt_keys': ['Id'], 'tgt_card': '1', 'tgt_phrase': ''}, ...]
  rows     [['A', [1, 'x']], ['B', [1, 1]], ...]        values in attribute order, None = no value
  mode     'load' (links are what key equality gives) or 'api' (links are the explicit list below)
  links    api only: [[association index, source row index, target row index], ...] in relate order
  ops      api only, afterwards: ['unrelate', association index, source row, target row] / ['delete', row index]
  guid     load only: write unique ids as "guid" text instead of numbers

Nothing in this file calls the consistency checks.
"""
import re
import uuid

import vlib.fresh_ply  # noqa: F401
import xtuml


def U(s):
    return s.upper()


def card_ok(count, card):
    """Is a partner count inside an end's multiplicity ('M' = many) and conditionality ('C' = may be zero)?"""
    lo = 0 if 'C' in card else 1
    if count < lo:
        return False
    if count > 1 and 'M' not in card:
        return False
    return True


def _null_for_join(value, ty):
    """xtUML convention used by loading: no value, the zero id, the empty string do not refer to anything."""
    if value is None:
        return True
    ty = U(ty)
    if ty == 'UNIQUE_ID':
        return value == 0
    if ty == 'STRING':
        return value == ''
    return False


class Reference(object):
    """Plain relational model of a specification."""

    def __init__(self, spec):
        self.spec = spec
        self.classes = dict((U(c['name']), c) for c in spec['classes'])
        self.assocs = spec['assocs']
        self.types = {}
        for c in spec['classes']:
            for n, t in c['attrs']:
                self.types[(U(c['name']), n)] = t
        self.rows = []
        for cname, values in spec['rows']:
            c = self.classes[U(cname)]
            raw = dict((a[0], v) for a, v in zip(c['attrs'], values))
            self.rows.append(dict(cls=U(cname), raw=raw, alive=True))
        self.links = [[] for _ in self.assocs]
        if spec.get('mode', 'load') == 'load':
            self._join()
        else:
            for ai, s, t in spec.get('links', []):
                if (s, t) not in self.links[ai]:
                    self.links[ai].append((s, t))
            for op in spec.get('ops', []):
                if op[0] == 'unrelate':
                    self.links[op[1]].remove((op[2], op[3]))
                elif op[0] == 'delete':
                    self.rows[op[1]]['alive'] = False
                    for ai in range(len(self.links)):
                        self.links[ai] = [(s, t) for (s, t) in self.links[ai] if s != op[1] and t != op[1]]
        self.idents_of = {}
        for c, n, attrs in spec['idents']:
            self.idents_of.setdefault(U(c), []).append((n, attrs))
        # which associations use an attribute of a class as referential attribute (later definitions first)
        self.ref_use = {}
        for ai, a in enumerate(self.assocs):
            for sk, tk in zip(a['src_keys'], a['tgt_keys']):
                self.ref_use.setdefault((U(a['src']), sk), []).insert(0, (ai, tk))

    def instances(self, cname):
        return [i for i, r in enumerate(self.rows) if r['cls'] == U(cname) and r['alive']]

    def _join(self):
        for ai, a in enumerate(self.assocs):
            src, tgt = U(a['src']), U(a['tgt'])
            pairs = list(zip(a['src_keys'], a['tgt_keys']))
            for s in self.instances(src):
                for t in self.instances(tgt):
                    ok = True
                    for sk, tk in pairs:
                        sv, tv = self.rows[s]['raw'][sk], self.rows[t]['raw'][tk]
                        if _null_for_join(sv, self.types[(src, sk)]) or _null_for_join(tv, self.types[(tgt, tk)]) or sv != tv:
                            ok = False
                            break
                    if ok:
                        self.links[ai].append((s, t))

    def targets(self, ai, s):
        return [t for (s2, t) in self.links[ai] if s2 == s]

    def sources(self, ai, t):
        return [s for (s, t2) in self.links[ai] if t2 == t]

    def visible(self, i, attr, depth=0):
        """Value of an attribute as the model shows it: a referential attribute shows the identifying value of the
        instance it refers to, and nothing when it refers to none."""
        r = self.rows[i]
        uses = self.ref_use.get((r['cls'], attr))
        if not uses:
            return r['raw'][attr]
        if depth > 50:
            raise RuntimeError('cyclic referential attributes')
        for ai, tk in uses:
            ts = self.targets(ai, i)
            if ts:
                return self.visible(ts[0], tk, depth + 1)
        return None

    # ---- the counts of the property text

    def association_violations(self, rels=None):
        """(instance, association end) pairs whose partner count lies outside the end's multiplicity and conditionality."""
        n = 0
        for ai, a in enumerate(self.assocs):
            if rels is not None and a['rel'] not in rels:
                continue
            for s in self.instances(a['src']):
                if not card_ok(len(self.targets(ai, s)), a['tgt_card']):
                    n += 1
            for t in self.instances(a['tgt']):
                if not card_ok(len(self.sources(ai, t)), a['src_card']):
                    n += 1
        return n

    def identifying_attributes(self, cname):
        out = []
        for _, attrs in self.idents_of.get(U(cname), []):
            for a in attrs:
                if a not in out:
                    out.append(a)
        return out

    def is_null_id(self, cname, attr, value):
        """None, or zero for an attribute whose type is unique_id under any spelling of the type name."""
        if value is None:
            return True
        return U(self.types[(U(cname), attr)]) == 'UNIQUE_ID' and value == 0 and value is not False

    def identifier_violations(self, kinds=None):
        """(low, high): null identifying values + instances repeating an earlier instance's identifier.  `high` counts
        a repeating instance once per identifier it repeats, `low` once per instance; they differ only when one instance
        repeats under two identifiers at once (the property text does not say which is meant)."""
        lo = hi = 0
        names = [c['name'] for c in self.spec['classes']] if kinds is None else kinds
        for cname in names:
            ids = self.idents_of.get(U(cname), [])
            idattrs = self.identifying_attributes(cname)
            seen = dict((n, []) for n, _ in ids)
            for i in self.instances(cname):
                for a in idattrs:
                    if self.is_null_id(cname, a, self.visible(i, a)):
                        lo += 1
                        hi += 1
                repeats = 0
                for n, attrs in ids:
                    key = tuple(self.visible(i, a) for a in attrs)
                    if any(key == k for k in seen[n]):
                        repeats += 1
                    seen[n].append(key)
                hi += repeats
                lo += 1 if repeats else 0
        return lo, hi

    def subtype_violations(self, super_kind, rel):
        """Supertype instances lacking a subtype instance across rel."""
        n = 0
        for i in self.instances(super_kind):
            has = False
            for ai, a in enumerate(self.assocs):
                if a['rel'] == rel and U(a['tgt']) == U(super_kind) and self.sources(ai, i):
                    has = True
            if not has:
                n += 1
        return n

    def has_zero_unique_id(self):
        for i, r in enumerate(self.rows):
            for a, v in r['raw'].items():
                if U(self.types[(r['cls'], a)]) == 'UNIQUE_ID' and v == 0 and v is not None:
                    return True
        return False


# ------------------------------------------------------------------ SQL text (own writer)

def _sql_value(v, ty, guid):
    ty = U(ty)
    if ty == 'BOOLEAN':
        return 'TRUE' if v else 'FALSE'
    if ty == 'STRING':
        return "'%s'" % str(v).replace("'", "''")
    if ty == 'UNIQUE_ID' and guid:
        return '"%s"' % uuid.UUID(int=v)
    if ty == 'REAL':
        return repr(float(v))
    return str(int(v))


def schema_sql(spec):
    out = []
    for c in spec['classes']:
        out.append('CREATE TABLE %s (%s);' % (c['name'], ', '.join('%s %s' % (n, t) for n, t in c['attrs'])))
    for a in spec['assocs']:
        def end(card, kind, keys, phrase):
            s = '%s %s (%s)' % (card, kind, ', '.join(keys))
            if phrase:
                s += " PHRASE '%s'" % phrase
            return s
        out.append('CREATE ROP REF_ID R%d FROM %s TO %s;' % (a['rel'], end(a['src_card'], a['src'], a['src_keys'], a['src_phrase']),
                                                               end(a['tgt_card'], a['tgt'], a['tgt_keys'], a['tgt_phrase'])))
    for c, n, attrs in spec['idents']:
        out.append('CREATE UNIQUE INDEX %s ON %s (%s);' % (n, c, ', '.join(attrs)))
    return '\n'.join(out) + '\n'


def data_sql(spec, classes=None):
    classes = classes or dict((U(c['name']), c) for c in spec['classes'])
    guid = spec.get('guid', False)
    out = []
    for cname, values in spec['rows']:
        attrs = classes[U(cname)]['attrs']
        if all(v is not None for v in values):
            out.append('INSERT INTO %s VALUES (%s);' % (cname, ', '.join(_sql_value(v, a[1], guid) for a, v in zip(attrs, values))))
        else:
            given = [(a, v) for a, v in zip(attrs, values) if v is not None]
            if not given:
                raise ValueError('a row without any value cannot be written')
            out.append('INSERT INTO %s (%s) VALUES (%s);' % (cname, ', '.join(a[0] for a, _ in given),
                                                            ', '.join(_sql_value(v, a[1], guid) for a, v in given)))
    return '\n'.join(out) + '\n'


# ------------------------------------------------------------------ construction on the real code

def build_by_load(spec):
    loader = xtuml.ModelLoader()
    if spec.get('data_first'):
        loader.input(data_sql(spec))
        loader.input(schema_sql(spec))
    else:
        loader.input(schema_sql(spec))
        loader.input(data_sql(spec))
    return loader.build_metamodel()


def build_by_api(spec):
    m = xtuml.MetaModel()
    for c in spec['classes']:
        m.define_class(c['name'], [tuple(a) for a in c['attrs']])
    for c, n, attrs in spec['idents']:
        m.define_unique_identifier(c, n, *attrs)
    for a in spec['assocs']:
        ass = m.define_association(a['rel'], a['src'], list(a['src_keys']), 'M' in a['src_card'], 'C' in a['src_card'], a['src_phrase'],
                                   a['tgt'], list(a['tgt_keys']), 'M' in a['tgt_card'], 'C' in a['tgt_card'], a['tgt_phrase'])
        ass.formalize()
    referential = set()
    for a in spec['assocs']:
        for k in a['src_keys']:
            referential.add((U(a['src']), k))
    classes = dict((U(c['name']), c) for c in spec['classes'])
    inst = []
    for cname, values in spec['rows']:
        kw = dict((a[0], v) for a, v in zip(classes[U(cname)]['attrs'], values) if (U(cname), a[0]) not in referential)
        inst.append(m.new(cname, **kw))
    for ai, s, t in spec.get('links', []):
        a = spec['assocs'][ai]
        xtuml.relate(inst[s], inst[t], a['rel'], a['src_phrase'])
    for op in spec.get('ops', []):
        if op[0] == 'unrelate':
            a = spec['assocs'][op[1]]
            xtuml.unrelate(inst[op[2]], inst[op[3]], a['rel'], a['src_phrase'])
        elif op[0] == 'delete':
            xtuml.delete(inst[op[1]])
    return m


def build(spec):
    return build_by_load(spec) if spec.get('mode', 'load') == 'load' else build_by_api(spec)


# ------------------------------------------------------------------ the BridgePoint metamodel, read from its SQL text

_OOA = None


def ooaofooa_schema():
    """classes / associations / identifiers of bridgepoint.schema, read with regular expressions (not with the loader)."""
    global _OOA
    if _OOA is not None:
        return _OOA
    from bridgepoint import schema
    classes = []
    for mo in re.finditer(r'CREATE\s+TABLE\s+(\w+)\s*\((.*?)\)\s*;', schema.classes, re.S):
        attrs = [a.split() for a in mo.group(2).split(',') if a.strip()]
        classes.append(dict(name=mo.group(1), attrs=attrs))
    assocs = []
    rx = (r"CREATE\s+ROP\s+REF_ID\s+R(\d+)\s+FROM\s+(\w+)\s+(\w+)\s*\(([^)]*)\)\s*(?:PHRASE\s+'([^']*)')?\s*"
          r"TO\s+(\w+)\s+(\w+)\s*\(([^)]*)\)\s*(?:PHRASE\s+'([^']*)')?\s*;")
    for mo in re.finditer(rx, schema.associations):
        rel, sc, s, sk, sp, tc, t, tk, tp = mo.groups()
        assocs.append(dict(rel=int(rel), src=s, src_keys=[x.strip() for x in sk.split(',')], src_card=sc, src_phrase=sp or '',
                           tgt=t, tgt_keys=[x.strip() for x in tk.split(',')], tgt_card=tc, tgt_phrase=tp or ''))
    idents = []
    for mo in re.finditer(r'CREATE\s+UNIQUE\s+INDEX\s+(\w+)\s+ON\s+(\w+)\s*\(([^)]*)\)\s*;', schema.indices):
        idents.append([mo.group(2), mo.group(1), [x.strip() for x in mo.group(3).split(',')]])
    assert len(classes) == schema.classes.count('CREATE TABLE')
    assert len(assocs) == schema.associations.count('CREATE ROP')
    assert len(idents) == schema.indices.count('CREATE UNIQUE INDEX')
    _OOA = dict(classes=classes, assocs=assocs, idents=idents)
    return _OOA
