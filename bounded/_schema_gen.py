"""Shared helper of the bounded modules c01 / c03 / c18 / c12: a plain-Python *model description* and what follows from it.

A description is a JSON-able dict written from the property text (nothing in here looks at how pyxtuml stores things):

    {'classes': [{'kind': 'T', 'attrs': [['Id', 'UNIQUE_ID'], ['Name', 'STRING']]}, ...],
     'assocs':  [{'rel_id': 'R1',
                  'source': {'kind': 'S', 'keys': ['T_Id'], 'many': True,  'cond': True,  'phrase': ''},   # referring end
                  'target': {'kind': 'T', 'keys': ['Id'],   'many': False, 'cond': False, 'phrase': ''}}], # referred end
     'ids':     [{'kind': 'T', 'name': 'I1', 'attrs': ['Id']}],
     'rows':    [{'kind': 'T', 'values': [1, 'x']}, {'kind': 'S', 'values': [None, 5]}],   # referential positions: None
     'links':   [[0, 0, 0]]}      # [index into assocs, index of the referring row within its class, index of the referred row]

The roles `source`/`target` and the phrases are the parameter roles of MetaModel.define_association (source = referring =
the FROM end of CREATE ROP, target = referred = the TO end).  `source.phrase` is the phrase used to navigate from a referring
instance to the referred one, `target.phrase` the phrase for the opposite direction.

From a description we can
  * create the metamodel through the public API          (api_build)
  * say what any faithful copy of it must look like      (expected_view)    -- the oracle
  * walk a real metamodel through its public interface   (observe)          -- same shape as expected_view
  * write SQL text for it with an independent writer     (sql_* functions)  -- input generator for loaders
"""
import decimal
import uuid

CORE_TYPES = ('BOOLEAN', 'INTEGER', 'REAL', 'STRING', 'UNIQUE_ID')
NULL = {'BOOLEAN': False, 'INTEGER': 0, 'REAL': 0.0, 'STRING': '', 'UNIQUE_ID': 0}

_DCTX = decimal.Context(prec=800, rounding=decimal.ROUND_HALF_EVEN)
_SIX = decimal.Decimal('0.000001')


def real6(v):
    """A real, kept to six decimals (exact decimal arithmetic on the binary value, half-even), as a string."""
    q = _DCTX.quantize(decimal.Decimal(float(v)), _SIX)
    if q == 0:
        return '0.000000'
    return format(q, 'f')


def norm_value(v, ty):
    """Normal form of an attribute value for comparison: unset == null of its type, reals to six decimals."""
    ty = ty.upper()
    if v is None:
        v = NULL.get(ty)
    if ty == 'REAL' and v is not None:
        try:
            return 'real:' + real6(v)
        except Exception:
            return 'real?:%r' % (v,)
    if ty == 'BOOLEAN' and v in (0, 1):
        return bool(v)
    return v


def is_null_key(v, ty):
    """C03: 'null keys (0 id, empty string, unset)'."""
    ty = ty.upper()
    return v is None or (ty == 'UNIQUE_ID' and v == 0) or (ty == 'STRING' and v == '')


# ------------------------------------------------------------------------------------------------ description helpers

def class_of(desc, kind):
    for c in desc['classes']:
        if c['kind'] == kind:
            return c
    raise KeyError(kind)


def attr_types(desc, kind):
    return dict((n, t) for n, t in class_of(desc, kind)['attrs'])


def rows_of(desc, kind):
    return [r for r in desc['rows'] if r['kind'] == kind]


def referential_names(desc, kind):
    s = set()
    for a in desc['assocs']:
        if a['source']['kind'] == kind:
            s.update(a['source']['keys'])
    return s


def resolve_value(desc, kind, idx, name, _depth=0):
    """Value that attribute `name` of the idx-th row of `kind` must read: stored for plain attributes, the referred
    instance's identifying value for referential ones (null when not linked)."""
    if _depth > 20:
        return None
    c = class_of(desc, kind)
    names = [n for n, _ in c['attrs']]
    pos = names.index(name)
    hit = False
    for ai in range(len(desc['assocs']) - 1, -1, -1):
        a = desc['assocs'][ai]
        if a['source']['kind'] != kind or name not in a['source']['keys']:
            continue
        hit = True
        for l in desc['links']:
            if l[0] == ai and l[1] == idx:
                k = a['source']['keys'].index(name)
                return resolve_value(desc, a['target']['kind'], l[2], a['target']['keys'][k], _depth + 1)
    if hit:
        return None
    return rows_of(desc, kind)[idx]['values'][pos]


def key_pairs(source_keys, target_keys):
    """The key attributes of an association: which referential attribute refers to which identifying attribute.  The
    order in which the pairs are listed carries no meaning, so the pairs are kept sorted."""
    return sorted([s, t] for s, t in zip(source_keys, target_keys))


def assoc_sig(a):
    s, t = a['source'], a['target']
    return [a['rel_id'], s['kind'], key_pairs(s['keys'], t['keys']), bool(s['many']), bool(s['cond']), s['phrase'],
            t['kind'], len(t['keys']), bool(t['many']), bool(t['cond']), t['phrase']]


def link_tag(sig):
    return '%s|%s|%s|%s' % (sig[0], sig[1], sig[6], sig[5])


def expected_view(desc):
    """What a faithful copy of the described model looks like (the oracle; pure data)."""
    classes, instances = {}, {}
    for c in desc['classes']:
        classes[c['kind']] = [[n, t.upper()] for n, t in c['attrs']]
        rows = rows_of(desc, c['kind'])
        instances[c['kind']] = [[norm_value(resolve_value(desc, c['kind'], i, n), t) for n, t in c['attrs']]
                                for i in range(len(rows))]
    assocs = sorted(assoc_sig(a) for a in desc['assocs'])
    ids = {}
    for i in desc['ids']:
        ids.setdefault(i['kind'], {})[i['name']] = list(i['attrs'])
    links = []
    for ai, si, ti in desc['links']:
        tag = link_tag(assoc_sig(desc['assocs'][ai]))
        links.append([tag, 'from-referring', si, ti])
        links.append([tag, 'from-referred', si, ti])
    return dict(classes=classes, associations=assocs, identifiers=ids, instances=instances, links=sorted(links))


def observe(m):
    """Walk a real metamodel through its public interface; same shape as expected_view."""
    import xtuml
    classes, instances, index_of, ids = {}, {}, {}, {}
    for mc in m.metaclasses.values():
        classes[mc.kind] = [[n, t.upper()] for n, t in mc.attributes]
        pool = list(m.select_many(mc.kind))
        for i, inst in enumerate(pool):
            index_of[id(inst)] = i
        instances[mc.kind] = [[norm_value(getattr(inst, n), t) for n, t in mc.attributes] for inst in pool]
        if mc.indices:
            ids[mc.kind] = dict((name, list(attrs)) for name, attrs in mc.indices.items())
    assocs, links = [], []
    for ass in m.associations:
        to_source, to_target = ass.source_link, ass.target_link     # link leading to the referring / referred class
        sig = [ass.rel_id, to_source.kind, key_pairs(ass.source_keys, ass.target_keys), bool(to_source.many),
               bool(to_source.conditional), to_target.phrase,
               to_target.kind, len(ass.target_keys), bool(to_target.many), bool(to_target.conditional), to_source.phrase]
        assocs.append(sig)
        tag = link_tag(sig)
        for inst in m.select_many(sig[1]):
            for other in xtuml.navigate_many(inst).nav(sig[6], sig[0], sig[5])():
                links.append([tag, 'from-referring', index_of[id(inst)], index_of.get(id(other), -1)])
        for inst in m.select_many(sig[6]):
            for other in xtuml.navigate_many(inst).nav(sig[1], sig[0], sig[10])():
                links.append([tag, 'from-referred', index_of.get(id(other), -1), index_of[id(inst)]])
    return dict(classes=classes, associations=sorted(assocs), identifiers=ids, instances=instances, links=sorted(links))


VIEW_CLAUSES = (('classes', 'same-classes-and-attribute-types'), ('associations', 'same-associations'),
                ('identifiers', 'same-identifiers'), ('instances', 'same-instances-in-order-with-equal-values'),
                ('links', 'same-links'))


def diff_views(required, observed):
    """[(clause, observed part, required part)] for every component of the view that differs."""
    out = []
    for part, clause in VIEW_CLAUSES:
        if required[part] != observed[part]:
            r, o = required[part], observed[part]
            if isinstance(r, dict) and isinstance(o, dict):
                keys = [k for k in sorted(set(r) | set(o)) if r.get(k) != o.get(k)]
                r = dict((k, r.get(k)) for k in keys)
                o = dict((k, o.get(k)) for k in keys)
            elif isinstance(r, list) and isinstance(o, list):
                r, o = [x for x in r if x not in observed[part]], [x for x in o if x not in required[part]]
            out.append((clause, o, r))
    return out


# ------------------------------------------------------------------------------------------------ API construction

def api_schema(desc, m=None):
    import xtuml
    if m is None:
        m = xtuml.MetaModel()
    for c in desc['classes']:
        m.define_class(c['kind'], [(n, t) for n, t in c['attrs']])
    for a in desc['assocs']:
        s, t = a['source'], a['target']
        ass = m.define_association(a['rel_id'], s['kind'], list(s['keys']), s['many'], s['cond'], s['phrase'],
                                   t['kind'], list(t['keys']), t['many'], t['cond'], t['phrase'])
        ass.formalize()
    for i in desc['ids']:
        m.define_unique_identifier(i['kind'], i['name'], *i['attrs'])
    return m


def api_build(desc):
    """Create the described metamodel through the public API: define_*, new, attribute writes, relate."""
    import xtuml
    m = api_schema(desc)
    pools = {}
    for r in desc['rows']:
        c = class_of(desc, r['kind'])
        refs = referential_names(desc, r['kind'])
        inst = m.new(r['kind'])
        for (n, _), v in zip(c['attrs'], r['values']):
            if n not in refs:
                setattr(inst, n, v)
        pools.setdefault(r['kind'], []).append(inst)
    for ai, si, ti in desc['links']:
        a = desc['assocs'][ai]
        xtuml.relate(pools[a['source']['kind']][si], pools[a['target']['kind']][ti], a['rel_id'], a['source']['phrase'])
    return m


# ------------------------------------------------------------------------------------------------ independent SQL writer

def sql_value(v, ty, style=0):
    """Text of a value of a core type, written from the file format's description (not by calling the library)."""
    ty = ty.upper()
    if v is None:
        v = NULL[ty]
    if ty == 'BOOLEAN':
        return (('1', '0'), ('TRUE', 'FALSE'), ('true', 'false'))[style % 3][0 if v else 1]
    if ty == 'INTEGER':
        return str(int(v))
    if ty == 'REAL':
        return real6(v)
    if ty == 'STRING':
        return "'" + v.replace("'", "''") + "'"
    if ty == 'UNIQUE_ID':
        h = '%032x' % v
        return '"%s-%s-%s-%s-%s"' % (h[0:8], h[8:12], h[12:16], h[16:20], h[20:32])
    raise ValueError(ty)


def sql_class(c):
    return 'CREATE TABLE %s (%s);' % (c['kind'], ', '.join('%s %s' % (n, t) for n, t in c['attrs']))


def sql_cardinality(end):
    return ('M' if end['many'] else '1') + ('C' if end['cond'] else '')


def sql_assoc(a):
    def end(e):
        s = '%s %s (%s)' % (sql_cardinality(e), e['kind'], ', '.join(e['keys']))
        if e['phrase']:
            s += " PHRASE '%s'" % e['phrase']
        return s
    return 'CREATE ROP REF_ID %s FROM %s TO %s;' % (a['rel_id'], end(a['source']), end(a['target']))


def sql_identifier(i):
    return 'CREATE UNIQUE INDEX %s ON %s (%s);' % (i['name'], i['kind'], ', '.join(i['attrs']))


def sql_insert(kind, attrs, values, named=None, style=0):
    """attrs: [[name, type]]; values aligned with attrs; named: None for the positional form, else the list of attribute
    positions to mention (omitted ones stay unset)."""
    if named is None:
        return 'INSERT INTO %s VALUES (%s);' % (kind, ', '.join(sql_value(v, t, style) for (n, t), v in zip(attrs, values)))
    return 'INSERT INTO %s (%s) VALUES (%s);' % (kind, ', '.join(attrs[p][0] for p in named),
                                                 ', '.join(sql_value(values[p], attrs[p][1], style) for p in named))


def sql_rows(desc, style=0):
    """INSERT statements of a description, referential values resolved (what a persisted copy carries)."""
    out, count = [], {}
    for r in desc['rows']:
        k = r['kind']
        i = count.get(k, 0)
        count[k] = i + 1
        attrs = class_of(desc, k)['attrs']
        out.append(sql_insert(k, attrs, [resolve_value(desc, k, i, n) for n, _ in attrs], style=style))
    return out


def sql_schema(desc):
    return [sql_class(c) for c in desc['classes']] + [sql_assoc(a) for a in desc['assocs']] + \
           [sql_identifier(i) for i in desc['ids']]


# ------------------------------------------------------------------------------------------------ value alphabets

BIG = 2 ** 70
VALUES = {
    'BOOLEAN': [True, False, None],
    'INTEGER': [0, 1, -1, 42, -2 ** 31, 2 ** 63, 2 ** 64 + 1, BIG, -BIG, 2 ** 127, -(2 ** 127) - 3, None],
    'REAL': [0.0, 1.5, -1.5, -0.25, 123456.789012, -98765.4321, 0.000001, 1e10 + 0.5, -1e15, 1e20, 3.0e38, -0.0000001,
             2.5e-7, None],
    'STRING': ['', 'plain', "it's", "''", "a''b", "'", "'; INSERT INTO K VALUES (1); --", '--', 'a -- b', "x'--'y",
               'line1\nline2', '\n', 'a\x00b', '\x00', u'\xe5\xe4\xf6 ☃ 日本', u'\U0001f600', '"guid"', '\\',
               ' lead and trail ', '\t', '1', 'TRUE', None],
    'UNIQUE_ID': [0, 1, 2 ** 64, 2 ** 127, 2 ** 128 - 1, 0x123456789abcdef0123456789abcdef0, None],
}

# distinct, never the null of the type (see c01: an unlinked referring row must not match any referred row)
KEY_VALUES = {
    'BOOLEAN': [True, False, True],
    'INTEGER': [-1, BIG, 7],
    'REAL': [1.5, -2.25, 1e10],
    'STRING': ["it's", 'a--b', u'\xfc\n'],
    'UNIQUE_ID': [1, 2 ** 127, 2 ** 128 - 1],
}

KEYWORDS = ['CREATE', 'FALSE', 'FROM', 'INDEX', 'INSERT', 'INTO', 'ON', 'PHRASE', 'REF_ID', 'ROP', 'TABLE', 'TO', 'TRUE',
            'UNIQUE', 'VALUES']
CARDINALITY_WORDS = ['M', 'MC', 'C', 'm', 'Mc']
OTHER_NAMES = ['INTEGER', 'STRING', 'UNIQUE_ID', 'create', 'Values', 'true', '_', '_0', 'r1', 'R', 'Rx1', 'a1C']
