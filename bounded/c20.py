"""C20 (bounded tier) -- XSD generation mirrors the component's classes and data types.

Inputs are (seed model, edit script, component name).  After the script the real gen_xsd_schema.build_schema(m, c_c)
runs; ET.tostring(...) and prettify(...) of it must parse as XML, and the parsed document must declare exactly what an
independent walk of the model rows (bounded/_c20_ref.py) expects.

Clauses
  well-formed-xml      ET.tostring / prettify output parses with ElementTree, both parse to the same declarations
  schema-shape         only simpleType declarations and one component element at top level, classes inside complexType/sequence
  type-set             one simple type per supported core / enumeration / user data type in scope (global or in the component)
  type-base            base of core types (xs:boolean, xs:integer, xs:decimal, xs:string, xs:integer) and of user types (base type name)
  enumerators          enumerators of every enumeration, in modeled (R56) order
  component-element    the component element is named as the component
  class-elements       one element per class contained in the component (nested packages/components included)
  class-attributes     one attribute per non-derived attribute of supported type, named as modeled, typed by the base type
  edit-changes-exactly diff(before, after) of the generated declarations == diff of the reference declarations
  build-raises         build_schema raised on a well-formed model

Two kinds of cases.  A plain case loads the rows before and after the last edit into fresh models.  A session
(case['session']) loads the seed ONCE and keeps that model: a schema is generated for every component of the model, then
each edit of the script is applied to the rows and, through the xtuml API, to the loaded model (bounded/_c20_live.py: a
move re-relates the PE_PE of the class / type / package, a retype re-relates the attribute, ...), and schemas are
generated again from the same model in the same process.  Every generation is compared with the independent walk of
the rows as they are at that moment, and consecutive generations by their differences.
"""
import vlib.fresh_ply  # noqa: F401
import itertools
import random
import traceback
import xml.etree.ElementTree as ET

from vlib.bounded import item

from . import _c14_rows as R
from . import _c14_synth as S
from . import _c20_live as L
from . import _c20_ref as X
from . import c14 as C14

RETYPES = ['integer', 'string', 'real', 'boolean', 'unique_id', 'My_Enum', 'My_Integer', 'date', 'state<State_Model>', 'timestamp']
SYNTH_TYPES = ['integer', 'string', 'real', 'boolean', 'Colour', 'Len', 'date', 'inst_ref<Object>', 'timestamp']


def apply_op(rows, op):
    k = op[0]
    if k == 'add_attr':
        X.edit_add_attr(rows, op[1], op[2], op[3])
    elif k == 'add_udt':
        X.edit_add_udt(rows, op[1], op[2], op[3])
    elif k == 'add_enum':
        X.edit_add_enum(rows, op[1], op[2], op[3])
    elif k == 'add_enumerator':
        X.edit_add_enumerator(rows, op[1], op[2], op[3])
    elif k == 'reorder_enumerators':
        X.edit_reorder_enumerators(rows, op[1], op[2])
    elif k == 'move_class':
        X.edit_move_class(rows, op[1], op[2])
    elif k == 'move_type':
        X.edit_move_type(rows, op[1], op[2])
    elif k == 'move_package':
        X.edit_move_package(rows, op[1], op[2])
    else:
        C14.apply_op(rows, op)


def component_names(rows):
    return [r.get('Name') for r in rows if r.kind == 'C_C']


def enum_names(rows):
    edts = set(r.get('DT_ID') for r in rows if r.kind == 'S_EDT')
    return [r.get('Name') for r in rows if r.kind == 'S_DT' and r.get('DT_ID') in edts]


def user_type_names(rows):
    udts = set(r.get('DT_ID') for r in rows if r.kind == 'S_UDT')
    return [r.get('Name') for r in rows if r.kind == 'S_DT' and r.get('DT_ID') in udts]


def fresh_type_name(rows):
    have = set(r.get('Name') for r in rows if r.kind == 'S_DT')
    n, name = 1, 'Added_T'
    while name in have:
        n += 1
        name = 'Added_T%d' % n
    return name


def site_ops(rows, types):
    ops = []
    comps = component_names(rows)
    for kl in R.class_names(rows):
        order = R.attr_order(rows, kl) if R._attr_rows(rows, kl) else []
        for nm in order:
            ops.append(['rename_attr', kl, nm, nm + '_renamed'])
            for ty in types:
                ops.append(['retype_attr', kl, nm, ty])
            if any(r.kind == 'O_NBATTR' and r.get('Attr_ID') == [a for a in R._attr_rows(rows, kl) if a.get('Name') == nm][0].get('Attr_ID')
                   for r in rows):
                ops.append(['make_derived', kl, nm])
        for ty in types:
            ops.append(['add_attr', kl, 'Added', ty])
        for c in comps:
            ops.append(['move_class', kl, c])
        ops.append(['move_class', kl, None])
    for en in enum_names(rows):
        names = [r.get('Name') for r in X.enum_order(rows, en)]
        ops.append(['add_enumerator', en, 'Added', None])
        ops.append(['add_enumerator', en, 'Added', 0])
        if len(names) > 1:
            ops.append(['add_enumerator', en, 'Added', 1])
            for p in list(itertools.permutations(names))[1:6]:
                ops.append(['reorder_enumerators', en, list(p)])
    tname = fresh_type_name(rows)
    for where in [None] + comps:
        for base in types[:7] + [u for u in user_type_names(rows) if u not in types[:7]]:
            ops.append(['add_udt', tname, base, where])      # (also on top of the user types of the model: layers)
        if 'Added_E' not in enum_names(rows):
            ops.append(['add_enum', 'Added_E', ['P', 'Q', 'R'], where])
    for tn in user_type_names(rows) + enum_names(rows):
        for where in comps + [None]:
            ops.append(['move_type', tn, where])
    for pn in X.package_names(rows):
        for where in comps + [None]:
            if X.package_names(rows).count(pn) == 1 and X.can_move_package(rows, pn, where):
                ops.append(['move_package', pn, where])
    for s in range(3):
        ops.append(['permute_rows', s])
    ops.append(['reverse_rows'])
    if 'Comp2' not in comps:
        ops.append(['add_component', 'Comp2', [['Extra', 'XTR', [['N', 'integer'], ['S', 'My_Enum' if 'My_Enum' in types else 'string']]]]])
    return ops


def encloses(rows, outer, inner):
    w = X.XWalk(rows)
    return w.component_id(outer) in w.containers(w.component_id(inner))


def observe(rows, comp, load_globals):
    from bridgepoint import gen_xsd_schema
    from xtuml import where_eq
    m = R.load(R.print_rows(rows), load_globals)
    c_c = m.select_any('C_C', where_eq(Name=comp))
    assert c_c is not None
    schema = gen_xsd_schema.build_schema(m, c_c)
    raw = ET.tostring(schema, 'utf-8')
    pretty = gen_xsd_schema.prettify(raw)
    return raw, pretty


def diff_violation(obs0, obs1, ref0, ref1):
    """The declarations changed exactly as the reference declarations did (types the property is silent about left out)."""
    names = set(ref0.get('unclear', [])) | set(ref1.get('unclear', []))
    do = X.diff(X.strip_enum_base(X.without(obs0, names)), X.strip_enum_base(X.without(obs1, names)))
    strip = lambda d: dict((k, v) for k, v in d.items() if k != 'unclear')
    dr = X.diff(strip(X.without(ref0, names)), strip(X.without(ref1, names)))
    return None if do == dr else dict(clause='edit-changes-exactly', observed=do, required=dr)


def observe_model(m, comp):
    from bridgepoint import gen_xsd_schema
    from xtuml import where_eq
    c_c = m.select_any('C_C', where_eq(Name=comp))
    assert c_c is not None
    schema = gen_xsd_schema.build_schema(m, c_c)
    raw = ET.tostring(schema, 'utf-8')
    return raw, gen_xsd_schema.prettify(raw)


def run_session(case):
    """One loaded model, a schema for every component before the script and after each of its edits."""
    out = []
    rows = C14.seed(case['seed'])
    load_globals = C14.with_globals(case['seed'])
    live = L.Live(rows, load_globals)
    glob = R.seed_rows('globals') if load_globals else []
    script = case.get('script', [])
    prev = {}
    for g in range(len(script) + 1):
        if g:
            apply_op(rows, script[g - 1])
            live.sync(rows)
        bad = live.verify(rows)
        if bad:
            return [dict(clause='harness-error', observed=bad, required='the loaded model follows the rows (edit %d)' % g)]
        walk = X.XWalk(rows + glob)
        cur = {}
        for comp in component_names(rows):
            where = dict(generation=g, after=script[g - 1] if g else None, component=comp)
            ref = walk.expected(comp)
            try:
                raw, pretty = observe_model(live.m, comp)
            except BaseException as e:
                if isinstance(e, (KeyboardInterrupt, MemoryError)):
                    raise
                out.append(dict(clause='build-raises', observed=dict(where, error=traceback.format_exc().splitlines()[-3:]), required='a schema'))
                return out
            try:
                obs, odd = X.read_xsd(pretty)
                obs_raw, _ = X.read_xsd(raw)
            except ET.ParseError as e:
                out.append(dict(clause='well-formed-xml', observed=dict(where, error=str(e)), required='XML'))
                return out
            if obs != obs_raw:
                out.append(dict(clause='well-formed-xml', observed=dict(where, error='prettify changes the declarations'), required='same document'))
            if odd:
                out.append(dict(clause='schema-shape', observed=dict(where, odd=odd), required='simple types + one component element'))
            vs = []
            X.compare(obs, ref, vs)
            for v in vs:
                out.append(dict(clause=v['clause'], observed=dict(where, declared=v['observed']), required=v['required']))
            if comp in prev and not vs:
                v = diff_violation(prev[comp][0], obs, prev[comp][1], ref)
                if v:
                    out.append(dict(clause=v['clause'], observed=dict(where, changes=v['observed']), required=v['required']))
            cur[comp] = (obs, ref)
        if out:
            return out          # later generations repeat the same difference
        prev = cur
    return out


def run_case(case):
    if case.get('session'):
        return run_session(case)
    out = []
    comp = case['comp']
    rows = C14.seed(case['seed'])
    load_globals = C14.with_globals(case['seed'])
    script = case.get('script', [])
    states = []
    for op in script[:-1]:
        apply_op(rows, op)
    if script:
        states.append([r.copy() for r in rows])
        apply_op(rows, script[-1])
    states.append(rows)
    observed, refs = [], []
    for i, st in enumerate(states):
        last = i == len(states) - 1
        ref = X.XWalk(st + (R.seed_rows('globals') if load_globals else [])).expected(comp)
        if ref is None:
            observed.append(None)
            refs.append(None)
            continue
        try:
            raw, pretty = observe(st, comp, load_globals)
        except BaseException as e:
            if isinstance(e, (KeyboardInterrupt, MemoryError)):
                raise
            out.append(dict(clause='build-raises', observed=traceback.format_exc().splitlines()[-3:], required='a schema'))
            return out
        try:
            obs, odd = X.read_xsd(pretty)
            obs_raw, _ = X.read_xsd(raw)
        except ET.ParseError as e:
            out.append(dict(clause='well-formed-xml', observed=str(e), required='XML'))
            return out
        if obs != obs_raw:
            out.append(dict(clause='well-formed-xml', observed='prettify changes the declarations', required='same document'))
        observed.append(obs)
        refs.append(ref)
        if not last:
            continue
        if odd:
            out.append(dict(clause='schema-shape', observed=odd, required='simple types + one component element'))
        X.compare(obs, ref, out)
    if len(states) == 2 and observed[0] is not None and observed[1] is not None:
        v = diff_violation(observed[0], observed[1], refs[0], refs[1])
        if v:
            out.append(v)
    return out


def check_case(ctx, case):
    ctx.case(key=case, nontrivial=True)
    try:
        vs = run_case(case)
    except BaseException as e:
        if isinstance(e, (KeyboardInterrupt, MemoryError)):
            raise
        ctx.check(False, clause='harness-error', input=case, observed=traceback.format_exc().splitlines()[-4:], required='case runs')
        return
    for v in vs:
        ctx.check(False, clause=v['clause'], input=case, observed=v['observed'], required=v['required'])


def real_cases(depth):
    rows = R.seed_rows('Simple_Model')
    ops = site_ops(rows, RETYPES)
    yield dict(seed='Simple_Model', script=[], comp='Comp')
    yield dict(seed='Globals', script=[['add_component', 'Comp2', [['Extra', 'XTR', [['N', 'integer'], ['S', 'string']]]]]], comp='Comp2')
    for op in ops:
        yield dict(seed='Simple_Model', script=[op], comp='Comp')
        if op[0] == 'add_component':
            yield dict(seed='Simple_Model', script=[op], comp='Comp2')
    two = ops[-1]
    assert two[0] == 'add_component'
    rows1 = R.seed_rows('Simple_Model')
    apply_op(rows1, two)
    for op in site_ops(rows1, RETYPES):
        for comp in ('Comp', 'Comp2'):
            yield dict(seed='Simple_Model', script=[two, op], comp=comp)
    if depth >= 2:
        for op1 in site_ops(rows, RETYPES[:4])[:-1]:
            rows1 = R.seed_rows('Simple_Model')
            apply_op(rows1, op1)
            for op2 in site_ops(rows1, RETYPES[:6]):
                if op2[0] == 'add_component':
                    continue
                if op1[0] == op2[0] and op1[0] in ('add_attr', 'add_udt', 'add_enum', 'add_enumerator') and op1[1:3] == op2[1:3]:
                    continue    # the same name twice
                if op2[0] in ('add_udt', 'add_enum') and op1[0] in ('add_udt', 'add_enum') and op1[1] == op2[1]:
                    continue
                yield dict(seed='Simple_Model', script=[op1, op2], comp='Comp')


@item('real-models', stands_in_for=['bridgepoint.gen_xsd_schema.build_schema', 'bridgepoint.gen_xsd_schema.build_component',
                                    'bridgepoint.gen_xsd_schema.build_class', 'bridgepoint.gen_xsd_schema.build_type',
                                    'bridgepoint.gen_xsd_schema.build_core_type', 'bridgepoint.gen_xsd_schema.build_enum_type',
                                    'bridgepoint.gen_xsd_schema.build_user_type', 'bridgepoint.gen_xsd_schema.get_type_name',
                                    'bridgepoint.gen_xsd_schema.get_refered_attribute', 'bridgepoint.gen_xsd_schema.prettify'],
      bound='tests/resources/Simple_Model.xtuml (+Globals.xtuml): every single edit (rename, retype/add attribute with 10 types, '
            'derive, move class to each component/top level, add enumerator front/middle/end, reorder enumerators, add user '
            'type on 7 bases / enumeration globally or in a component, 4 row orders, second component) at every site; every edit '
            'after adding a second component, for both components; thorough: every pair of edits (types restricted to 4 x 6)',
      shards=6, weight=3)
def real_models(ctx):
    for i, case in enumerate(real_cases(1 if ctx.quick else 2)):
        if i % ctx.nshards != ctx.shard:
            continue
        if ctx.expired():
            ctx.exhausted = False
            break
        check_case(ctx, case)
    else:
        ctx.exhausted = True


def synth_cases(quick, rng_seed):
    for d in S.single_relationship_diagrams():
        if d['rels'] and d['rels'][0][0] in ('simple', 'linked') and d['rels'][0][4:8] != [0, 0, 0, 0] and d['rels'][0][5:9] != [0, 0, 0, 0]:
            continue     # multiplicities do not matter for C20: one combination per shape
        for layout in ('L1', 'L2', 'L3', 'L4'):
            dd = dict(d, layout=layout)
            for comp in S.components_of(layout):
                yield dict(seed=['synth', dd], script=[], comp=comp)
    n = 300 if quick else 5000
    for i in range(n):
        rng = random.Random('c20/synth/%s/%d' % (rng_seed, i))
        d = S.random_diagram(rng)
        d['layout'] = rng.choice(['L1', 'L2', 'L3', 'L4'])
        if not S.well_formed(d):
            continue
        comp = rng.choice(S.components_of(d['layout']))
        rows = S.build(d)
        script = []
        for _ in range(rng.choice([0, 1, 1, 2])):
            ops = []
            for o in site_ops(rows, SYNTH_TYPES):
                if o[0] == 'add_component':
                    continue
                if o[0] in ('add_udt', 'add_enum'):
                    # a type placed in a component that encloses the generated one: scope not defined by the property
                    if o[3] is not None and o[3] != comp and encloses(rows, o[3], comp):
                        continue
                    if any(s[0] in ('add_udt', 'add_enum') for s in script):
                        continue
                if any(s[:3] == o[:3] for s in script):
                    continue
                ops.append(o)
            op = rng.choice(ops)
            apply_op(rows, op)
            script.append(op)
        ok = True
        if ok:
            yield dict(seed=['synth', d], script=script, comp=comp)


@item('synthesised-diagrams', stands_in_for=['bridgepoint.gen_xsd_schema.build_schema', 'bridgepoint.gen_xsd_schema.build_class',
                                             'bridgepoint.ooaofooa.is_contained_in', 'bridgepoint.ooaofooa.is_global'],
      bound='class diagrams with <=3 classes and <=3 relationships in 4 component layouts (package in component, two components, '
            'nested component, classes directly in a component): every one-relationship shape for each component (exhaustive); '
            '300 (quick) / 5000 (thorough) seeded random diagrams with attributes of 10 types, derived attributes and 0-2 edits',
      shards=3, weight=2)
def synthesised(ctx):
    for i, case in enumerate(synth_cases(ctx.quick, ctx.seed)):
        if i % ctx.nshards != ctx.shard:
            continue
        if ctx.expired():
            ctx.exhausted = False
            break
        check_case(ctx, case)
    else:
        ctx.exhausted = True
    if ctx.shard == 0:
        ctx.note('attribute order inside a class element, minOccurs/maxOccurs, the restriction base of enumerations and the scope of types '
                 'that live in a component enclosing the generated one are not demanded by the property and are not compared')


# ------------------------------------------------------------------ layered user types ------------------------------------------------
LAYER_BASES = ['boolean', 'integer', 'real', 'string', 'unique_id', 'My_Enum', 'date', 'timestamp', 'inst_ref<Object>', 'state<State_Model>']
SYNTH_LAYER_BASES = ['boolean', 'integer', 'real', 'string', 'unique_id', 'Colour', 'Len', 'date', 'inst_ref<Object>']


def layer_script(base, depth, wheres, tag='Layer'):
    """User types tag1 on base, tag2 on tag1, ...; wheres: where each layer lives (None: global, else a component)."""
    script, below = [], base
    for d in range(depth):
        script.append(['add_udt', '%s%d' % (tag, d + 1), below, wheres[d % len(wheres)]])
        below = '%s%d' % (tag, d + 1)
    return script, below


def layer_cases(quick):
    """A stack of 1..3 user types on every base type, used by a base attribute that referential attributes refer to, by a
    plain attribute and by a new attribute; the layers live globally and / or in components."""
    # the real model: Class.Id is referred to by Reflexive_Class.Id and Assoc_Class.One_Id / Other_Id, Subtype.Id by Supertype.Id and Class.Other_Id
    patterns = [[None], ['Comp'], [None, 'Comp'], ['Comp', None]]
    n = 0
    for base in LAYER_BASES:
        for depth in (1, 2, 3):
            for pat in patterns if not quick else [patterns[(n + depth) % 4], patterns[(n + depth + 1) % 4]]:
                script, top = layer_script(base, depth, pat)
                for use in (['retype_attr', 'Class', 'Id', top], ['retype_attr', 'Subtype', 'Id', top], ['add_attr', 'Supertype', 'Added', top]):
                    yield dict(seed='Simple_Model', script=script + [use], comp='Comp')
            n += 1
    # two components: the layers live in the other component / the use is in the other component
    addc = ['add_component', 'Comp2', [['Extra', 'XTR', [['N', 'integer'], ['S', 'string']]]]]
    for base in LAYER_BASES:
        for depth in (2, 3):
            script, top = layer_script(base, depth, ['Comp2', None, 'Comp'])
            for use in (['retype_attr', 'XTR', 'N', top], ['retype_attr', 'Class', 'Id', top]):
                for comp in ('Comp', 'Comp2'):
                    yield dict(seed='Simple_Model', script=[addc] + script + [use], comp=comp)
    # synthesised diagrams: the identifier of a class that others refer to (simple, reflexive, linked, subtype) gets the stack
    shapes = [dict(classes=S.classes_for(2), rels=[['simple', 1, 'A', 'B', 0, 0, 1, 1, 'has', 'is of']]),
              dict(classes=S.classes_for(1), rels=[['simple', 2, 'A', 'A', 0, 1, 0, 1, 'follows', 'leads']]),
              dict(classes=S.classes_for(3), rels=[['linked', 3, 'C', 'A', 'B', 1, 0, 1, 1, 'near', 'far']]),
              dict(classes=S.classes_for(3), rels=[['subsup', 6, 'A', ['B', 'C']]]),
              dict(classes=S.classes_for(3), rels=[['simple', 1, 'B', 'A', 1, 1, 0, 0, '', ''], ['subsup', 2, 'B', ['C']]])]
    n = 0
    for d in shapes:
        for layout in ('L1', 'L2', 'L3', 'L4'):
            dd = dict(d, layout=layout)
            comps = S.components_of(layout)
            rows = S.build(dd)
            referred = set()
            t = R.Tables(rows)
            kl_of = dict((o['Obj_ID'], o['Key_Lett']) for o in t['O_OBJ'])
            for r in t['O_RATTR']:
                referred.add(kl_of[r['BObj_ID']])
            for base in SYNTH_LAYER_BASES:
                for depth in (1, 2, 3):
                    n += 1
                    if quick and n % 3:
                        continue
                    script, top = layer_script(base, depth, [None] + comps)
                    for kl in sorted(referred):
                        if 'Id' in R.attr_order(rows, kl):
                            for comp in comps if not quick else [comps[n % len(comps)]]:
                                yield dict(seed=['synth', dd], script=script + [['retype_attr', kl, 'Id', top]], comp=comp)


@item('type-layers', stands_in_for=['bridgepoint.gen_xsd_schema.build_class', 'bridgepoint.gen_xsd_schema.build_user_type',
                                    'bridgepoint.gen_xsd_schema.get_type_name', 'bridgepoint.gen_xsd_schema.get_refered_attribute'],
      bound='stacks of 1-3 user types on each of 10 base types (5 supported core types, enumeration, user type, date, timestamp, '
            'inst_ref<Object>, state<State_Model>), the layers global and/or in a component, used by an attribute that referential '
            'attributes refer to (directly and through a chain), by a plain and by a new attribute: Simple_Model with one and two '
            'components; 5 synthesised relationship shapes (simple, reflexive, linked, subtypes, chain) x 4 component layouts '
            '(quick: every third stack, one component; 2 of 4 placements)',
      shards=3, weight=1)
def type_layers(ctx):
    for i, case in enumerate(layer_cases(ctx.quick)):
        if i % ctx.nshards != ctx.shard:
            continue
        if ctx.expired():
            ctx.exhausted = False
            break
        check_case(ctx, case)
    else:
        ctx.exhausted = True
    if ctx.shard == 0:
        ctx.note('whether a simple type is declared for a user type stacked on a user type whose innermost base is not a supported '
                 'type (date, inst_ref<Object>, ...) is not said by the property and is not compared; its attributes are (none declared)')


# ------------------------------------------------------------------ sessions: several generations from one model -----------------------
ADD_COMP2 = ['add_component', 'Comp2', [['Extra', 'XTR', [['N', 'integer'], ['S', 'My_Enum']]]]]


def session_ops(rows, types, script):
    """The edits applicable now (no second component of the same name, no type name twice)."""
    ops = []
    for o in site_ops(rows, types):
        if o[0] == 'add_component' and any(s[0] == 'add_component' for s in script):
            continue
        if o[0] == 'add_attr' and R._attr_rows(rows, o[1]) and o[2] in R.attr_order(rows, o[1]):
            continue
        if o[0] == 'add_enumerator' and o[2] in [r.get('Name') for r in X.enum_order(rows, o[1])]:
            continue
        if o[0] == 'rename_attr' and o[3] in R.attr_order(rows, o[1]):
            continue
        ops.append(o)
    return ops


MOVES = ('move_class', 'move_type', 'move_package')


def random_session(rng, rows, types, length, p_move=0.5):
    script = []
    for _ in range(length):
        ops = session_ops(rows, types, script)
        moves = [o for o in ops if o[0] in MOVES]
        pool = moves if moves and rng.random() < p_move else ops
        op = rng.choice(pool)
        apply_op(rows, op)
        script.append(op)
    return script


def session_cases(quick, rng_seed):
    # the real model with a second component: every move there, back, and somewhere else, other edits in between
    plain = lambda rs: [o for o in site_ops(rs, RETYPES) if o[0] not in MOVES and o[0] not in ('add_component', 'permute_rows', 'reverse_rows')]
    rows = R.seed_rows('Simple_Model')
    first = plain(rows)             # edits possible before the second component exists
    apply_op(rows, ADD_COMP2)
    moves = [o for o in site_ops(rows, RETYPES) if o[0] in MOVES]
    others = plain(rows)
    for i, mv in enumerate(moves):
        back = [mv[0], mv[1], 'Comp' if mv[2] != 'Comp' else 'Comp2']
        if mv[0] == 'move_package':
            rows1 = [r.copy() for r in rows]
            apply_op(rows1, mv)
            if not X.can_move_package(rows1, back[1], back[2]):
                back = None
        other = others[(i * 7) % len(others)]
        yield dict(seed='Simple_Model', session=True, script=[ADD_COMP2, mv] + ([back] if back else []) + [other])
        yield dict(seed='Simple_Model', session=True, script=[first[(i * 11) % len(first)], ADD_COMP2, mv] + ([back, mv] if back else []))
    # a move before the second component exists (to the top level and back)
    rows = R.seed_rows('Simple_Model')
    for mv in [o for o in site_ops(rows, RETYPES) if o[0] in MOVES and o[2] is None]:
        yield dict(seed='Simple_Model', session=True, script=[mv, [mv[0], mv[1], 'Comp'], ADD_COMP2, [mv[0], mv[1], 'Comp2']])
    # every other edit once between two generations
    for i, other in enumerate(o for o in site_ops(rows, RETYPES) if o[0] not in MOVES):
        if quick and i % 3:
            continue
        yield dict(seed='Simple_Model', session=True, script=[other])
    # random sessions on the real model
    # (the random sessions are built only by the shard that runs them: a callable -> case or None)
    def real(i):
        rng = random.Random('c20/session/real/%s/%d' % (rng_seed, i))
        rows = R.seed_rows('Simple_Model')
        script = [ADD_COMP2] if rng.random() < 0.7 else []
        for op in script:
            apply_op(rows, op)
        script += random_session(rng, rows, RETYPES, rng.choice([2, 3, 4, 5]))
        return dict(seed='Simple_Model', session=True, script=script)

    def synth(i):
        rng = random.Random('c20/session/synth/%s/%d' % (rng_seed, i))
        d = S.random_diagram(rng)
        d['layout'] = rng.choice(['L1', 'L2', 'L2', 'L3', 'L3', 'L4'])
        if not S.well_formed(d):
            return None
        rows = S.build(d)
        script = random_session(rng, rows, SYNTH_TYPES, rng.choice([2, 3, 4, 5]), p_move=0.6)
        return dict(seed=['synth', d], session=True, script=script)

    # random sessions on the real model
    for i in range(120 if quick else 2500):
        yield lambda i=i: real(i)
    # random sessions on synthesised diagrams in every component layout
    for i in range(240 if quick else 5000):
        yield lambda i=i: synth(i)


@item('sessions', stands_in_for=['bridgepoint.gen_xsd_schema.build_schema', 'bridgepoint.gen_xsd_schema.build_component',
                                 'bridgepoint.ooaofooa.is_contained_in', 'bridgepoint.ooaofooa.is_global'],
      bound='one loaded model per session, a schema for EVERY component before the script and after each edit (2-7 generations '
            'per component in one process), edits applied to the loaded model through relate/unrelate/new/delete/attribute '
            'assignment: Simple_Model + second component: every move of a class / user type / enumeration / package to each '
            'component and the top level, back, and again, with one other edit; every other edit alone (quick: every third); '
            '120 (quick) / 2500 (thorough) random sessions of 2-5 edits on the real model, 240 / 5000 on random diagrams '
            '(<=3 classes, <=3 relationships) in 4 component layouts, half of the edits moves',
      shards=4, weight=2)
def sessions(ctx):
    for i, case in enumerate(session_cases(ctx.quick, ctx.seed)):
        if i % ctx.nshards != ctx.shard:
            continue
        if ctx.expired():
            ctx.exhausted = False
            break
        if callable(case):
            case = case()
        if case is not None:
            check_case(ctx, case)
    else:
        ctx.exhausted = True


def replay(item_name, input):
    return run_case(input)
