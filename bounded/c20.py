"""C20 (bounded tier) -- XSD generation mirrors the component's classes and data types.

Inputs are (seed model, edit script, component name).  After the script the real gen_xsd_schema.build_schema(m, c_c)
runs; ET.tostring(...) and prettify(...) of it must parse as XML, and the parsed document must declare exactly what an
independent walk of the model rows (bounded/_c20_ref.py) expects.

Clauses
  well-formed-xml      ET.tostring / prettify output parses with ElementTree, both parse to the same declarations
  schema-shape         only simpleType declarations and one component element at top level, classes inside complexType/sequence
  type-set             one simple type per supported core / enumeration / user data type in scope (global or in the component)
  type-base            base of core types (xs:boolean, xs:integer, xs:decimal, xs:string, xs:integer) and of user types (base type name)
  enumerators          enumerators of every enumeration, in modeled (R56) order
  component-element    the component element is named as the component
  class-elements       one element per class contained in the component (nested packages/components included)
  class-attributes     one attribute per non-derived attribute of supported type, named as modeled, typed by the base type
  edit-changes-exactly diff(before, after) of the generated declarations == diff of the reference declarations
  build-raises         build_schema raised on a well-formed model
"""
import vlib.fresh_ply  # noqa: F401
import itertools
import random
import traceback
import xml.etree.ElementTree as ET

from vlib.bounded import item

from . import _c14_rows as R
from . import _c14_synth as S
from . import _c20_ref as X
from . import c14 as C14

RETYPES = ['integer', 'string', 'real', 'boolean', 'unique_id', 'My_Enum', 'My_Integer', 'date', 'state<State_Model>', 'timestamp']
SYNTH_TYPES = ['integer', 'string', 'real', 'boolean', 'Colour', 'Len', 'date', 'inst_ref<Object>', 'timestamp']


def apply_op(rows, op):
    k = op[0]
    if k == 'add_attr':
        X.edit_add_attr(rows, op[1], op[2], op[3])
    elif k == 'add_udt':
        X.edit_add_udt(rows, op[1], op[2], op[3])
    elif k == 'add_enum':
        X.edit_add_enum(rows, op[1], op[2], op[3])
    elif k == 'add_enumerator':
        X.edit_add_enumerator(rows, op[1], op[2], op[3])
    elif k == 'reorder_enumerators':
        X.edit_reorder_enumerators(rows, op[1], op[2])
    elif k == 'move_class':
        X.edit_move_class(rows, op[1], op[2])
    else:
        C14.apply_op(rows, op)


def component_names(rows):
    return [r.get('Name') for r in rows if r.kind == 'C_C']


def enum_names(rows):
    edts = set(r.get('DT_ID') for r in rows if r.kind == 'S_EDT')
    return [r.get('Name') for r in rows if r.kind == 'S_DT' and r.get('DT_ID') in edts]


def site_ops(rows, types):
    ops = []
    comps = component_names(rows)
    for kl in R.class_names(rows):
        order = R.attr_order(rows, kl) if R._attr_rows(rows, kl) else []
        for nm in order:
            ops.append(['rename_attr', kl, nm, nm + '_renamed'])
            for ty in types:
                ops.append(['retype_attr', kl, nm, ty])
            if any(r.kind == 'O_NBATTR' and r.get('Attr_ID') == [a for a in R._attr_rows(rows, kl) if a.get('Name') == nm][0].get('Attr_ID')
                   for r in rows):
                ops.append(['make_derived', kl, nm])
        for ty in types:
            ops.append(['add_attr', kl, 'Added', ty])
        for c in comps:
            ops.append(['move_class', kl, c])
        ops.append(['move_class', kl, None])
    for en in enum_names(rows):
        names = [r.get('Name') for r in X.enum_order(rows, en)]
        ops.append(['add_enumerator', en, 'Added', None])
        ops.append(['add_enumerator', en, 'Added', 0])
        if len(names) > 1:
            ops.append(['add_enumerator', en, 'Added', 1])
            for p in list(itertools.permutations(names))[1:6]:
                ops.append(['reorder_enumerators', en, list(p)])
    for where in [None] + comps:
        for base in types[:7]:
            ops.append(['add_udt', 'Added_T', base, where])
        ops.append(['add_enum', 'Added_E', ['P', 'Q', 'R'], where])
    for s in range(3):
        ops.append(['permute_rows', s])
    ops.append(['reverse_rows'])
    if 'Comp2' not in comps:
        ops.append(['add_component', 'Comp2', [['Extra', 'XTR', [['N', 'integer'], ['S', 'My_Enum' if 'My_Enum' in types else 'string']]]]])
    return ops


def encloses(rows, outer, inner):
    w = X.XWalk(rows)
    return w.component_id(outer) in w.containers(w.component_id(inner))


def observe(rows, comp, load_globals):
    from bridgepoint import gen_xsd_schema
    from xtuml import where_eq
    m = R.load(R.print_rows(rows), load_globals)
    c_c = m.select_any('C_C', where_eq(Name=comp))
    assert c_c is not None
    schema = gen_xsd_schema.build_schema(m, c_c)
    raw = ET.tostring(schema, 'utf-8')
    pretty = gen_xsd_schema.prettify(raw)
    return raw, pretty


def run_case(case):
    out = []
    comp = case['comp']
    rows = C14.seed(case['seed'])
    load_globals = C14.with_globals(case['seed'])
    script = case.get('script', [])
    states = []
    for op in script[:-1]:
        apply_op(rows, op)
    if script:
        states.append([r.copy() for r in rows])
        apply_op(rows, script[-1])
    states.append(rows)
    observed, refs = [], []
    for i, st in enumerate(states):
        last = i == len(states) - 1
        ref = X.XWalk(st + (R.seed_rows('globals') if load_globals else [])).expected(comp)
        if ref is None:
            observed.append(None)
            refs.append(None)
            continue
        try:
            raw, pretty = observe(st, comp, load_globals)
        except BaseException as e:
            if isinstance(e, (KeyboardInterrupt, MemoryError)):
                raise
            out.append(dict(clause='build-raises', observed=traceback.format_exc().splitlines()[-3:], required='a schema'))
            return out
        try:
            obs, odd = X.read_xsd(pretty)
            obs_raw, _ = X.read_xsd(raw)
        except ET.ParseError as e:
            out.append(dict(clause='well-formed-xml', observed=str(e), required='XML'))
            return out
        if obs != obs_raw:
            out.append(dict(clause='well-formed-xml', observed='prettify changes the declarations', required='same document'))
        observed.append(obs)
        refs.append(ref)
        if not last:
            continue
        if odd:
            out.append(dict(clause='schema-shape', observed=odd, required='simple types + one component element'))
        X.compare(obs, ref, out)
    if len(states) == 2 and observed[0] is not None and observed[1] is not None:
        do = X.diff(X.strip_enum_base(observed[0]), X.strip_enum_base(observed[1]))
        dr = X.diff(refs[0], refs[1])
        if do != dr:
            out.append(dict(clause='edit-changes-exactly', observed=do, required=dr))
    return out


def check_case(ctx, case):
    ctx.case(key=case, nontrivial=True)
    try:
        vs = run_case(case)
    except BaseException as e:
        if isinstance(e, (KeyboardInterrupt, MemoryError)):
            raise
        ctx.check(False, clause='harness-error', input=case, observed=traceback.format_exc().splitlines()[-4:], required='case runs')
        return
    for v in vs:
        ctx.check(False, clause=v['clause'], input=case, observed=v['observed'], required=v['required'])


def real_cases(depth):
    rows = R.seed_rows('Simple_Model')
    ops = site_ops(rows, RETYPES)
    yield dict(seed='Simple_Model', script=[], comp='Comp')
    yield dict(seed='Globals', script=[['add_component', 'Comp2', [['Extra', 'XTR', [['N', 'integer'], ['S', 'string']]]]]], comp='Comp2')
    for op in ops:
        yield dict(seed='Simple_Model', script=[op], comp='Comp')
        if op[0] == 'add_component':
            yield dict(seed='Simple_Model', script=[op], comp='Comp2')
    two = ops[-1]
    assert two[0] == 'add_component'
    rows1 = R.seed_rows('Simple_Model')
    apply_op(rows1, two)
    for op in site_ops(rows1, RETYPES):
        for comp in ('Comp', 'Comp2'):
            yield dict(seed='Simple_Model', script=[two, op], comp=comp)
    if depth >= 2:
        for op1 in site_ops(rows, RETYPES[:4])[:-1]:
            rows1 = R.seed_rows('Simple_Model')
            apply_op(rows1, op1)
            for op2 in site_ops(rows1, RETYPES[:6]):
                if op2[0] == 'add_component':
                    continue
                if op1[0] == op2[0] and op1[0] in ('add_attr', 'add_udt', 'add_enum', 'add_enumerator') and op1[1:3] == op2[1:3]:
                    continue    # the same name twice
                if op2[0] in ('add_udt', 'add_enum') and op1[0] in ('add_udt', 'add_enum') and op1[1] == op2[1]:
                    continue
                yield dict(seed='Simple_Model', script=[op1, op2], comp='Comp')


@item('real-models', stands_in_for=['bridgepoint.gen_xsd_schema.build_schema', 'bridgepoint.gen_xsd_schema.build_component',
                                    'bridgepoint.gen_xsd_schema.build_class', 'bridgepoint.gen_xsd_schema.build_type',
                                    'bridgepoint.gen_xsd_schema.build_core_type', 'bridgepoint.gen_xsd_schema.build_enum_type',
                                    'bridgepoint.gen_xsd_schema.build_user_type', 'bridgepoint.gen_xsd_schema.get_type_name',
                                    'bridgepoint.gen_xsd_schema.get_refered_attribute', 'bridgepoint.gen_xsd_schema.prettify'],
      bound='tests/resources/Simple_Model.xtuml (+Globals.xtuml): every single edit (rename, retype/add attribute with 10 types, '
            'derive, move class to each component/top level, add enumerator front/middle/end, reorder enumerators, add user '
            'type on 7 bases / enumeration globally or in a component, 4 row orders, second component) at every site; every edit '
            'after adding a second component, for both components; thorough: every pair of edits (types restricted to 4 x 6)',
      shards=10, weight=3)
def real_models(ctx):
    for i, case in enumerate(real_cases(1 if ctx.quick else 2)):
        if i % ctx.nshards != ctx.shard:
            continue
        if ctx.expired():
            ctx.exhausted = False
            break
        check_case(ctx, case)
    else:
        ctx.exhausted = True


def synth_cases(quick, rng_seed):
    for d in S.single_relationship_diagrams():
        if d['rels'] and d['rels'][0][0] in ('simple', 'linked') and d['rels'][0][4:8] != [0, 0, 0, 0] and d['rels'][0][5:9] != [0, 0, 0, 0]:
            continue     # multiplicities do not matter for C20: one combination per shape
        for layout in ('L1', 'L2', 'L3', 'L4'):
            dd = dict(d, layout=layout)
            for comp in S.components_of(layout):
                yield dict(seed=['synth', dd], script=[], comp=comp)
    n = 300 if quick else 5000
    for i in range(n):
        rng = random.Random('c20/synth/%s/%d' % (rng_seed, i))
        d = S.random_diagram(rng)
        d['layout'] = rng.choice(['L1', 'L2', 'L3', 'L4'])
        if not S.well_formed(d):
            continue
        comp = rng.choice(S.components_of(d['layout']))
        rows = S.build(d)
        script = []
        for _ in range(rng.choice([0, 1, 1, 2])):
            ops = []
            for o in site_ops(rows, SYNTH_TYPES):
                if o[0] == 'add_component':
                    continue
                if o[0] in ('add_udt', 'add_enum'):
                    # a type placed in a component that encloses the generated one: scope not defined by the property
                    if o[3] is not None and o[3] != comp and encloses(rows, o[3], comp):
                        continue
                    if any(s[0] in ('add_udt', 'add_enum') for s in script):
                        continue
                if any(s[:3] == o[:3] for s in script):
                    continue
                ops.append(o)
            op = rng.choice(ops)
            apply_op(rows, op)
            script.append(op)
        ok = True
        if ok:
            yield dict(seed=['synth', d], script=script, comp=comp)


@item('synthesised-diagrams', stands_in_for=['bridgepoint.gen_xsd_schema.build_schema', 'bridgepoint.gen_xsd_schema.build_class',
                                             'bridgepoint.ooaofooa.is_contained_in', 'bridgepoint.ooaofooa.is_global'],
      bound='class diagrams with <=3 classes and <=3 relationships in 4 component layouts (package in component, two components, '
            'nested component, classes directly in a component): every one-relationship shape for each component (exhaustive); '
            '300 (quick) / 5000 (thorough) seeded random diagrams with attributes of 10 types, derived attributes and 0-2 edits',
      shards=6, weight=2)
def synthesised(ctx):
    for i, case in enumerate(synth_cases(ctx.quick, ctx.seed)):
        if i % ctx.nshards != ctx.shard:
            continue
        if ctx.expired():
            ctx.exhausted = False
            break
        check_case(ctx, case)
    else:
        ctx.exhausted = True
    if ctx.shard == 0:
        ctx.note('attribute order inside a class element, minOccurs/maxOccurs, the restriction base of enumerations and the scope of types '
                 'that live in a component enclosing the generated one are not demanded by the property and are not compared')


def replay(item_name, input):
    return run_case(input)
