"""BridgePoint model *text* builder shared by the bounded modules c04 / c08 / c15.

A model is described as rows (table name + column values), exactly what BridgePoint writes into *.xtuml files,
and printed as positional `INSERT INTO T VALUES (...)` statements.  The text is then loaded with the real
`bridgepoint.ooaofooa` loader, so that classes, associations, functions, operations, bridges, derived attributes,
enumerations and constants reach the code under test the way they do for a user (`build_component` -> `mk_component`).

Only public entry points of pyxtuml are used: ooaofooa.Loader(load_globals=...), Loader.input, Loader.build_metamodel,
ooaofooa.mk_component, metaclass.attributes (column order of a table).
"""
import uuid

import vlib.fresh_ply  # noqa: F401  (must precede xtuml / bridgepoint)
import xtuml
from bridgepoint import ooaofooa

CORE_DT = dict(void=0, boolean=1, integer=2, real=3, string=4, unique_id=5)
_CORE_BASE = 0xba5eda7adef500000000000000000000
SAME_AS_BASE = _CORE_BASE + 7

_proc = {}


def base_loader():
    """One ooaofooa loader (schema + predefined globals) per process."""
    if 'loader' not in _proc:
        _proc['loader'] = ooaofooa.Loader(load_globals=True)
        _proc['schema'] = _proc['loader'].build_metamodel()
    return _proc['loader']


def columns(table):
    base_loader()
    return _proc['schema'].find_metaclass(table).attributes


def sql_value(value, ty):
    ty = ty.upper()
    if ty == 'STRING':
        return "'%s'" % str(value or '').replace("'", "''")
    if ty == 'UNIQUE_ID':
        return '"%s"' % uuid.UUID(int=int(value or 0))
    if ty == 'BOOLEAN':
        return '%d' % int(bool(value))
    if ty == 'REAL':
        return '%f' % float(value or 0.0)
    return '%d' % int(value or 0)


def sql_row(table, values):
    cols = columns(table)
    known = set(n for n, _ in cols)
    for k in values:
        if k not in known:
            raise KeyError('%s has no column %s' % (table, k))
    return 'INSERT INTO %s\n    VALUES (%s);\n' % (table, ',\n    '.join(sql_value(values.get(n), ty) for n, ty in cols))


class BPModel(object):
    """Rows of one BridgePoint package with classes, associations and callable elements."""

    def __init__(self, package='P'):
        self.rows = []          # (table, dict)
        self._n = 0x1000
        self.classes = {}       # key letters -> info dict
        self.rels = {}
        self.pkg = self.uid()
        self.row('EP_PKG', Package_ID=self.pkg, Name=package)
        self.row('PE_PE', Element_ID=self.pkg, Visibility=1, type=7)
        self._last_tfr = {}
        self._numb = 0

    # -- plumbing ----------------------------------------------------------------------------------------------
    def uid(self):
        self._n += 1
        return self._n

    def row(self, table, **values):
        self.rows.append((table, values))
        return values

    def pe(self, element_id, ty):
        self.row('PE_PE', Element_ID=element_id, Visibility=1, Package_ID=self.pkg, type=ty)

    @staticmethod
    def dt(name):
        return _CORE_BASE + CORE_DT[name]

    def sql(self, order=None):
        rows = self.rows if order is None else [self.rows[i] for i in order]
        return ''.join(sql_row(t, v) for t, v in rows)

    # -- classes -----------------------------------------------------------------------------------------------
    def klass(self, key_lett, attrs, identifier=None, name=None):
        """attrs: list of (name, type) with type in boolean/integer/real/string/unique_id, or (name, type, body) for a
        derived attribute.  identifier: names of the attributes of identifier I1 (default: the first attribute).
        name: the class name (O_OBJ.Name; default: the key letters) - names need not be unique, key letters are."""
        self._numb += 1
        obj = self.uid()
        info = dict(id=obj, attrs={}, last_attr=0, key_lett=key_lett)
        self.classes[key_lett] = info
        self.pe(obj, 4)
        self.row('O_OBJ', Obj_ID=obj, Name=name or key_lett, Numb=self._numb, Key_Lett=key_lett)
        for a in attrs:
            self.attribute(key_lett, *a)
        for oid in (0, 1, 2):
            self.row('O_ID', Oid_ID=oid, Obj_ID=obj)
        for name in (identifier or [attrs[0][0]]):
            self.row('O_OIDA', Attr_ID=info['attrs'][name], Obj_ID=obj, Oid_ID=0, localAttributeName=name)
        for is_set in (False, True):
            d = self.uid()
            self.pe(d, 3)
            self.row('S_DT', DT_ID=d, Name=('inst_ref_set<%s>' if is_set else 'inst_ref<%s>') % key_lett)
            self.row('S_IRDT', DT_ID=d, isSet=is_set, Obj_ID=obj)
        return info

    def attribute(self, key_lett, name, ty, body=None, dt_id=None):
        info = self.classes[key_lett]
        attr = self.uid()
        self.row('O_ATTR', Attr_ID=attr, Obj_ID=info['id'], PAttr_ID=info['last_attr'], Name=name, Root_Nam=name,
                 Pfx_Mode=0, DT_ID=dt_id if dt_id is not None else self.dt(ty))
        self.row('O_BATTR', Attr_ID=attr, Obj_ID=info['id'])
        if body is None:
            self.row('O_NBATTR', Attr_ID=attr, Obj_ID=info['id'])
        else:
            self.row('O_DBATTR', Attr_ID=attr, Obj_ID=info['id'], Action_Semantics_internal=body, Suc_Pars=1)
        info['attrs'][name] = attr
        info['last_attr'] = attr
        return attr

    def _referential(self, key_lett, name, to_key_lett, to_attr, rel, oir, roir):
        info, to = self.classes[key_lett], self.classes[to_key_lett]
        attr = self.uid()
        self.row('O_ATTR', Attr_ID=attr, Obj_ID=info['id'], PAttr_ID=info['last_attr'], Name=name, Root_Nam=name,
                 Pfx_Mode=0, DT_ID=SAME_AS_BASE)
        self.row('O_RATTR', Attr_ID=attr, Obj_ID=info['id'], BAttr_ID=to['attrs'][to_attr], BObj_ID=to['id'], Ref_Mode=1,
                 BaseAttrName=to_attr)
        self.row('O_REF', Obj_ID=info['id'], RObj_ID=to['id'], ROid_ID=0, RAttr_ID=to['attrs'][to_attr], Rel_ID=rel,
                 OIR_ID=oir, ROIR_ID=roir, Attr_ID=attr, ARef_ID=self.uid())
        info['attrs'][name] = attr
        info['last_attr'] = attr

    # -- associations ------------------------------------------------------------------------------------------
    def _rel(self, numb):
        rel = self.uid()
        self.pe(rel, 9)
        self.row('R_REL', Rel_ID=rel, Numb=numb)
        self.rels[numb] = rel
        return rel

    def _rto(self, rel, key_lett, id_attr):
        cls, oir = self.classes[key_lett], self.uid()
        self.row('R_RTO', Obj_ID=cls['id'], Rel_ID=rel, OIR_ID=oir, Oid_ID=0)
        self.row('R_OIR', Obj_ID=cls['id'], Rel_ID=rel, OIR_ID=oir)
        self.row('O_RTIDA', Attr_ID=cls['attrs'][id_attr], Obj_ID=cls['id'], Oid_ID=0, Rel_ID=rel, OIR_ID=oir)
        return oir

    def _rgo(self, rel, key_lett):
        cls, oir = self.classes[key_lett], self.uid()
        self.row('R_RGO', Obj_ID=cls['id'], Rel_ID=rel, OIR_ID=oir)
        self.row('R_OIR', Obj_ID=cls['id'], Rel_ID=rel, OIR_ID=oir)
        return oir

    def simple(self, numb, form, part, part_id_attr, ref_attr, form_many, part_many=False, form_phrase='', part_phrase='',
               form_cond=True, part_cond=True):
        """Simple association R<numb>: class *form* formalizes it with referential *ref_attr* referring to
        *part*.*part_id_attr*.  form_many: many formalizer instances per participant instance."""
        rel = self._rel(numb)
        self.row('R_SIMP', Rel_ID=rel)
        roir = self._rto(rel, part, part_id_attr)
        self.row('R_PART', Obj_ID=self.classes[part]['id'], Rel_ID=rel, OIR_ID=roir, Mult=int(part_many), Cond=int(part_cond),
                 Txt_Phrs=part_phrase)
        oir = self._rgo(rel, form)
        self.row('R_FORM', Obj_ID=self.classes[form]['id'], Rel_ID=rel, OIR_ID=oir, Mult=int(form_many), Cond=int(form_cond),
                 Txt_Phrs=form_phrase)
        self._referential(form, ref_attr, part, part_id_attr, rel, oir, roir)

    def linked(self, numb, one, one_id_attr, oth, oth_id_attr, link, ref_one, ref_oth, one_many=True, oth_many=True,
               one_phrase='', oth_phrase=''):
        """Association R<numb> between *one* and *oth* with association class *link*."""
        rel = self._rel(numb)
        self.row('R_ASSOC', Rel_ID=rel)
        o1 = self._rto(rel, one, one_id_attr)
        self.row('R_AONE', Obj_ID=self.classes[one]['id'], Rel_ID=rel, OIR_ID=o1, Mult=int(one_many), Cond=1, Txt_Phrs=one_phrase)
        o2 = self._rto(rel, oth, oth_id_attr)
        self.row('R_AOTH', Obj_ID=self.classes[oth]['id'], Rel_ID=rel, OIR_ID=o2, Mult=int(oth_many), Cond=1, Txt_Phrs=oth_phrase)
        o3 = self._rgo(rel, link)
        self.row('R_ASSR', Obj_ID=self.classes[link]['id'], Rel_ID=rel, OIR_ID=o3, Mult=0)
        self._referential(link, ref_one, one, one_id_attr, rel, o3, o1)
        self._referential(link, ref_oth, oth, oth_id_attr, rel, o3, o2)

    # -- callable elements -------------------------------------------------------------------------------------
    def _params(self, table, id_col, owner_col, owner, prev_col, params):
        prev = 0
        for name, ty in params:
            p = self.uid()
            self.row(table, **{id_col: p, owner_col: owner, 'Name': name, 'DT_ID': self.dt(ty), prev_col: prev})
            prev = p

    def function(self, name, body, params=(), ret='void'):
        f = self.uid()
        self.pe(f, 1)
        self.row('S_SYNC', Sync_ID=f, Name=name, Action_Semantics_internal=body, DT_ID=self.dt(ret), Suc_Pars=1)
        self._params('S_SPARM', 'SParm_ID', 'Sync_ID', f, 'Previous_SParm_ID', params)
        return f

    def operation(self, key_lett, name, body, params=(), ret='void', instance_based=True):
        info = self.classes[key_lett]
        t = self.uid()
        self.row('O_TFR', Tfr_ID=t, Obj_ID=info['id'], Name=name, DT_ID=self.dt(ret), Instance_Based=int(instance_based),
                 Action_Semantics_internal=body, Suc_Pars=1, Previous_Tfr_ID=self._last_tfr.get(key_lett, 0))
        self._last_tfr[key_lett] = t
        self._params('O_TPARM', 'TParm_ID', 'Tfr_ID', t, 'Previous_TParm_ID', params)
        return t

    def external_entity(self, key_lett, bridges, name=None):
        """bridges: list of (name, body, params, ret)."""
        ee = self.uid()
        self.pe(ee, 5)
        self.row('S_EE', EE_ID=ee, Name=name or key_lett, Key_Lett=key_lett, Label=name or key_lett)
        for name, body, params, ret in bridges:
            b = self.uid()
            self.row('S_BRG', Brg_ID=b, EE_ID=ee, Name=name, Brg_Typ=0, DT_ID=self.dt(ret), Action_Semantics_internal=body,
                     Suc_Pars=1)
            self._params('S_BPARM', 'BParm_ID', 'Brg_ID', b, 'Previous_BParm_ID', params)
        return ee

    def enumeration(self, name, enumerators):
        """Enumerators in modeled order (each one succeeds the previous one across R56)."""
        d = self.uid()
        self.pe(d, 3)
        self.row('S_DT', DT_ID=d, Name=name)
        self.row('S_EDT', DT_ID=d)
        prev = 0
        first = len(self.rows)
        for e in enumerators:
            i = self.uid()
            self.row('S_ENUM', Enum_ID=i, Name=e, EDT_DT_ID=d, Previous_Enum_ID=prev)
            prev = i
        return list(range(first, len(self.rows)))   # indices of the S_ENUM rows

    def constants(self, group, consts):
        """consts: list of (name, type, literal text) in modeled order."""
        c = self.uid()
        self.pe(c, 10)
        self.row('CNST_CSP', Constant_Spec_ID=c, InformalGroupName=group)
        prev = 0
        first = len(self.rows)
        for name, ty, text in consts:
            i = self.uid()
            self.row('CNST_SYC', Const_ID=i, Name=name, DT_ID=self.dt(ty), Constant_Spec_ID=c, Previous_Const_ID=prev)
            self.row('CNST_LFSC', Const_ID=i, DT_ID_Deprecated=self.dt(ty))
            self.row('CNST_LSC', Const_ID=i, DT_ID_Deprecated=self.dt(ty), Value=text)
            prev = i
        return list(range(first, len(self.rows)))


def loader_with(text):
    """A loader holding the ooaofooa schema, the predefined globals and the given model text; build_metamodel() may be
    called on it any number of times (each call gives an independent ooaofooa population)."""
    import copy
    base = base_loader()
    loader = copy.copy(base)                   # same schema statements, own statement list
    loader.statements = list(base.statements)
    loader.input(text, 'generated model')
    return loader


def load(text, with_component=True):
    """Load model text on top of the ooaofooa schema and the predefined globals with the real loader.
    Returns (ooaofooa metamodel, Domain built by mk_component)."""
    mm = loader_with(text).build_metamodel()
    return mm, (ooaofooa.mk_component(mm) if with_component else None)
