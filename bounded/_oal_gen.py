"""Shared generator / reference code of the bounded checks C07 and C13 (OAL parser, bridgepoint/oal.py).

Nothing in this file calls the library.  It contains

* ``N``            a small tree type of our own (class name of the expected library node + its fields),
* ``Printer``      tree -> token list with only the parentheses that the *property statement's* precedence
                   requires (or < and < comparisons < additive < multiplicative < % < unary; equal levels group
                   to the left; comparisons do not associate), recording for every node the index of its first
                   and last token,
* ``layout``       token list -> text with a canonical, tight or random layout (blanks, tabs, line breaks,
                   ``//`` and ``/* */`` comments),
* ``tokenize``     an independent hand-written tokenizer (written from the token rules of the language, no regular
                   expression shared with the library) giving offset / line / column of every token,
* generators of expressions and of every statement production,
* ``plain`` / ``lib_plain`` / ``diff``   comparison of an expected tree with a library tree (class + fields only,
                   positions and source text ignored).
"""
import json

# ------------------------------------------------------------------------------------------------------------
# precedence of the property statement (NOT read from the library's `precedence` tuple)
# ------------------------------------------------------------------------------------------------------------
LEVEL = {'or': 1, 'and': 2,
         '==': 3, '!=': 3, '<': 3, '<=': 3, '>': 3, '>=': 3,
         '+': 4, '-': 4, '|': 4,
         '*': 5, '/': 5, '&': 5, '^': 5,
         '%': 6}
NONASSOC_LEVEL = 3
BINARY_OPS = ['or', 'and', '==', '!=', '<', '<=', '>', '>=', '+', '-', '|', '*', '/', '&', '^', '%']
UNARY_OPS = ['not', 'empty', 'not_empty', 'cardinality', '-', '+']
OPS_OF_LEVEL = {}
for _op in BINARY_OPS:
    OPS_OF_LEVEL.setdefault(LEVEL[_op], []).append(_op)

KEYWORDS = ('assign assigner break bridge send control stop continue create event instance of object delete for '
            'each in generate if elif else relate to across using return select one any many transform unrelate '
            'from while class creator related by instances where cardinality empty false not not_empty true and '
            'or param rcvd_evt self selected loop then').split()
KEYWORD_SET = set(KEYWORDS)

# ------------------------------------------------------------------------------------------------------------
# tree type
# ------------------------------------------------------------------------------------------------------------
PAREN = '(paren)'     # pseudo node: explicit parentheses around an operand; the expected tree is the inner node

STATEMENT_CLASSES = set('''BreakNode ContinueNode ControlNode ReturnNode AssignmentNode InvocationStatementNode
GenerateClassEventNode GenerateCreatorEventNode GenerateInstanceEventNode CreateClassEventNode CreateCreatorEventNode
CreateInstanceEventNode GeneratePreexistingNode CreateObjectNode CreateObjectNoVariableNode DeleteNode ForEachNode
WhileNode IfNode RelateNode RelateUsingNode UnrelateNode UnrelateUsingNode SelectRelatedNode SelectRelatedWhereNode
SelectFromNode SelectFromWhereNode GeneratePortEventNode'''.split())
EXPRESSION_CLASSES = set('''UnaryOperationNode BinaryOperationNode VariableAccessNode SelfAccessNode SelectedAccessNode
ParamAccessNode FieldAccessNode IndexAccessNode IntegerNode RealNode StringNode BooleanNode EnumOrNamedConstantNode
InstanceInvocationNode FunctionInvocationNode ImplicitInvocationNode ClassInvocationNode BridgeInvocationNode
PortInvocationNode'''.split())

# fields of the library's node classes that make up "the tree" (public constructor fields)
FIELDS = {
    'BodyNode': ('block',), 'BlockNode': ('statement_list',), 'StatementListNode': ('children',),
    'BreakNode': (), 'ContinueNode': (), 'ControlNode': (),
    'ReturnNode': ('expression',),
    'AssignmentNode': ('variable_access', 'expression'),
    'InvocationStatementNode': ('invocation',),
    'GenerateClassEventNode': ('event_specification', 'key_letter'),
    'GenerateCreatorEventNode': ('event_specification', 'key_letter'),
    'GenerateInstanceEventNode': ('event_specification', 'variable_access'),
    'CreateClassEventNode': ('variable_name', 'event_specification', 'key_letter'),
    'CreateCreatorEventNode': ('variable_name', 'event_specification', 'key_letter'),
    'CreateInstanceEventNode': ('variable_name', 'event_specification', 'to_variable_access'),
    'GeneratePreexistingNode': ('variable_access',),
    'CreateObjectNode': ('variable_name', 'key_letter'),
    'CreateObjectNoVariableNode': ('key_letter',),
    'DeleteNode': ('variable_name',),
    'EventSpecNode': ('identifier', 'meaning', 'event_data'),
    'EventDataListNode': ('children',),
    'EventDataItemNode': ('name', 'expression'),
    'ForEachNode': ('instance_variable_name', 'set_variable_name', 'block'),
    'WhileNode': ('expression', 'block'),
    'IfNode': ('expression', 'block', 'elif_list', 'else_clause'),
    'ElIfListNode': ('children',), 'ElIfNode': ('expression', 'block'), 'ElseNode': ('block',),
    'RelateNode': ('from_variable_name', 'to_variable_name', 'rel_id', 'phrase'),
    'RelateUsingNode': ('from_variable_name', 'to_variable_name', 'rel_id', 'phrase', 'using_variable_name'),
    'UnrelateNode': ('from_variable_name', 'to_variable_name', 'rel_id', 'phrase'),
    'UnrelateUsingNode': ('from_variable_name', 'to_variable_name', 'rel_id', 'phrase', 'using_variable_name'),
    'SelectRelatedNode': ('cardinality', 'variable_name', 'handle', 'navigation_chain'),
    'SelectRelatedWhereNode': ('cardinality', 'variable_name', 'handle', 'navigation_chain', 'where_clause'),
    'NavigationListNode': ('children',), 'NavigationStepNode': ('key_letter', 'rel_id', 'phrase'),
    'SelectFromNode': ('cardinality', 'variable_name', 'key_letter'),
    'SelectFromWhereNode': ('cardinality', 'variable_name', 'key_letter', 'where_clause'),
    'InstanceInvocationNode': ('handle', 'action_name', 'parameter_list'),
    'FunctionInvocationNode': ('action_name', 'parameter_list'),
    'ImplicitInvocationNode': ('namespace', 'action_name', 'parameter_list'),
    'ClassInvocationNode': ('namespace', 'action_name', 'parameter_list'),
    'BridgeInvocationNode': ('namespace', 'action_name', 'parameter_list'),
    'PortInvocationNode': ('namespace', 'action_name', 'parameter_list'),
    'GeneratePortEventNode': ('port_name', 'action_name', 'parameter_list', 'expression'),
    'ParameterListNode': ('children',), 'ParameterNode': ('name', 'expression'),
    'UnaryOperationNode': ('operator', 'operand'),
    'BinaryOperationNode': ('left', 'operator', 'right'),
    'VariableAccessNode': ('variable_name',),
    'SelfAccessNode': (), 'SelectedAccessNode': (),
    'ParamAccessNode': ('variable_name',),
    'FieldAccessNode': ('handle', 'name'),
    'IndexAccessNode': ('handle', 'expression'),
    'IntegerNode': ('value',), 'RealNode': ('value',), 'StringNode': ('value',), 'BooleanNode': ('value',),
    'EnumOrNamedConstantNode': ('namespace', 'name'),
}


class N(object):
    """Generated node: cls = name of the library node class expected, f = its fields (ordered)."""
    __slots__ = ('cls', 'f', 'span', 'pspan')

    def __init__(self, cls, **fields):
        self.cls = cls
        self.f = fields
        self.span = None     # (index of first token, index of last token), set by the printer
        self.pspan = None    # span including the outermost parentheses written directly around the node, if any

    def __repr__(self):
        return 'N(%s)' % json.dumps(plain(self))


def strip_paren(n):
    while isinstance(n, N) and n.cls == PAREN:
        n = n.f['expr']
    return n


def plain(n):
    """JSON-able form of an expected tree: node -> {'_': class, field: ...}."""
    if isinstance(n, N):
        if n.cls == PAREN:
            return plain(n.f['expr'])
        d = {'_': n.cls}
        for k, v in n.f.items():
            d[k] = plain(v)
        return d
    if isinstance(n, (list, tuple)):
        return [plain(x) for x in n]
    return n


def lib_plain(node, node_base):
    """The same JSON-able form of a tree returned by the library (node_base = bridgepoint.oal.Node)."""
    if isinstance(node, node_base):
        name = type(node).__name__
        fields = FIELDS.get(name)
        if fields is None:
            fields = sorted(k for k in vars(node) if k not in ('position', 'character_stream'))
        d = {'_': name}
        for k in fields:
            d[k] = lib_plain(getattr(node, k, '<missing attribute>'), node_base)
        return d
    if isinstance(node, (list, tuple)):
        return [lib_plain(x, node_base) for x in node]
    return node


def _norm(key, v):
    if key == 'phrase' and v is None:   # "no phrase" is '' or None
        return ''
    return v


def diff(exp, obs, path=()):
    """First difference between two plain trees: (path, expected, observed) or None."""
    if isinstance(exp, dict):
        if not isinstance(obs, dict) or exp.get('_') != obs.get('_'):
            return (list(path), _head(exp), _head(obs))
        for k in exp:
            if k == '_':
                continue
            d = diff(_norm(k, exp[k]), _norm(k, obs.get(k, '<missing>')), path + (k,))
            if d:
                return d
        return None
    if isinstance(exp, list):
        if not isinstance(obs, list) or len(exp) != len(obs):
            return (list(path), _head(exp), _head(obs))
        for i, (a, b) in enumerate(zip(exp, obs)):
            d = diff(a, b, path + (i,))
            if d:
                return d
        return None
    if exp != obs:
        return (list(path), _head(exp), _head(obs))
    return None


def _head(x):
    """Short description of a subtree for violation reports."""
    s = json.dumps(x, sort_keys=True, default=repr)
    return s if len(s) <= 400 else s[:400] + '...'


def get_path(x, path):
    for p in path:
        x = x[p]
    return x


# ------------------------------------------------------------------------------------------------------------
# independent tokenizer (hand written from the lexical rules: blanks/tabs/CR ignored, newline counts a line,
# C comments, // comments to end of line, 'ticked phrases', "strings" on one line, end<ws>for|if|while as one token,
# identifier immediately followed by :: is a namespace, identifiers/keywords, reals, integers, operators)
# ------------------------------------------------------------------------------------------------------------
class Tok(object):
    __slots__ = ('type', 'text', 'start', 'end', 'line', 'col', 'end_line', 'end_col')

    def __init__(self, type, text, start, end, line, col, end_line, end_col):
        self.type, self.text, self.start, self.end = type, text, start, end
        self.line, self.col, self.end_line, self.end_col = line, col, end_line, end_col

    def __repr__(self):
        return 'Tok(%s %r @%d %d:%d-%d:%d)' % (self.type, self.text, self.start, self.line, self.col,
                                              self.end_line, self.end_col)


_TWO = {'::': 'DOUBLECOLON', '==': 'DOUBLEEQUAL', '!=': 'NOTEQUAL', '->': 'ARROW', '<=': 'LE', '>=': 'GE'}
_ONE = {';': 'SEMICOLON', '=': 'EQUAL', '.': 'DOT', '(': 'LPAREN', ')': 'RPAREN', '*': 'TIMES', ':': 'COLON',
        ',': 'COMMA', '[': 'LSQBR', ']': 'RSQBR', '?': 'QMARK', '<': 'LESSTHAN', '>': 'GT', '+': 'PLUS',
        '-': 'MINUS', '|': 'PIPE', '/': 'DIV', '%': 'MOD', '&': 'AMP', '^': 'CARET'}
_DIGITS = '0123456789'
_ALPHA = 'abcdefghijklmnopqrstuvwxyzABCDEFGHIJKLMNOPQRSTUVWXYZ_'
_WORD = _ALPHA + _DIGITS


def _digits(text, i):
    n = len(text)
    while i < n and text[i] in _DIGITS:
        i += 1
    return i


def _exponent(text, i):
    """[eE][-+]?digits at i: end offset or None."""
    n = len(text)
    if i < n and text[i] in 'eE':
        j = i + 1
        if j < n and text[j] in '+-':
            j += 1
        k = _digits(text, j)
        if k > j:
            return k
    return None


def _real(text, i):
    """End offset of a real literal at i or None.  Forms: [d]*.d+ | d+.[exp] | d+exp, each with optional f/F/l/L."""
    n = len(text)
    j = _digits(text, i)
    end = None
    if j < n and text[j] == '.':
        k = _digits(text, j + 1)
        if k > j + 1:
            end = k
        elif j > i:
            end = j + 1
            e = _exponent(text, end)
            if e:
                end = e
    elif j > i:
        end = _exponent(text, j)
    if end is not None and end < n and text[end] in 'fFlL':
        end += 1
    return end


def tokenize(text):
    """List of Tok of `text` (comments and white space dropped; characters that start no token are skipped)."""
    toks = []
    n = len(text)
    i = 0
    line = 1
    bol = 0          # offset of the first character of the current line

    def emit(type, j):
        # token text[i:j]; may contain newlines (ticked phrase, end<newline>if)
        seg = text[i:j]
        nl = seg.count('\n')
        if nl:
            eline = line + nl
            ebol = i + seg.rfind('\n') + 1
        else:
            eline, ebol = line, bol
        toks.append(Tok(type, seg, i, j, line, i - bol + 1, eline, (j - 1) - ebol + 1))
        return eline, ebol

    while i < n:
        c = text[i]
        if c == '\n':
            i += 1
            line += 1
            bol = i
            continue
        if c == ' ' or c == '\t' or c == '\r':
            i += 1
            continue
        if c == '/' and i + 1 < n:
            if text[i + 1] == '*':
                j = text.find('*/', i + 2)
                if j >= 0:
                    seg = text[i:j + 2]
                    nl = seg.count('\n')
                    if nl:
                        line += nl
                        bol = i + seg.rfind('\n') + 1
                    i = j + 2
                    continue
            elif text[i + 1] == '/':
                j = text.find('\n', i)
                if j < 0:          # the parser appends a newline to the text: comment runs to the end
                    i = n
                else:
                    i = j + 1
                    line += 1
                    bol = i
                continue
        if c == "'":
            j = text.find("'", i + 1)
            if j >= 0:
                line, bol = emit('TICKED_PHRASE', j + 1)
                i = j + 1
                continue
            i += 1
            continue
        if c == '"':
            j = i + 1
            while j < n and text[j] != '"' and text[j] != '\n':
                j += 1
            if j < n and text[j] == '"':
                emit('STRING', j + 1)
                i = j + 1
                continue
            i += 1
            continue
        if c in _WORD:
            # end <white space> for|if|while is one token
            if c in 'eE' and text[i:i + 3].lower() == 'end':
                j = i + 3
                while j < n and text[j].isspace():
                    j += 1
                if j > i + 3:
                    hit = None
                    for w in ('for', 'if', 'while'):
                        if text[j:j + len(w)].lower() == w:
                            hit = w
                            break
                    if hit:
                        j += len(hit)
                        line, bol = emit('END_' + hit.upper(), j)
                        i = j
                        continue
            j = i
            while j < n and text[j] in _WORD:
                j += 1
            if text.startswith('::', j):
                emit('NAMESPACE', j)
                i = j
                continue
            if c in _ALPHA:
                word = text[i:j]
                emit(word.upper() if word.lower() in KEYWORD_SET else 'ID', j)
                i = j
                continue
        if c in _DIGITS or c == '.':
            j = _real(text, i)
            if j is not None:
                emit('FRACTION', j)
                i = j
                continue
            if c in _DIGITS:
                j = _digits(text, i)
                emit('NUMBER', j)
                i = j
                continue
        two = text[i:i + 2]
        if two in _TWO:
            emit(_TWO[two], i + 2)
            i += 2
            continue
        if c in _ONE:
            emit(_ONE[c], i + 1)
            i += 1
            continue
        i += 1      # character that starts no token: skipped
    return toks


def _tok_key(t):
    if t.type.startswith('END_'):
        return (t.type, ' '.join(t.text.split()).lower())
    return (t.type, t.text)


_glue_cache = {}


def must_separate(a, b):
    """True when writing token texts a and b without anything between them would not read back as a, b."""
    k = (a, b)
    r = _glue_cache.get(k)
    if r is None:
        ta, tb, tab = tokenize(a), tokenize(b), tokenize(a + b)
        r = [_tok_key(t) for t in tab] != [_tok_key(t) for t in ta + tb]
        _glue_cache[k] = r
    return r


# ------------------------------------------------------------------------------------------------------------
# printer: tree -> tokens (+ spans)
# ------------------------------------------------------------------------------------------------------------
class Printer(object):
    """optional: 'all' (canonical: every optional word written), 'random', 'none'."""

    def __init__(self, rng=None, optional='all'):
        self.rng = rng
        self.optional = optional
        self.toks = []
        self.glue = set()        # indices of tokens that must be followed immediately by the next token (ns::)

    # -- helpers
    def t(self, *texts):
        for s in texts:
            self.toks.append(s)

    def opt(self, *words):
        """optional word(s): written or not, together."""
        if self.optional == 'all' or (self.optional == 'random' and self.rng.random() < 0.5):
            self.t(*words)

    def alt(self, first, *others):
        """alternatives that give the same tree; canonical = first."""
        if self.optional == 'all':
            return first
        if self.optional == 'none':
            return (others or (first,))[-1]
        return self.rng.choice((first,) + others)

    def namespace(self, name):
        self.t(name)
        self.glue.add(len(self.toks) - 1)
        self.t('::')

    # -- expressions
    def expr(self, n):
        start = len(self.toks)
        c = n.cls
        f = n.f
        if c == PAREN:
            self.t('(')
            self.expr(f['expr'])
            self.t(')')
            strip_paren(n).pspan = (start, len(self.toks) - 1)
            n.span = (start, len(self.toks) - 1)
            return
        if c == 'BinaryOperationNode':
            lv = LEVEL[f['operator']]
            self.operand(f['left'], lv, 'left')
            self.t(f['operator'])
            self.operand(f['right'], lv, 'right')
        elif c == 'UnaryOperationNode':
            self.t(f['operator'])
            self.operand(f['operand'], 7, 'unary')
        elif c in ('IntegerNode', 'RealNode', 'StringNode', 'BooleanNode'):
            self.t(f['value'])
        elif c == 'VariableAccessNode':
            self.t(f['variable_name'])
        elif c == 'SelfAccessNode':
            self.t('self')
        elif c == 'SelectedAccessNode':
            self.t('selected')
        elif c == 'ParamAccessNode':
            self.t(self.alt('param', 'rcvd_evt'), '.', f['variable_name'])
        elif c == 'FieldAccessNode':
            self.expr(f['handle'])
            self.t('.', f['name'])
        elif c == 'IndexAccessNode':
            self.expr(f['handle'])
            self.t('[')
            self.expr(f['expression'])
            self.t(']')
        elif c == 'EnumOrNamedConstantNode':
            self.namespace(f['namespace'])
            self.t(f['name'])
        elif c in ('ImplicitInvocationNode', 'ClassInvocationNode', 'BridgeInvocationNode', 'PortInvocationNode'):
            self.namespace(f['namespace'])
            self.t(f['action_name'])
            self.params(f['parameter_list'])
        elif c == 'FunctionInvocationNode':
            self.t('::', f['action_name'])
            self.params(f['parameter_list'])
        elif c == 'InstanceInvocationNode':
            self.expr(f['handle'])
            self.t('.', f['action_name'])
            self.params(f['parameter_list'])
        else:
            raise ValueError('not an expression: %s' % c)
        n.span = (start, len(self.toks) - 1)

    def operand(self, child, parent_level, side):
        """child as operand of an operator of parent_level, parenthesised only where the language requires it."""
        need = False
        if child.cls == 'BinaryOperationNode':
            lc = LEVEL[child.f['operator']]
            if side == 'unary':
                need = True
            elif lc < parent_level:
                need = True
            elif lc == parent_level:
                need = side == 'right' or lc == NONASSOC_LEVEL
        if need:
            start = len(self.toks)
            self.t('(')
            self.expr(child)
            self.t(')')
            child.pspan = (start, len(self.toks) - 1)
        else:
            self.expr(child)

    def params(self, plist):
        start = len(self.toks)
        self.t('(')
        inner = len(self.toks)
        for i, p in enumerate(plist.f['children']):
            if i:
                self.t(',')
            s = len(self.toks)
            self.t(p.f['name'], ':')
            self.expr(p.f['expression'])
            p.span = (s, len(self.toks) - 1)
        if plist.f['children']:
            plist.span = (inner, len(self.toks) - 1)
        self.t(')')

    # -- statements
    def program(self, body):
        for s in body.f['block'].f['statement_list'].f['children']:
            self.stmt(s)
            self.t(';')

    def block(self, b):
        for s in b.f['statement_list'].f['children']:
            self.stmt(s)
            self.t(';')

    def phrase(self, ph):
        """a phrase is stored with its ticks; the ticks are optional when it is a single identifier"""
        inner = ph[1:-1]
        if (inner and inner[0] in _ALPHA and all(ch in _WORD for ch in inner) and inner.lower() not in KEYWORD_SET
                and not inner.lower().startswith('end')):
            self.t(self.alt(ph, inner))
        else:
            self.t(ph)

    def evspec(self, e):
        start = len(self.toks)
        f = e.f
        self.t(f['identifier'])
        if self.optional == 'random' and self.rng.random() < 0.3:
            self.t('*')          # polymorphic marker, not part of the tree
        if f['meaning'] is not None:
            self.t(':')
            self.phrase(f['meaning'])
        items = f['event_data'].f['children']
        if items:
            self.t('(')
            for i, p in enumerate(items):
                if i:
                    self.t(',')
                self.t(p.f['name'], ':')
                self.expr(p.f['expression'])
            self.t(')')
        elif self.alt(False, True):
            self.t('(', ')')
        e.span = (start, len(self.toks) - 1)

    def rel_tail(self, f):
        self.t('across', f['rel_id'])
        if f['phrase']:
            self.t('.')
            self.phrase(f['phrase'])
        if 'using_variable_name' in f:
            self.t('using', f['using_variable_name'])

    def invocation_with_prefix(self, inv, allow_plain):
        c = inv.cls
        if c == 'BridgeInvocationNode':
            self.t('bridge')
        elif c == 'ClassInvocationNode':
            self.t('transform')
        elif c == 'PortInvocationNode':
            self.t('send')
        elif c == 'InstanceInvocationNode' and not allow_plain:
            self.t('transform')

    def stmt(self, n):
        start = len(self.toks)
        c, f = n.cls, n.f
        if c == 'BreakNode':
            self.t('break')
        elif c == 'ContinueNode':
            self.t('continue')
        elif c == 'ControlNode':
            self.t('control', 'stop')
        elif c == 'ReturnNode':
            self.t('return')
            if f['expression'] is not None:
                self.expr(f['expression'])
        elif c == 'AssignmentNode':
            e = strip_paren(f['expression'])
            ec = e.cls if e is f['expression'] else None     # a parenthesised invocation is a plain expression
            if ec == 'BridgeInvocationNode':
                self.t('bridge')
            elif ec == 'ClassInvocationNode':
                self.t('transform')
            elif ec == 'PortInvocationNode':
                self.t('send')
            elif ec == 'InstanceInvocationNode':
                # "transform v = h.op()" and "[assign] v = h.op()" give the same tree
                w = self.alt('transform', 'assign', '')
                if w:
                    self.t(w)
            else:
                self.opt('assign')
            self.expr(f['variable_access'])
            self.t('=')
            self.expr(f['expression'])
        elif c == 'InvocationStatementNode':
            inv = f['invocation']
            ic = inv.cls
            if ic == 'BridgeInvocationNode':
                self.t('bridge')
            elif ic == 'ClassInvocationNode':
                self.t('transform')
            elif ic == 'PortInvocationNode':
                self.t('send')
            elif ic == 'InstanceInvocationNode':
                self.opt('transform')
            self.expr(inv)
        elif c == 'GeneratePortEventNode':
            self.t('send')
            self.namespace(f['port_name'])
            self.t(f['action_name'])
            self.params(f['parameter_list'])
            self.t('to')
            self.expr(f['expression'])
        elif c in ('GenerateClassEventNode', 'GenerateCreatorEventNode'):
            self.t('generate')
            self.evspec(f['event_specification'])
            self.t('to', f['key_letter'])
            self.t(self.alt('class', 'assigner') if c == 'GenerateClassEventNode' else 'creator')
        elif c == 'GenerateInstanceEventNode':
            self.t('generate')
            self.evspec(f['event_specification'])
            self.t('to')
            self.expr(f['variable_access'])
        elif c in ('CreateClassEventNode', 'CreateCreatorEventNode'):
            self.t('create', 'event', 'instance', f['variable_name'], 'of')
            self.evspec(f['event_specification'])
            self.t('to', f['key_letter'])
            self.t(self.alt('class', 'assigner') if c == 'CreateClassEventNode' else 'creator')
        elif c == 'CreateInstanceEventNode':
            self.t('create', 'event', 'instance', f['variable_name'], 'of')
            self.evspec(f['event_specification'])
            self.t('to')
            self.expr(f['to_variable_access'])
        elif c == 'GeneratePreexistingNode':
            self.t('generate')
            self.expr(f['variable_access'])
        elif c == 'CreateObjectNode':
            self.t('create', 'object', 'instance', f['variable_name'], 'of', f['key_letter'])
        elif c == 'CreateObjectNoVariableNode':
            self.t('create', 'object', 'instance', 'of', f['key_letter'])
        elif c == 'DeleteNode':
            self.t('delete', 'object', 'instance', f['variable_name'])
        elif c == 'ForEachNode':
            self.t('for', 'each', f['instance_variable_name'], 'in', f['set_variable_name'])
            self.opt('loop')
            self.block(f['block'])
            self.t('end for')
        elif c == 'WhileNode':
            self.t('while')
            self.expr(f['expression'])
            self.opt('loop')
            self.block(f['block'])
            self.t('end while')
        elif c == 'IfNode':
            self.t('if')
            self.expr(f['expression'])
            self.opt('then')
            self.block(f['block'])
            for e in f['elif_list'].f['children']:
                s = len(self.toks)
                self.t('elif')
                self.expr(e.f['expression'])
                self.opt('then')
                self.block(e.f['block'])
                e.span = (s + 1, len(self.toks) - 1)
            if f['else_clause'] is not None:
                s = len(self.toks)
                self.t('else')
                self.block(f['else_clause'].f['block'])
                f['else_clause'].span = (s, len(self.toks) - 1)
            self.t('end if')
        elif c in ('RelateNode', 'RelateUsingNode'):
            self.t('relate', f['from_variable_name'], 'to', f['to_variable_name'])
            self.rel_tail(f)
        elif c in ('UnrelateNode', 'UnrelateUsingNode'):
            self.t('unrelate', f['from_variable_name'], 'from', f['to_variable_name'])
            self.rel_tail(f)
        elif c in ('SelectFromNode', 'SelectFromWhereNode'):
            self.t('select', f['cardinality'], f['variable_name'], 'from')
            self.opt('instances', 'of')
            self.t(f['key_letter'])
            if c == 'SelectFromWhereNode':
                self.t('where')
                self.expr(f['where_clause'])
        elif c in ('SelectRelatedNode', 'SelectRelatedWhereNode'):
            self.t('select', f['cardinality'], f['variable_name'], 'related', 'by')
            self.expr(f['handle'])
            for st in f['navigation_chain'].f['children']:
                s = len(self.toks)
                self.t('->', st.f['key_letter'], '[', st.f['rel_id'])
                if st.f['phrase']:
                    self.t('.')
                    self.phrase(st.f['phrase'])
                self.t(']')
                st.span = (s, len(self.toks) - 1)
            if c == 'SelectRelatedWhereNode':
                self.t('where')
                self.expr(f['where_clause'])
        else:
            raise ValueError('not a statement: %s' % c)
        n.span = (start, len(self.toks) - 1)


def print_expr(n, rng=None, optional='all'):
    p = Printer(rng, optional)
    p.expr(n)
    return p


def print_program(body, rng=None, optional='all'):
    p = Printer(rng, optional)
    p.program(body)
    return p


# ------------------------------------------------------------------------------------------------------------
# layout: tokens -> text
# ------------------------------------------------------------------------------------------------------------
_COMMENT_BITS = [' ', 'c', 'note', 'x = 1;', '*', '**', '/', '//', '"', "'", 'end if', '\t', '/*', '(', ':', '0.5',
                 'if', '::']


def _block_comment(rng, multiline):
    bits = [rng.choice(_COMMENT_BITS + (['\n', '\n', '\r\n'] if multiline else [])) for _ in range(rng.randint(0, 5))]
    body = ''.join(bits)
    while '*/' in body:
        body = body.replace('*/', '* /')
    return '/*' + body + '*/'


def _line_comment(rng):
    bits = [rng.choice(_COMMENT_BITS + ['*/']) for _ in range(rng.randint(0, 4))]
    return '//' + ''.join(bits) + rng.choice(['\n', '\n', '\r\n'])


def _rand_sep(rng, must, newlines=True):
    r = rng.random()
    if not must and r < 0.3:
        return ''
    if r < 0.55:
        return ' '
    out = []
    for _ in range(rng.choice((1, 1, 2, 2, 3))):
        k = rng.random()
        if k < 0.25:
            out.append(' ' * rng.randint(1, 4))
        elif k < 0.4:
            out.append('\t')
        elif k < 0.65 and newlines:
            out.append(rng.choice(['\n', '\n', '\n\n', '\r\n', '\n   ', '\n\t']))
        elif k < 0.8:
            out.append(_block_comment(rng, newlines and rng.random() < 0.4))
        elif k < 0.9 and newlines:
            out.append(_line_comment(rng))
        else:
            out.append(' ')
    s = ''.join(out)
    if must and not s:
        s = ' '
    return s


def _end_token(tok, rng, style, multiline_tokens):
    a, b = tok.split(' ')
    if style != 'random':
        return tok
    if multiline_tokens and rng.random() < 0.5:
        ws = rng.choice(['\n', ' \n ', '\n\n', '\r\n\t'])
    else:
        ws = rng.choice([' ', ' ', '  ', '\t', ' \t '])
    return a + ws + b


def layout(toks, glue, rng=None, style='canon', multiline_tokens=False):
    """Text of the token list.  style: 'canon' one blank between tokens; 'tight' nothing between tokens where
    the tokens stay apart by themselves; 'random' blanks, tabs, line breaks and comments."""
    want = list(toks)
    for attempt in range(8):
        out = []
        if style == 'random':
            out.append(_rand_sep(rng, False))
        for i, tk in enumerate(toks):
            text = _end_token(tk, rng, style, multiline_tokens) if tk in ('end if', 'end for', 'end while') else tk
            out.append(text)
            if i + 1 == len(toks):
                break
            if i in glue:
                continue
            must = must_separate(tk, toks[i + 1])
            if style == 'canon':
                sep = ' '
            elif style == 'tight':
                sep = ' ' if must else ''
            else:
                sep = _rand_sep(rng, must)
                if sep and sep[0] == '/' and text[-1] == '/':
                    sep = ' ' + sep
            out.append(sep)
        if style == 'random':
            out.append(_rand_sep(rng, False))
        text = ''.join(out)
        got = tokenize(text)
        if ([' '.join(g.text.split()) if g.type.startswith('END_') else g.text for g in got] == want
                and all(got[i].type == 'NAMESPACE' for i in glue)):
            return text, got
        if style == 'tight':
            style = 'canon'      # three tokens that only stay apart pairwise: fall back to blanks
        elif style == 'canon':
            break
    raise AssertionError('layout generator: text does not read back as the token list: %r / %r' % (toks, text))


# ------------------------------------------------------------------------------------------------------------
# generators
# ------------------------------------------------------------------------------------------------------------
VARS = ['x', 'y', 'inst', 'my_var', 'a1', '_t', 'cnt', 'Result']
ATTRS = ['name', 'Id', 'value_2', 'count', 'next_state']
KEYLETTERS = ['KL', 'A', 'B_C', 'Dog']
RELIDS = ['R1', 'R23', 'R104']
EVENTS = ['E1', 'KL1', 'EV_done']
NAMESPACES = ['NS', 'LOG', 'Port1', 'A']
ACTIONS = ['f', 'do_it', 'LogInfo', 'op2']
PARAMS = ['p', 'msg', 'arg_1']
INTS = ['0', '1', '42', '007']
REALS = ['1.5', '.5', '2.', '1e5', '2.e-3', '0.25f', '7E+2L', '3.14']
STRINGS = ['"s"', '""', '"a b"', '"it//x"', '"/* no */"', '"\'q\'"', '"end if;"']
BOOLS = ['true', 'false', 'TRUE', 'False']
PHRASES_TICKED = ["'has parent'", "'is'", "'a-b c'", "'x\"y'", "''"]
PHRASES_IDENT = ["'owner'", "'is_a'"]
PHRASES_MULTILINE = ["'two\nlines'"]


def Int(v): return N('IntegerNode', value=v)
def Real(v): return N('RealNode', value=v)
def Str(v): return N('StringNode', value=v)
def Bool(v): return N('BooleanNode', value=v)
def Var(v): return N('VariableAccessNode', variable_name=v)
def Field(h, name): return N('FieldAccessNode', handle=h, name=name)
def Index(h, e): return N('IndexAccessNode', handle=h, expression=e)
def Bin(l, op, r): return N('BinaryOperationNode', left=l, operator=op, right=r)
def Un(op, e): return N('UnaryOperationNode', operator=op, operand=e)
def Paren(e): return N(PAREN, expr=e)
def ParamList(items): return N('ParameterListNode', children=items)
def Block(stmts): return N('BlockNode', statement_list=N('StatementListNode', children=list(stmts)))
def Body(stmts): return N('BodyNode', block=Block(stmts))


LEAF_KINDS = ['int', 'real', 'str', 'bool', 'var', 'field', 'selffield', 'param', 'self', 'selected', 'enum']


def leaf(rng, kind):
    if kind == 'int':
        return Int(rng.choice(INTS))
    if kind == 'real':
        return Real(rng.choice(REALS))
    if kind == 'str':
        return Str(rng.choice(STRINGS))
    if kind == 'bool':
        return Bool(rng.choice(BOOLS))
    if kind == 'var':
        return Var(rng.choice(VARS))
    if kind == 'field':
        h = Field(Var(rng.choice(VARS)), rng.choice(ATTRS))
        if rng.random() < 0.3:
            h = Field(h, rng.choice(ATTRS))
        return h
    if kind == 'selffield':
        return Field(N(rng.choice(['SelfAccessNode', 'SelectedAccessNode'])), rng.choice(ATTRS))
    if kind == 'param':
        p = N('ParamAccessNode', variable_name=rng.choice(PARAMS))
        return Field(p, rng.choice(ATTRS)) if rng.random() < 0.3 else p
    if kind == 'self':
        return N('SelfAccessNode')
    if kind == 'selected':
        return N('SelectedAccessNode')
    if kind == 'enum':
        return N('EnumOrNamedConstantNode', namespace=rng.choice(NAMESPACES), name=rng.choice(ATTRS + ['RED']))
    raise ValueError(kind)


def rand_params(rng, depth):
    return ParamList([N('ParameterNode', name=rng.choice(PARAMS), expression=rand_expr(rng, depth))
                      for _ in range(rng.choice((0, 1, 1, 2, 3)))])


def rand_structure(rng):
    r = rng.random()
    if r < 0.7:
        return Var(rng.choice(VARS))
    return N('SelfAccessNode') if r < 0.9 else N('SelectedAccessNode')


def rand_invocation(rng, depth, kinds=('implicit', 'function', 'instance')):
    k = rng.choice(kinds)
    if k == 'implicit':
        return N('ImplicitInvocationNode', namespace=rng.choice(NAMESPACES), action_name=rng.choice(ACTIONS),
                 parameter_list=rand_params(rng, depth))
    if k == 'function':
        return N('FunctionInvocationNode', action_name=rng.choice(ACTIONS), parameter_list=rand_params(rng, depth))
    return N('InstanceInvocationNode', handle=rand_structure(rng), action_name=rng.choice(ACTIONS),
             parameter_list=rand_params(rng, depth))


def rand_variable_access(rng, depth=1):
    """variable_access of the grammar: name, field access, index access, parameter access (and chains of them)"""
    r = rng.random()
    if r < 0.35:
        return Var(rng.choice(VARS))
    if r < 0.45:
        n = N('ParamAccessNode', variable_name=rng.choice(PARAMS))
    elif r < 0.75:
        n = Field(rand_structure(rng), rng.choice(ATTRS))
    else:
        n = Index(Var(rng.choice(VARS)), rand_expr(rng, depth - 1))
    for _ in range(rng.choice((0, 0, 0, 1, 2))):
        if rng.random() < 0.6:
            n = Field(n, rng.choice(ATTRS))
        else:
            n = Index(n, rand_expr(rng, depth - 1))
    return n


def rand_expr(rng, depth):
    """random expression over every operator and operand kind"""
    if depth <= 0 or rng.random() < 0.2:
        r = rng.random()
        if r < 0.8 or depth <= 0:
            return leaf(rng, rng.choice(LEAF_KINDS))
        if r < 0.9:
            return rand_variable_access(rng, depth)
        return rand_invocation(rng, depth - 1)
    r = rng.random()
    if r < 0.6:
        return Bin(rand_expr(rng, depth - 1), rng.choice(BINARY_OPS), rand_expr(rng, depth - 1))
    if r < 0.8:
        return Un(rng.choice(UNARY_OPS), rand_expr(rng, depth - 1))
    if r < 0.9:
        return Paren(rand_expr(rng, depth - 1))
    if r < 0.95:
        return rand_variable_access(rng, depth)
    return rand_invocation(rng, depth - 1)


# -- exhaustive expression structures --------------------------------------------------------------------------
def structures(depth, bin_ops, un_ops):
    """all operator structures of depth <= depth: 'L' | ('B', op, l, r) | ('U', op, c) | ('P', c)"""
    prev = ['L']
    for _ in range(depth):
        cur = ['L']
        cur.extend(('B', op, l, r) for op in bin_ops for l in prev for r in prev)
        cur.extend(('U', op, c) for op in un_ops for c in prev)
        cur.extend(('P', c) for c in prev)
        prev = cur
    return prev


def count_structures(depth, nbin, nun):
    n = 1
    for _ in range(depth):
        n = 1 + nbin * n * n + nun * n + n
    return n


def structure_at(index, depth, bin_ops, un_ops):
    """index-th structure (same order as structures()) without building the list"""
    if depth == 0 or index == 0:
        return 'L'
    index -= 1
    m = count_structures(depth - 1, len(bin_ops), len(un_ops))
    nb = len(bin_ops) * m * m
    if index < nb:
        op, rest = divmod(index, m * m)
        l, r = divmod(rest, m)
        return ('B', bin_ops[op], structure_at(l, depth - 1, bin_ops, un_ops),
                structure_at(r, depth - 1, bin_ops, un_ops))
    index -= nb
    nu = len(un_ops) * m
    if index < nu:
        op, c = divmod(index, m)
        return ('U', un_ops[op], structure_at(c, depth - 1, bin_ops, un_ops))
    index -= nu
    return ('P', structure_at(index, depth - 1, bin_ops, un_ops))


class LeafCycle(object):
    """hands out operand kinds in turn so that every kind occurs"""
    KINDS = ['int', 'var', 'real', 'field', 'str', 'bool', 'selffield', 'param', 'enum', 'self', 'selected']

    def __init__(self, rng, start=0):
        self.rng = rng
        self.k = start

    def next(self):
        self.k += 1
        return leaf(self.rng, self.KINDS[self.k % len(self.KINDS)])


def build(structure, leaves, opmap=None):
    """structure -> N tree; opmap maps a representative operator to a concrete one (callable)"""
    if structure == 'L':
        return leaves.next()
    tag = structure[0]
    if tag == 'B':
        op = opmap('B', structure[1]) if opmap else structure[1]
        return Bin(build(structure[2], leaves, opmap), op, build(structure[3], leaves, opmap))
    if tag == 'U':
        op = opmap('U', structure[1]) if opmap else structure[1]
        return Un(op, build(structure[2], leaves, opmap))
    return Paren(build(structure[1], leaves, opmap))


def chains3():
    """the four depth-three shapes made of three binary operators, over all operator triples"""
    for a in BINARY_OPS:
        for b in BINARY_OPS:
            for c in BINARY_OPS:
                yield ('B', c, ('B', b, ('B', a, 'L', 'L'), 'L'), 'L')
                yield ('B', c, ('B', b, 'L', ('B', a, 'L', 'L')), 'L')
                yield ('B', c, 'L', ('B', b, ('B', a, 'L', 'L'), 'L'))
                yield ('B', c, 'L', ('B', b, 'L', ('B', a, 'L', 'L')))


# -- statements --------------------------------------------------------------------------------------------------
class Picker(object):
    """Mixed-radix choice: variant number v enumerates every combination of the choices made through pick();
    when v is None (or exceeds the number of combinations) choices are random."""

    def __init__(self, rng, v):
        self.rng = rng
        self.v = v
        self.space = 1

    def pick(self, options):
        options = list(options)
        self.space *= len(options)
        if self.v is None:
            return self.rng.choice(options)
        i = self.v % len(options)
        self.v //= len(options)
        return options[i]

    @property
    def overflow(self):
        return self.v is not None and self.v > 0


def _evspec(rng, pk, depth, multiline):
    meaning = pk.pick(['none', 'ticked', 'ident'])
    ndata = pk.pick([0, 1, 2])
    if meaning == 'none':
        m = None
    elif meaning == 'ticked':
        m = rng.choice(PHRASES_TICKED + (PHRASES_MULTILINE if multiline else []))
    else:
        m = rng.choice(PHRASES_IDENT)
    data = N('EventDataListNode', children=[N('EventDataItemNode', name=rng.choice(PARAMS),
                                              expression=rand_expr(rng, depth)) for _ in range(ndata)])
    return N('EventSpecNode', identifier=rng.choice(EVENTS), meaning=m, event_data=data)


def _phrase(rng, pk, multiline):
    k = pk.pick(['none', 'ticked', 'ident'])
    if k == 'none':
        return ''
    if k == 'ticked':
        return rng.choice(PHRASES_TICKED[:-1] + (PHRASES_MULTILINE if multiline else []))
    return rng.choice(PHRASES_IDENT)


def _instname(rng, pk):
    return 'self' if pk.pick([0, 0, 1]) else rng.choice(VARS)


def _implicit(rng, cls, depth):
    return N(cls, namespace=rng.choice(NAMESPACES), action_name=rng.choice(ACTIONS),
             parameter_list=rand_params(rng, depth))


def _instance_inv(rng, pk, depth):
    h = pk.pick(['var', 'self', 'selected'])
    handle = Var(rng.choice(VARS)) if h == 'var' else N('SelfAccessNode' if h == 'self' else 'SelectedAccessNode')
    return N('InstanceInvocationNode', handle=handle, action_name=rng.choice(ACTIONS),
             parameter_list=rand_params(rng, depth))


def _to_target(rng, pk):
    """target of 'to' in instance event statements: variable_access or self"""
    if pk.pick(['va', 'self']) == 'self':
        return N('SelfAccessNode')
    return rand_variable_access(rng, 1)


def _nav_chain(rng, pk, multiline):
    steps = []
    for _ in range(pk.pick([1, 2, 3])):
        steps.append(N('NavigationStepNode', key_letter=rng.choice(KEYLETTERS), rel_id=rng.choice(RELIDS),
                       phrase=_phrase(rng, Picker(rng, None) if steps else pk, multiline)))
    return N('NavigationListNode', children=steps)


def _hook(rng, pk):
    h = pk.pick(['var', 'self', 'field'])
    if h == 'var':
        return Var(rng.choice(VARS))
    if h == 'self':
        return N('SelfAccessNode')
    return rand_variable_access(rng, 1)


STATEMENT_KINDS = [
    'break', 'continue', 'control_stop', 'return_value', 'return', 'assign',
    'invoke_implicit', 'invoke_function', 'invoke_instance',
    'bridge_assign', 'bridge_invoke', 'transform_instance_assign', 'transform_class', 'transform_class_assign',
    'send_invoke', 'send_assign', 'send_event',
    'generate_class', 'generate_creator', 'generate_instance', 'generate_preexisting',
    'create_event_class', 'create_event_creator', 'create_event_instance',
    'create_object', 'create_object_novar', 'delete',
    'for', 'while', 'if',
    'relate', 'relate_using', 'unrelate', 'unrelate_using',
    'select_from', 'select_from_where', 'select_related', 'select_related_where',
]


def gen_statement(rng, kind, v=None, depth=2, nest=1, multiline=False):
    """(statement tree, picker).  v = variant number (see Picker); depth = expression depth; nest = block nesting"""
    pk = Picker(rng, v)
    E = lambda: rand_expr(rng, depth)

    def block(maxn=2):
        n = pk.pick(list(range(maxn + 1)))
        return Block([gen_statement(rng, rng.choice(STATEMENT_KINDS if nest > 0 else SIMPLE_KINDS), None,
                                    max(depth - 1, 0), nest - 1, multiline)[0] for _ in range(n)])

    if kind == 'break':
        s = N('BreakNode')
    elif kind == 'continue':
        s = N('ContinueNode')
    elif kind == 'control_stop':
        s = N('ControlNode')
    elif kind == 'return_value':
        s = N('ReturnNode', expression=E())
    elif kind == 'return':
        s = N('ReturnNode', expression=None)
    elif kind == 'assign':
        s = N('AssignmentNode', variable_access=rand_variable_access(rng, depth), expression=E())
    elif kind == 'invoke_implicit':
        s = N('InvocationStatementNode', invocation=_implicit(rng, 'ImplicitInvocationNode', depth))
    elif kind == 'invoke_function':
        s = N('InvocationStatementNode', invocation=N('FunctionInvocationNode', action_name=rng.choice(ACTIONS),
                                                      parameter_list=rand_params(rng, depth)))
    elif kind == 'invoke_instance':        # "h.op()" and "transform h.op()"
        s = N('InvocationStatementNode', invocation=_instance_inv(rng, pk, depth))
    elif kind == 'bridge_assign':
        s = N('AssignmentNode', variable_access=rand_variable_access(rng, depth),
              expression=_implicit(rng, 'BridgeInvocationNode', depth))
    elif kind == 'bridge_invoke':
        s = N('InvocationStatementNode', invocation=_implicit(rng, 'BridgeInvocationNode', depth))
    elif kind == 'transform_instance_assign':     # "transform v = h.op()" and "[assign] v = h.op()"
        s = N('AssignmentNode', variable_access=rand_variable_access(rng, depth),
              expression=_instance_inv(rng, pk, depth))
    elif kind == 'transform_class':
        s = N('InvocationStatementNode', invocation=_implicit(rng, 'ClassInvocationNode', depth))
    elif kind == 'transform_class_assign':
        s = N('AssignmentNode', variable_access=rand_variable_access(rng, depth),
              expression=_implicit(rng, 'ClassInvocationNode', depth))
    elif kind == 'send_invoke':
        s = N('InvocationStatementNode', invocation=_implicit(rng, 'PortInvocationNode', depth))
    elif kind == 'send_assign':
        s = N('AssignmentNode', variable_access=rand_variable_access(rng, depth),
              expression=_implicit(rng, 'PortInvocationNode', depth))
    elif kind == 'send_event':
        s = N('GeneratePortEventNode', port_name=rng.choice(NAMESPACES), action_name=rng.choice(ACTIONS),
              parameter_list=rand_params(rng, depth), expression=E())
    elif kind == 'generate_class':         # "... to KL class" and "... to KL assigner"
        s = N('GenerateClassEventNode', event_specification=_evspec(rng, pk, depth, multiline),
              key_letter=rng.choice(KEYLETTERS))
    elif kind == 'generate_creator':
        s = N('GenerateCreatorEventNode', event_specification=_evspec(rng, pk, depth, multiline),
              key_letter=rng.choice(KEYLETTERS))
    elif kind == 'generate_instance':
        s = N('GenerateInstanceEventNode', event_specification=_evspec(rng, pk, depth, multiline),
              variable_access=_to_target(rng, pk))
    elif kind == 'generate_preexisting':
        s = N('GeneratePreexistingNode', variable_access=rand_variable_access(rng, depth))
    elif kind == 'create_event_class':
        s = N('CreateClassEventNode', variable_name=rng.choice(VARS),
              event_specification=_evspec(rng, pk, depth, multiline), key_letter=rng.choice(KEYLETTERS))
    elif kind == 'create_event_creator':
        s = N('CreateCreatorEventNode', variable_name=rng.choice(VARS),
              event_specification=_evspec(rng, pk, depth, multiline), key_letter=rng.choice(KEYLETTERS))
    elif kind == 'create_event_instance':
        s = N('CreateInstanceEventNode', variable_name=rng.choice(VARS),
              event_specification=_evspec(rng, pk, depth, multiline), to_variable_access=_to_target(rng, pk))
    elif kind == 'create_object':
        s = N('CreateObjectNode', variable_name=rng.choice(VARS), key_letter=rng.choice(KEYLETTERS))
    elif kind == 'create_object_novar':
        s = N('CreateObjectNoVariableNode', key_letter=rng.choice(KEYLETTERS))
    elif kind == 'delete':
        s = N('DeleteNode', variable_name=_instname(rng, pk))
    elif kind == 'for':
        s = N('ForEachNode', instance_variable_name=rng.choice(VARS), set_variable_name=rng.choice(VARS),
              block=block())
    elif kind == 'while':
        s = N('WhileNode', expression=E(), block=block())
    elif kind == 'if':
        b = block()
        elifs = [N('ElIfNode', expression=E(), block=block(1)) for _ in range(pk.pick([0, 1, 2]))]
        els = N('ElseNode', block=block(1)) if pk.pick([0, 1]) else None
        s = N('IfNode', expression=E(), block=b, elif_list=N('ElIfListNode', children=elifs), else_clause=els)
    elif kind in ('relate', 'unrelate', 'relate_using', 'unrelate_using'):
        cls = {'relate': 'RelateNode', 'unrelate': 'UnrelateNode', 'relate_using': 'RelateUsingNode',
               'unrelate_using': 'UnrelateUsingNode'}[kind]
        f = dict(from_variable_name=_instname(rng, pk), to_variable_name=_instname(rng, pk),
                 rel_id=rng.choice(RELIDS), phrase=_phrase(rng, pk, multiline))
        if kind.endswith('using'):
            f['using_variable_name'] = _instname(rng, pk)
        s = N(cls, **f)
    elif kind == 'select_from':
        s = N('SelectFromNode', cardinality=pk.pick(['any', 'many']), variable_name=rng.choice(VARS),
              key_letter=rng.choice(KEYLETTERS))
    elif kind == 'select_from_where':
        s = N('SelectFromWhereNode', cardinality=pk.pick(['any', 'many']), variable_name=rng.choice(VARS),
              key_letter=rng.choice(KEYLETTERS), where_clause=E())
    elif kind == 'select_related':
        s = N('SelectRelatedNode', cardinality=pk.pick(['one', 'any', 'many']), variable_name=rng.choice(VARS),
              handle=_hook(rng, pk), navigation_chain=_nav_chain(rng, pk, multiline))
    elif kind == 'select_related_where':
        s = N('SelectRelatedWhereNode', cardinality=pk.pick(['one', 'any', 'many']), variable_name=rng.choice(VARS),
              handle=_hook(rng, pk), navigation_chain=_nav_chain(rng, pk, multiline), where_clause=E())
    else:
        raise ValueError(kind)
    return s, pk


SIMPLE_KINDS = [k for k in STATEMENT_KINDS if k not in ('for', 'while', 'if')]


def gen_program(rng, nstmts, depth=2, nest=1, multiline=False):
    return Body([gen_statement(rng, rng.choice(STATEMENT_KINDS), None, depth, nest, multiline)[0]
                 for _ in range(nstmts)])


# ------------------------------------------------------------------------------------------------------------
# walking an expected tree together with a library tree
# ------------------------------------------------------------------------------------------------------------
def checked_nodes(n, path=()):
    """(node, path) of every statement and expression node of an expected tree; path leads from the root of the
    library tree to the corresponding library node (attribute names and list indices)."""
    if isinstance(n, N):
        if n.cls == PAREN:
            for x in checked_nodes(n.f['expr'], path):
                yield x
            return
        if n.cls in STATEMENT_CLASSES or n.cls in EXPRESSION_CLASSES:
            yield n, path
        for k, v in n.f.items():
            for x in checked_nodes(v, path + (k,)):
                yield x
    elif isinstance(n, list):
        for i, v in enumerate(n):
            for x in checked_nodes(v, path + (i,)):
                yield x


def follow(node, path):
    for p in path:
        node = node[p] if isinstance(p, int) else getattr(node, p)
    return node
