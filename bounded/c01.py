"""C01 (bounded tier) -- persisted models load back unchanged (schema, values, links); one-round fixed point.

Oracle: a plain model description (bounded/_schema_gen.py).  The description is turned into a metamodel through the
public API, that metamodel is written through one *route* of xtuml.persist, the text is loaded by a fresh loader, and the
loaded metamodel is walked through its public interface and compared with `expected_view(description)` -- pure data
derived from the description (classes and types, associations, identifiers, instances per class in order with values
where unset == null of the type and reals are compared on six decimals, links in both directions).  The fixed point is a
relation between two runs of the code as the property states it: serialize(reload) loaded again gives the same text.

Clauses
  serialize-accepted / reload-accepted         writing or loading raised
  same-classes-and-attribute-types, same-associations, same-identifiers,
  same-instances-in-order-with-equal-values, same-links
  fixed-point
  precondition-api-model-matches-description    the model built through the API is not the described one (nothing else
                                                is evaluated for that case)
The item `key-layouts` varies how the key attributes of associations are spelled, ordered and shared: composite keys
whose names sort differently on the two sides or are listed / declared in different orders, and several associations
reaching one class through different identifiers with equal, overlapping or crossed referential names.
Associations are compared by their set of (referential attribute, identifying attribute) pairs -- the order in which an
association lists its pairs carries no meaning.
The item `edited-after-load` persists models that have a *history* (bounded/_c01_hist.py): the model was built through
the API, loaded from an independently written text, reloaded from a first round trip, or its instances existed before
their associations were defined; it is then edited through the public interface (relate, unrelate, attribute writes,
new, delete) and only then written.  The oracle is the description after the edits; the extra clause
`precondition-model-with-history-matches-description` says that the edited model itself, walked through the public
interface, is not the described one (nothing else is evaluated for that case).
In the items `identifier-R-digits` and `phrase-with-quote` every clause is prefixed with the item name: these are the
known domain edges of DESIGN section 6 (K2) and are kept apart from the rest of the space.
"""
import itertools
import locale
import os
import shutil
import tempfile

from vlib.bounded import item

from bounded import _schema_gen as G
from bounded import _c01_hist as H

STANDS_IN = ['xtuml.persist.serialize_database', 'xtuml.persist.serialize_schema', 'xtuml.persist.serialize_instances',
             'xtuml.persist.serialize_unique_identifiers', 'xtuml.persist.persist_database', 'xtuml.persist.persist_schema',
             'xtuml.persist.persist_instances', 'xtuml.persist.persist_unique_identifiers', 'xtuml.persist.serialize',
             'xtuml.load.ModelLoader.input', 'xtuml.load.ModelLoader.build_metamodel']

ROUTES = ('serialize_database', 'serialize_parts', 'serialize_dispatch', 'persist_database', 'persist_parts',
          'persist_parts_append', 'serialize_parts_instances_first')
STRING_ROUTES = ('serialize_database', 'serialize_parts', 'serialize_dispatch', 'serialize_parts_instances_first')
FILE_ROUTES = ('persist_database', 'persist_parts', 'persist_parts_append')
INFERRED_ROUTES = ('instances_only', 'persist_instances_only')


# --------------------------------------------------------------------------------------------------- routes

def reload_via(route, m, tmp):
    """Write metamodel m through one route of the persistence interface and load the result with a fresh loader."""
    import xtuml
    p = lambda n: os.path.join(tmp, n)
    if route == 'serialize_database':
        l = xtuml.ModelLoader()
        l.input(xtuml.serialize_database(m))
        return l.build_metamodel()
    if route == 'serialize_dispatch':
        l = xtuml.ModelLoader()
        l.input(xtuml.serialize(m))
        return l.build_metamodel()
    if route in ('serialize_parts', 'serialize_parts_instances_first'):
        parts = [xtuml.serialize_schema(m), xtuml.serialize_instances(m), xtuml.serialize_unique_identifiers(m)]
        if route == 'serialize_parts_instances_first':
            parts = [parts[1], parts[2], parts[0]]
        l = xtuml.ModelLoader()
        for t in parts:
            l.input(t)
        return l.build_metamodel()
    if route == 'persist_database':
        xtuml.persist_database(m, p('db.sql'))
        return xtuml.load_metamodel(p('db.sql'))
    if route == 'persist_parts':
        xtuml.persist_schema(m, p('schema.sql'))
        xtuml.persist_instances(m, p('inst.sql'))
        xtuml.persist_unique_identifiers(m, p('ids.sql'))
        return xtuml.load_metamodel([p('schema.sql'), p('inst.sql'), p('ids.sql')])
    if route == 'persist_parts_append':
        xtuml.persist_instances(m, p('all.sql'), mode='w')
        xtuml.persist_schema(m, p('all.sql'), mode='a')
        xtuml.persist_unique_identifiers(m, p('all.sql'), mode='a')
        return xtuml.load_metamodel(p('all.sql'))
    if route == 'instances_only':
        l = xtuml.ModelLoader()
        l.input(xtuml.serialize_instances(m))
        return l.build_metamodel()
    if route == 'persist_instances_only':
        xtuml.persist_instances(m, p('inst.sql'))
        return xtuml.load_metamodel(p('inst.sql'))
    raise ValueError(route)


def _file_encodable(desc):
    """The file routes write with the platform's default text encoding; a text it cannot carry is not this property."""
    enc = locale.getpreferredencoding(False)
    try:
        repr_all = u''.join(v for r in desc['rows'] for v in r['values'] if isinstance(v, str))
        repr_all += u''.join(a[e]['phrase'] for a in desc['assocs'] for e in ('source', 'target'))
        repr_all.encode(enc)
        return True
    except (UnicodeError, LookupError):
        return False


def run_case(desc, route, tmp):
    """Evaluate every clause of the property on one description and route.  [(clause, observed, required)]."""
    required = G.expected_view(desc)
    m = G.api_build(desc)
    got = G.observe(m)
    pre = G.diff_views(required, got)
    if pre:
        return [('precondition-api-model-matches-description', [list(x) for x in pre], 'model built through the API equals the description')]
    if route in FILE_ROUTES + ('persist_instances_only',) and not _file_encodable(desc):
        return []
    return round_trip(m, required, route, tmp)


def round_trip(m, required, route, tmp):
    """Write m through the route, load it, compare with the required view; then the fixed point."""
    import xtuml
    try:
        m2 = reload_via(route, m, tmp)
    except Exception as e:
        stage = 'reload-accepted'
        try:
            xtuml.serialize(m)
        except Exception:
            stage = 'serialize-accepted'
        return [(stage, '%s: %s' % (type(e).__name__, str(e)[:300]), 'written text loads')]
    out = G.diff_views(required, G.observe(m2))
    try:
        t1 = xtuml.serialize(m2)
        l = xtuml.ModelLoader()
        l.input(t1)
        t2 = xtuml.serialize(l.build_metamodel())
        if t1 != t2:
            d = next((i for i, (a, b) in enumerate(zip(t1, t2)) if a != b), min(len(t1), len(t2)))
            out.append(('fixed-point', t2[max(0, d - 60):d + 60], t1[max(0, d - 60):d + 60]))
    except Exception as e:
        out.append(('fixed-point', '%s: %s' % (type(e).__name__, str(e)[:300]), 'serialize(reload) loads and reproduces itself'))
    return out


PRE_HISTORY = 'precondition-model-with-history-matches-description'


def run_history_case(desc0, origin, edits, route, tmp):
    """The persisted model has a history: it came into being as `origin` says (holding the model desc0), was edited
    through the public interface, and is then written through the route.  What must load back is the description after
    the edits."""
    desc1 = H.apply_ops(desc0, edits)
    required = G.expected_view(desc1)
    if route in FILE_ROUTES and not (_file_encodable(desc0) and _file_encodable(desc1)):
        return []
    try:
        if origin == 'api':
            m = G.api_build(desc0)
        elif origin == 'loaded':
            m = H.load_independent_text(desc0)
        elif origin == 'reloaded':
            m = reload_via(route, G.api_build(desc0), tmp)
        elif origin == 'late-association':
            m = H.late_association_build(desc0)
        else:
            raise ValueError(origin)
        H.api_apply(m, desc0, edits)
        pre = G.diff_views(required, G.observe(m))
    except Exception as e:
        return [(PRE_HISTORY, '%s: %s' % (type(e).__name__, str(e)[:300]), 'the model can be obtained and edited through the public interface')]
    if pre:
        return [(PRE_HISTORY, [list(x) for x in pre], 'the edited model, walked through the public interface, equals the description after the edits')]
    return round_trip(m, required, route, tmp)


# --------------------------------------------------------------------------------------------------- generators

def values_desc(types, rnd, lower=False, with_id=False):
    attrs = [['A%d' % i, (t.lower() if lower else t)] for i, t in enumerate(types)]
    rows = []
    for j in range(3):
        vals = []
        for pos, t in enumerate(types):
            alpha = G.VALUES[t]
            vals.append(alpha[(rnd + 5 * j + 7 * pos) % len(alpha)])
        rows.append(dict(kind='K', values=vals))
    ids = [dict(kind='K', name='I1', attrs=['A0'])] if (with_id and types) else []
    return dict(classes=[dict(kind='K', attrs=attrs)], assocs=[], ids=ids, rows=rows, links=[])


def values_cases(quick):
    tts = [()]
    for n in (1, 2, 3):
        tts.extend(itertools.product(G.CORE_TYPES, repeat=n))
    for tt in tts:
        rounds = max([len(G.VALUES[t]) for t in tt] or [1])
        for rnd in range(rounds):
            if len(tt) < 3 or not quick:
                routes = ROUTES
            else:
                k = rnd % 3
                routes = (STRING_ROUTES[(rnd + len(tt)) % 4], FILE_ROUTES[k])
            for route in routes:
                yield (list(tt), rnd, rnd % 4 == 3, rnd % 2 == 1, route)


CARDS = ('1', '1C', 'M', 'MC')
SHAPES = ('simple', 'reflexive', 'assoc-class', 'chain', 'two-assocs', 'assoc-class-reflexive')
KEY_TYPES_QUICK = [(t,) for t in G.CORE_TYPES] + [('INTEGER', 'STRING'), ('UNIQUE_ID', 'BOOLEAN'), ('REAL', 'REAL'),
                                                  ('STRING', 'UNIQUE_ID'), ('BOOLEAN', 'INTEGER')]
KEY_TYPES_ALL = [(t,) for t in G.CORE_TYPES] + list(itertools.product(G.CORE_TYPES, repeat=2))
PHRASES = [('', ''), ('is for', 'has'), ('succeeds', 'precedes'), ('TO', u'f\xf6reg\xe5r -- x'), ('M', '1C (x);')]


def key_tuples(ktypes):
    out = []
    for j in range(3):
        t = [G.KEY_VALUES[ty][(j + p) % 3] for p, ty in enumerate(ktypes)]
        if t in out or all(v == G.NULL[ty] for v, ty in zip(t, ktypes)):
            continue
        out.append(t)
    return out


def _end(kind, keys, card, phrase):
    return dict(kind=kind, keys=list(keys), many='M' in card, cond='C' in card, phrase=phrase)


def rel_desc(shape, ktypes, scard, tcard, idv, pop, phr, names=None):
    """One description per point of the relationship space.  names: optional renaming of classes/attributes/indices."""
    nm = (lambda s: names.get(s, s)) if names else (lambda s: s)
    n = len(ktypes)
    K = [nm('K%d' % i) for i in range(n)]
    keys = key_tuples(ktypes)
    smany = 'M' in scard
    classes, assocs, ids, rows, links = [], [], [], [], []
    sp, tp = PHRASES[phr]

    def referred(kind, tag):
        classes.append(dict(kind=kind, attrs=[[k, t] for k, t in zip(K, ktypes)] + [[nm('Name'), 'STRING']]))
        for j, kt in enumerate(keys):
            rows.append(dict(kind=kind, values=list(kt) + ['%s%d' % (tag, j)]))
        if idv >= 1:
            ids.append(dict(kind=kind, name=nm('I1'), attrs=list(K)))
        if idv >= 2:
            ids.append(dict(kind=kind, name=nm('I2'), attrs=[nm('Name')] + list(K[:1])))

    def pattern(nsrc, ntgt, shift=0):
        """links referring index -> referred index, respecting 'each referring row has at most one referred row' and
        'a referred row has several referring rows only when the referring end is many'."""
        if pop == 'none' or ntgt == 0:
            return []
        if pop == 'partial':
            return [(1 % nsrc, 0)] if nsrc else []
        if smany:
            return [(i, (0 if i < 2 else (1 + shift) % ntgt)) for i in range(nsrc)]
        return [(i, (i + shift) % ntgt) for i in range(min(nsrc, ntgt))]

    if shape == 'simple':
        T, S = nm('T'), nm('S')
        referred(T, 't')
        refs = [nm('T_K%d' % i) for i in range(n)]
        classes.append(dict(kind=S, attrs=[[nm('Sid'), 'INTEGER']] + [[r, t] for r, t in zip(refs, ktypes)]))
        for j in range(3):
            rows.append(dict(kind=S, values=[j + 1] + [None] * n))
        assocs.append(dict(rel_id='R1', source=_end(S, refs, scard, sp), target=_end(T, K, tcard, tp)))
        links += [[0, s, t] for s, t in pattern(3, len(keys))]
        if idv >= 2:
            ids.append(dict(kind=S, name=nm('I1'), attrs=[nm('Sid')]))
    elif shape == 'reflexive':
        N = nm('N')
        refs = [nm('P_K%d' % i) for i in range(n)]
        classes.append(dict(kind=N, attrs=[[k, t] for k, t in zip(K, ktypes)] + [[r, t] for r, t in zip(refs, ktypes)]))
        for kt in keys:
            rows.append(dict(kind=N, values=list(kt) + [None] * n))
        if not sp and not tp:
            sp, tp = 'succeeds', 'precedes'
        assocs.append(dict(rel_id='R2', source=_end(N, refs, scard, sp), target=_end(N, K, tcard, tp)))
        nk = len(keys)
        if pop == 'all' and nk > 1:
            links += [[0, i, 0] for i in range(1, nk)] if smany else [[0, i, i - 1] for i in range(1, nk)]
        elif pop == 'partial' and nk > 1:
            links += [[0, 1, 0]]
        elif pop == 'all' and nk == 1:
            links += [[0, 0, 0]]
        if idv >= 1:
            ids.append(dict(kind=N, name=nm('I1'), attrs=list(K)))
    elif shape in ('assoc-class', 'assoc-class-reflexive'):
        A, B, C = nm('A'), nm('B'), nm('C')
        referred(A, 'a')
        if shape == 'assoc-class':
            referred(B, 'b')
        else:
            B = A
            if not sp and not tp:
                sp, tp = 'one', 'other'
        ra = [nm('A_K%d' % i) for i in range(n)]
        rb = [nm('B_K%d' % i) for i in range(n)]
        classes.append(dict(kind=C, attrs=[[r, t] for r, t in zip(ra + rb, ktypes + ktypes)] + ([[nm('Val'), 'REAL']] if n == 1 else [])))
        for j in range(3):
            rows.append(dict(kind=C, values=[None] * (2 * n) + ([j + 0.5] if n == 1 else [])))
        if shape == 'assoc-class':
            assocs.append(dict(rel_id='R3', source=_end(C, ra, scard, sp), target=_end(A, K, tcard, tp)))
            assocs.append(dict(rel_id='R3', source=_end(C, rb, scard, sp), target=_end(B, K, tcard, tp)))
        else:
            assocs.append(dict(rel_id='R3', source=_end(C, ra, scard, sp), target=_end(A, K, tcard, tp)))
            assocs.append(dict(rel_id='R3', source=_end(C, rb, scard, sp + ' too'), target=_end(A, K, tcard, tp + ' too')))
        links += [[0, s, t] for s, t in pattern(3, len(keys))]
        links += [[1, s, t] for s, t in pattern(3, len(keys), 1)]
        if idv >= 2:
            ids.append(dict(kind=C, name=nm('I1'), attrs=ra + rb))
    elif shape == 'chain':
        A, B, C = nm('A'), nm('B'), nm('C')
        referred(A, 'a')
        classes.append(dict(kind=B, attrs=[[k, t] for k, t in zip(K, ktypes)] + [[nm('Name'), 'STRING']]))
        for j in range(len(keys)):
            rows.append(dict(kind=B, values=[None] * n + ['b%d' % j]))
        rc = [nm('B_K%d' % i) for i in range(n)]
        classes.append(dict(kind=C, attrs=[[r, t] for r, t in zip(rc, ktypes)] + [[nm('Val'), 'INTEGER']]))
        for j in range(3):
            rows.append(dict(kind=C, values=[None] * n + [-j]))
        assocs.append(dict(rel_id='R4', source=_end(B, K, '1C', ''), target=_end(A, K, '1', '')))
        assocs.append(dict(rel_id='R5', source=_end(C, rc, scard, sp), target=_end(B, K, tcard, tp)))
        nk = len(keys)
        links += [[0, i, i] for i in range(nk)]        # every B row has a key (an unkeyed one would carry the null key)
        links += [[1, s, t] for s, t in pattern(3, nk)]
        if idv >= 1:
            ids.append(dict(kind=B, name=nm('I1'), attrs=list(K)))
    elif shape == 'two-assocs':
        T, S = nm('T'), nm('S')
        referred(T, 't')
        rx = [nm('X_K%d' % i) for i in range(n)]
        ry = [nm('Y_K%d' % i) for i in range(n)]
        classes.append(dict(kind=S, attrs=[[r, t] for r, t in zip(rx + ry, ktypes + ktypes)]))
        for j in range(3):
            rows.append(dict(kind=S, values=[None] * (2 * n)))
        assocs.append(dict(rel_id='R6', source=_end(S, rx, scard, sp), target=_end(T, K, tcard, tp)))
        assocs.append(dict(rel_id='R1000', source=_end(S, ry, scard, sp), target=_end(T, K, tcard, tp)))
        links += [[0, s, t] for s, t in pattern(3, len(keys))]
        links += [[1, s, t] for s, t in pattern(3, len(keys), 1)]
    else:
        raise ValueError(shape)
    return dict(classes=classes, assocs=assocs, ids=ids, rows=rows, links=links)


def relationship_cases(quick):
    ktl = KEY_TYPES_QUICK if quick else KEY_TYPES_ALL
    shapes = SHAPES
    for shape in shapes:
        for kt in ktl:
            for scard in CARDS:
                for tcard in CARDS:
                    combos = [(i, p, (i + j) % 5) for i in (0, 1, 2) for j, p in enumerate(('all', 'partial', 'none'))
                              if not quick or (i + j) % 3 != 2]
                    for ci, (idv, pop, phr) in enumerate(combos):
                        if quick:
                            routes = (STRING_ROUTES[(ci + CARDS.index(scard)) % 4], FILE_ROUTES[(ci + CARDS.index(tcard)) % 3])
                        else:
                            routes = ROUTES
                        for route in routes:
                            yield (shape, list(kt), scard, tcard, idv, pop, phr, route)


def keyword_cases(quick):
    """Identifiers that are also SQL keywords, cardinality words, type names: as class, attribute, key and index names."""
    names = G.KEYWORDS + G.CARDINALITY_WORDS + G.OTHER_NAMES
    slots = ('T', 'S', 'K0', 'T_K0', 'Name', 'Sid', 'I1', 'N', 'P_K0', 'A', 'C', 'A_K0', 'B_K0', 'Val')
    shape_of = dict(N='reflexive', P_K0='reflexive', A='assoc-class', C='assoc-class', A_K0='assoc-class',
                    B_K0='assoc-class', Val='assoc-class')
    for i, name in enumerate(names):
        for slot in slots:
            shape = shape_of.get(slot, 'simple')
            for ri, route in enumerate(ROUTES if not quick else ('serialize_database', 'persist_parts', 'persist_database')):
                yield (shape, ['UNIQUE_ID'], 'MC', '1', 2, 'all', 1, route, {slot: name})
    # every slot renamed to a different keyword at once
    for shift in range(len(G.KEYWORDS)):
        for shape in ('simple', 'reflexive', 'assoc-class'):
            ren = dict((slot, G.KEYWORDS[(shift + k) % len(G.KEYWORDS)]) for k, slot in enumerate(slots))
            for route in ('serialize_database', 'persist_parts'):
                yield (shape, ['STRING'], 'M', '1C', 2, 'all', 2, route, ren)


R_DIGIT_NAMES = ['R1', 'R2D2', 'R0', 'R12_x']
QUOTE_PHRASES = [("it's", 'has'), ('has', "it's"), ("'", 'x'), ("a''b", 'c')]


def rdigit_cases(quick):
    for name in R_DIGIT_NAMES:
        for slot in ('T', 'K0', 'T_K0', 'I1', 'Name'):
            for route in ('serialize_database', 'persist_parts'):
                yield ('simple', ['INTEGER'], 'MC', '1', 1, 'all', 0, route, {slot: name})


def phrase_cases(quick):
    for pi in range(len(QUOTE_PHRASES)):
        for shape in ('simple', 'reflexive'):
            for route in ('serialize_database', 'persist_parts'):
                yield (shape, ['INTEGER'], 'MC', '1', 0, 'all', pi, route)


def phrase_desc(case):
    shape, kt, scard, tcard, idv, pop, pi, route = case
    d = rel_desc(shape, kt, scard, tcard, idv, pop, 1)
    d['assocs'][0]['source']['phrase'], d['assocs'][0]['target']['phrase'] = QUOTE_PHRASES[pi]
    return d


def inferred_desc(types, rnd):
    """Domain of the CREATE-TABLE-less route (from the file format: positional attributes are called _0, _1, ..., types
    are taken from the first row's literals, a BOOLEAN is written as a number): no boolean attribute, at least one row,
    no association or identifier (they name classes that exist only once the rows are read)."""
    attrs = [['_%d' % i, t] for i, t in enumerate(types)]
    rows = []
    for j in range(3):
        rows.append(dict(kind='K', values=[G.VALUES[t][(rnd + 5 * j + 7 * p) % len(G.VALUES[t])] for p, t in enumerate(types)]))
    rows2 = [dict(kind='L', values=[j]) for j in range(2)]
    return dict(classes=[dict(kind='K', attrs=attrs), dict(kind='L', attrs=[['_0', 'INTEGER']])], assocs=[], ids=[],
                rows=rows + rows2, links=[])


def inferred_cases(quick):
    base = [t for t in G.CORE_TYPES if t != 'BOOLEAN']
    for n in (1, 2, 3):
        for tt in itertools.product(base, repeat=n):
            for rnd in range(max(len(G.VALUES[t]) for t in tt)):
                if quick and n == 3 and rnd % 4:
                    continue
                for route in INFERRED_ROUTES:
                    yield (list(tt), rnd, route)


# --------------------------------------------------------------------------------------------------- key layouts

PERMS = {1: [(0,)], 2: list(itertools.permutations(range(2))), 3: list(itertools.permutations(range(3)))}
ID_NAMES = ['Ka', 'Kb', 'Kc']            # identifying attributes of the referred class, in declaration order
ALT_NAMES = ['Aa', 'Ab']                 # attributes of a second identifier of the same class
REF_POOLS = {'F': ['Fa', 'Fb', 'Fc'],    # referential names that sort like / unlike the identifying names they refer to
             'K': ID_NAMES}              # referential attributes spelled like identifying attributes (of another position)
LAYOUT_TYPES = [('INTEGER', 'STRING', 'UNIQUE_ID'), ('STRING', 'STRING', 'STRING'), ('REAL', 'BOOLEAN', 'INTEGER'),
                ('UNIQUE_ID', 'UNIQUE_ID', 'INTEGER'), ('BOOLEAN', 'STRING', 'REAL')]
LAYOUT_CARDS = [('MC', '1'), ('1C', '1C'), ('M', '1C'), ('MC', 'MC'), ('1', '1'), ('M', 'M')]
POPS = ('all', 'partial', 'none')


def link_pattern(pop, smany, nsrc, ntgt, shift=0):
    """links referring index -> referred index: every referring row has at most one referred row, a referred row has
    several referring rows only when the referring end is many."""
    if pop == 'none' or ntgt == 0 or nsrc == 0:
        return []
    if pop == 'partial':
        return [(1 % nsrc, shift % ntgt)]
    if smany:
        return [(i, (shift % ntgt if i < 2 else (1 + shift) % ntgt)) for i in range(nsrc)]
    return [(i, (i + shift) % ntgt) for i in range(min(nsrc, ntgt))]


def layout_desc(shape, types, sigma, pi, tau, pool, scard, tcard, idv, pop, phr):
    """One association over a composite key whose attribute names are laid out differently on the two sides.
    The identifying attributes Ka, Kb(, Kc) are declared in this order; the referential attribute that refers to the
    i-th of them is called REF_POOLS[pool][sigma[i]] (so sorting the names of one side permutes them differently from
    the other side unless sigma is the identity); the association lists its key pairs in the order pi; the referring
    class declares its referential attributes in the order tau."""
    n = len(types)
    idn = ID_NAMES[:n]
    refn = [REF_POOLS[pool][sigma[i]] for i in range(n)]
    keys = key_tuples(types)
    sp, tp = PHRASES[phr]
    tkeys, skeys = [idn[i] for i in pi], [refn[i] for i in pi]
    ref_decl = [[refn[i], types[i]] for i in tau]
    ids, rows = [], []
    if shape == 'simple':
        classes = [dict(kind='T', attrs=[[k, t] for k, t in zip(idn, types)] + [['Name', 'STRING']]),
                   dict(kind='S', attrs=[['Sid', 'INTEGER']] + ref_decl)]
        rows += [dict(kind='T', values=list(kt) + ['t%d' % j]) for j, kt in enumerate(keys)]
        rows += [dict(kind='S', values=[j + 1] + [None] * n) for j in range(3)]
        assocs = [dict(rel_id='R11', source=_end('S', skeys, scard, sp), target=_end('T', tkeys, tcard, tp))]
        links = [[0, s, t] for s, t in link_pattern(pop, 'M' in scard, 3, len(keys))]
        if idv >= 1:
            ids.append(dict(kind='T', name='I1', attrs=[idn[i] for i in tau]))
        if idv >= 2:
            ids.append(dict(kind='S', name='I1', attrs=['Sid']))
    elif shape == 'reflexive':
        if pool != 'F':
            raise ValueError('a class cannot declare an attribute name twice')
        if not sp and not tp:
            sp, tp = 'succeeds', 'precedes'
        classes = [dict(kind='N', attrs=[[k, t] for k, t in zip(idn, types)] + ref_decl)]
        rows += [dict(kind='N', values=list(kt) + [None] * n) for kt in keys]
        assocs = [dict(rel_id='R12', source=_end('N', skeys, scard, sp), target=_end('N', tkeys, tcard, tp))]
        nk = len(keys)
        if pop == 'none':
            links = []
        elif nk == 1:
            links = [[0, 0, 0]]
        elif pop == 'partial':
            links = [[0, 1, 0]]
        else:
            links = [[0, i, 0] for i in range(1, nk)] if 'M' in scard else [[0, i, i - 1] for i in range(1, nk)]
        if idv >= 1:
            ids.append(dict(kind='N', name='I1', attrs=[idn[i] for i in tau]))
    else:
        raise ValueError(shape)
    return dict(classes=classes, assocs=assocs, ids=ids, rows=rows, links=links)


NAMINGS = ('distinct', 'equal', 'equal-reversed', 'overlap', 'crossed', 'as-referred', 'one-class')
SEVERAL_TYPES = [('INTEGER', 'STRING', 'INTEGER', 'STRING'), ('UNIQUE_ID', 'UNIQUE_ID', 'UNIQUE_ID', 'UNIQUE_ID'),
                 ('STRING', 'REAL', 'UNIQUE_ID', 'BOOLEAN'), ('REAL', 'INTEGER', 'STRING', 'INTEGER')]


def several_names(naming, n1, n2):
    """Names of the referential attributes of the two referring ends, or None when the naming needs longer keys."""
    X = ['Xa', 'Xb', 'Xc']
    if naming == 'distinct':
        return ['P_' + k for k in ID_NAMES[:n1]], ['Q_' + k for k in ALT_NAMES[:n2]]
    if naming == 'equal':                      # equal names (a prefix of the longer list when the lengths differ)
        return X[:n1], X[:n2]
    if naming == 'equal-reversed':             # the same set of names, listed the other way round
        return (X[:n1], X[:n2][::-1]) if n1 == n2 == 2 else None
    if naming == 'overlap':                    # one name in common
        return (X[:n1], X[1:1 + n2]) if n1 == 2 else None
    if naming == 'crossed':                    # each end spells its referentials like the *other* identifier
        return ALT_NAMES[:n1], ID_NAMES[:n2]
    if naming in ('as-referred', 'one-class'):
        return ID_NAMES[:n1], ALT_NAMES[:n2]
    raise ValueError(naming)


def several_desc(n1, n2, types, naming, first, third, scard, tcard, idv, pop, phr):
    """Several associations into one class T through different identifiers: R21 reaches T over (Ka..), R22 over (Aa..),
    optionally R23 over (Ka..) again; the referring ends are classes P, Q (, W) -- or one class S for 'one-class' --
    whose referential attributes are named as `naming` says.  first: which association is defined first."""
    ktypes, atypes = list(types[:n1]), list(types[2:2 + n2])
    pn, qn = several_names(naming, n1, n2)
    kt = key_tuples(ktypes)
    at = key_tuples(atypes)
    at = at[1:] + at[:1]                        # the two identifiers of one row differ also where their types agree
    nt = min(len(kt), len(at))
    sp, tp = PHRASES[phr]
    T = dict(kind='T', attrs=[[k, t] for k, t in zip(ID_NAMES, ktypes)] + [[k, t] for k, t in zip(ALT_NAMES, atypes)] +
                             [['Name', 'STRING']])
    rows = [dict(kind='T', values=list(kt[j]) + list(at[j]) + ['t%d' % j]) for j in range(nt)]
    if naming == 'one-class':
        classes = [T, dict(kind='S', attrs=[['Sid', 'INTEGER']] + [[r, t] for r, t in zip(pn + qn, ktypes + atypes)])]
        rows += [dict(kind='S', values=[j + 1] + [None] * (n1 + n2)) for j in range(3)]
        pk = qk = 'S'
    else:
        classes = [T, dict(kind='P', attrs=[['Pid', 'INTEGER']] + [[r, t] for r, t in zip(pn, ktypes)]),
                   dict(kind='Q', attrs=[[r, t] for r, t in zip(qn, atypes)] + [['Qid', 'INTEGER']])]
        rows += [dict(kind='P', values=[j + 1] + [None] * n1) for j in range(3)]
        rows += [dict(kind='Q', values=[None] * n2 + [j + 10]) for j in range(3)]
        pk, qk = 'P', 'Q'
    smany = 'M' in scard
    a1 = dict(rel_id='R21', source=_end(pk, pn, scard, sp), target=_end('T', ID_NAMES[:n1], tcard, tp))
    a2 = dict(rel_id='R22', source=_end(qk, qn, scard, sp), target=_end('T', ALT_NAMES[:n2], tcard, tp))
    l1, l2 = link_pattern(pop, smany, 3, nt), link_pattern(pop, smany, 3, nt, 1)
    assocs, links = [a1, a2], [[0, s, t] for s, t in l1] + [[1, s, t] for s, t in l2]
    if first:
        assocs, links = [a2, a1], [[1, s, t] for s, t in l1] + [[0, s, t] for s, t in l2]
    if third and naming != 'one-class':
        classes.append(dict(kind='W', attrs=[[r, t] for r, t in zip(pn, ktypes)] + [['Wid', 'INTEGER']]))
        rows += [dict(kind='W', values=[None] * n1 + [j + 20]) for j in range(2)]
        assocs.append(dict(rel_id='R23', source=_end('W', pn, scard, sp), target=_end('T', ID_NAMES[:n1], tcard, tp)))
        links += [[2, s, t] for s, t in link_pattern(pop, smany, 2, nt, 2)]
    ids = []
    if idv >= 1:
        ids += [dict(kind='T', name='I1', attrs=ID_NAMES[:n1]), dict(kind='T', name='I2', attrs=ALT_NAMES[:n2])]
    if idv >= 2:
        ids += [dict(kind='T', name='I3', attrs=['Name'])]
    return dict(classes=classes, assocs=assocs, ids=ids, rows=rows, links=links)


def layout_cases(quick):
    """('layout', ...) and ('several', ...) cases, each ending with the route."""
    k = 0
    pops = POPS[:2] if quick else POPS
    for n in (2, 3):
        perms = PERMS[n]
        for si, sigma in enumerate(perms):
            for pj, pi in enumerate(perms):
                taus = perms if n == 2 and not quick else [perms[(si + pj + d) % len(perms)] for d in ((0,) if quick else (0, 2))]
                for tau in taus:
                    for pool, shape in (('F', 'simple'), ('F', 'reflexive'), ('K', 'simple')):
                        for types in (LAYOUT_TYPES[:3] if quick else LAYOUT_TYPES):
                            for pop in POPS[:2]:
                                k += 1
                                scard, tcard = LAYOUT_CARDS[k % len(LAYOUT_CARDS)]
                                routes = (STRING_ROUTES[k % 4], FILE_ROUTES[k % 3]) if quick else ROUTES
                                for route in routes:
                                    yield ('layout', shape, list(types[:n]), list(sigma), list(pi), list(tau), pool, scard, tcard,
                                           k % 3, pop, (k // 3) % 5, route)
    for n1, n2 in ((1, 1), (2, 2), (1, 2), (2, 1)):
        for naming in NAMINGS:
            if several_names(naming, n1, n2) is None:
                continue
            for first in (0, 1):
                for types in (SEVERAL_TYPES[:3] if quick else SEVERAL_TYPES):
                    for pop in pops:
                        for idv in ((None,) if quick else (0, 1, 2)):
                            k += 1
                            scard, tcard = LAYOUT_CARDS[k % len(LAYOUT_CARDS)]
                            routes = (STRING_ROUTES[k % 4], FILE_ROUTES[k % 3]) if quick else ROUTES
                            for route in routes:
                                yield ('several', n1, n2, list(types), naming, first, (k // 2) % 2, scard, tcard,
                                       k % 3 if idv is None else idv, pop, (k // 3) % 5, route)


def layout_case_desc(case):
    if case[0] == 'layout':
        return layout_desc(*case[1:-1])
    return several_desc(*case[1:-1])


# --------------------------------------------------------------------------------------------------- histories

HIST_TYPES_QUICK = [('INTEGER',), ('STRING', 'UNIQUE_ID'), ('REAL',)]
HIST_TYPES_ALL = [(t,) for t in G.CORE_TYPES] + [('STRING', 'UNIQUE_ID'), ('INTEGER', 'STRING'), ('UNIQUE_ID', 'BOOLEAN'),
                                                  ('REAL', 'REAL'), ('BOOLEAN', 'INTEGER')]
HIST_CARDS = [('MC', '1'), ('1C', '1C'), ('M', '1C'), ('1', '1'), ('MC', 'MC')]


def history_cases(quick):
    """(shape, key types, cards, identifiers, population, phrases, script, association index, origin, route); a
    script that does not apply to a base model (nothing to relink, no free row, ...) or that leaves the domain is
    skipped when the case is run."""
    k = 0
    for shape in SHAPES:
        for kt in (HIST_TYPES_QUICK if quick else HIST_TYPES_ALL):
            for pop in POPS[:2]:
                k += 1                                   # keeps the rotations below from locking onto the script
                for name in H.SCRIPTS:
                    for ai in ((0, 1) if name in H.PER_ASSOC and shape in ('assoc-class', 'chain', 'two-assocs', 'assoc-class-reflexive') else (0,)):
                        k += 1
                        cards = HIST_CARDS[k % 3:k % 3 + 1] if quick else [HIST_CARDS[(k + d) % 5] for d in (0, 1, 2)]
                        for ci, (scard, tcard) in enumerate(cards):
                            origins = [H.ORIGINS[(k + d) % 4] for d in (0, 1)] if quick else H.ORIGINS
                            for oi, origin in enumerate(origins):
                                if quick:
                                    routes = ((STRING_ROUTES + FILE_ROUTES)[(k // 2 + 3 * oi) % 7],)
                                else:
                                    routes = (STRING_ROUTES[(k + ci + oi) % 4], FILE_ROUTES[(k + ci) % 3])
                                for route in routes:
                                    yield (shape, list(kt), scard, tcard, (k + ci) % 3, pop, (k // 3) % 5, name, ai, origin, route)


# --------------------------------------------------------------------------------------------------- items

def well_formed(desc):
    """Names are case-insensitive in the library: a renaming that makes two classes, two attributes of a class or two
    identifiers of a class collide is not a model."""
    kinds = [c['kind'].upper() for c in desc['classes']]
    if len(set(kinds)) != len(kinds):
        return False
    for c in desc['classes']:
        names = [n.upper() for n, _ in c['attrs']]
        if len(set(names)) != len(names):
            return False
    idn = [(i['kind'].upper(), i['name']) for i in desc['ids']]
    return len(set(idn)) == len(idn)


def _drive(ctx, cases, to_desc, route_of, prefix=''):
    tmp = tempfile.mkdtemp(prefix='verif_c01_')
    try:
        for i, case in enumerate(cases):
            if i % ctx.nshards != ctx.shard:
                continue
            if ctx.expired():
                ctx.exhausted = False
                break
            desc = to_desc(case)
            route = route_of(case)
            if not well_formed(desc):
                continue
            ctx.case(key=case, nontrivial=bool(desc['rows']))
            for clause, observed, required in run_case(desc, route, tmp):
                ctx.check(False, clause=prefix + clause, input=dict(desc=desc, route=route), observed=observed, required=required)
        else:
            ctx.exhausted = True
    finally:
        shutil.rmtree(tmp, ignore_errors=True)


@item('values', stands_in_for=STANDS_IN, shards=3, weight=2,
      bound='one class, 0..3 attributes over the 5 core types (all 156 typings), 3 rows, every value of the alphabet '
            '(quotes, doubled quotes, --, newline, NUL, non-ASCII, negative and >64-bit integers, negative/large/tiny reals, '
            '128-bit ids, booleans, unset) at every position, upper/lower-case type names, with/without identifier; '
            '7 routes (quick: all routes for <=2 attributes, 2 rotating routes for 3 attributes); non-trivial = has rows')
def values(ctx):
    if ctx.shard == 0:
        ctx.note("not checked: '\\r' inside strings (text-mode files translate it), inf/nan reals (no literal in the format)")
    _drive(ctx, values_cases(ctx.quick), lambda c: values_desc(c[0], c[1], c[2], c[3]), lambda c: c[4])


@item('relationships', stands_in_for=STANDS_IN, shards=9, weight=3,
      bound='6 shapes (simple, reflexive with phrases, association class, association class on one class, chain with a '
            'referential identifier, two associations) x key typings (quick: 5 single + 5 pairs; thorough: 5 + 25) x 16 '
            'cardinality pairs x identifiers {none, I1, I1+I2} x population {all, partial, none linked}, 5 phrase sets '
            'rotating; <=3 classes, <=4 attributes, <=3 rows per class; referred keys distinct and never all-null; quick: 6 of '
            'the 9 (identifier, population) pairs and 2 rotating routes (one text, one file), thorough: all 9 and all 7 routes')
def relationships(ctx):
    if ctx.shard == 0:
        ctx.note('domain: an unlinked referring row is written with null referential values; referred rows whose whole '
                 'key equals the null of non-nullable types (0, 0.0, FALSE) are excluded because such a row would be '
                 'matched on reload')
    _drive(ctx, relationship_cases(ctx.quick), lambda c: rel_desc(*c[:7]), lambda c: c[7])


@item('keyword-identifiers', stands_in_for=STANDS_IN, shards=1, weight=1,
      bound='32 names (15 reserved words, M/MC/C spellings, type names, case variants, _ names) in each of 14 naming slots '
            '(class, attribute, key, referential, index names) of 3 shapes; plus all slots renamed to keywords at once (15 '
            'rotations); quick 3 routes, thorough 7')
def keyword_identifiers(ctx):
    _drive(ctx, keyword_cases(ctx.quick), lambda c: rel_desc(*c[:7], names=c[8]), lambda c: c[7])


@item('inferred-schema', stands_in_for=['xtuml.load.guess_type_name', 'xtuml.load.ModelLoader._populate_matching_class',
                                        'xtuml.persist.serialize_instances', 'xtuml.persist.persist_instances'], shards=1,
      bound='instances written without CREATE TABLE: classes whose attributes are named _0.._2 over the 4 non-boolean '
            'types (84 typings; quick: every 4th value round for 3 attributes), every alphabet value, no '
            'associations/identifiers; 2 routes')
def inferred_schema(ctx):
    if ctx.shard == 0:
        ctx.note('domain of the CREATE-TABLE-less route: positional names _i, no BOOLEAN, >=1 row per class, no '
                 'associations or identifiers (their statements need classes before any row is read)')
    _drive(ctx, inferred_cases(ctx.quick), lambda c: inferred_desc(c[0], c[1]), lambda c: c[2])


@item('key-layouts', stands_in_for=STANDS_IN + ['xtuml.persist.serialize_association', 'xtuml.load.ModelLoader.populate_connections'],
      shards=2, weight=2,
      bound='(a) one association over a 2- or 3-attribute key, simple and reflexive: every pairing of referential to '
            'identifying names (referential names sorting like / unlike the identifying ones, or spelled like identifying '
            'attributes of another position) x every listing order of the key pairs in the association, declaration order '
            'of the referential attributes rotating (thorough: all for 2, 2 for 3 attributes), 3 (thorough 5) key typings; '
            '(b) two or three associations into one class through two different identifiers of 1 or 2 attributes each, '
            'referential names of the referring ends distinct / equal / equal in reverse order / overlapping / spelled like '
            'the other identifier / like the referred attributes / in one referring class, either association defined '
            'first, 3 (thorough 4) typings; populations {all, partial} linked (thorough, (b): also none); 6 cardinality pairs, '
            'identifiers and phrases rotating; quick 2 rotating routes, thorough 7')
def key_layouts(ctx):
    _drive(ctx, layout_cases(ctx.quick), layout_case_desc, lambda c: c[-1])


@item('edited-after-load', stands_in_for=STANDS_IN + ['xtuml.persist.serialize_instance', 'xtuml.load.ModelLoader.populate_connections',
                                                       'xtuml.load.ModelLoader.populate_instances'], shards=3, weight=2,
      bound='the persisted model has a history: origin {built through the API, loaded from an independently written text, '
            'reloaded from a first round trip through the same route, instances created before their associations '
            '(define_association + batch_relate + formalize)} x one of 12 edit scripts through the public interface before '
            'writing (relink a referring row to another referred row, unlink one / all, link a free row, two rows swap '
            'their referred rows, write plain attributes, change the key of a referred row that is referred to, new referred '
            'row taking over a referring row, new referring row, delete a referring / a referred row after unrelating it, '
            'a mix of them; per association of the shape) x the 6 shapes of `relationships` x key typings (quick 3, '
            'thorough 10) x population {all, partial}; cardinality pairs (quick 1 of 3 rotating, thorough 3 of 5 rotating), identifiers '
            'and phrases rotating; quick: 2 rotating origins and 1 rotating route per case, thorough: 4 origins and 2 routes; '
            '<=11 edits; the model after the edits stays in the domain (referred keys distinct and never all-null, at most '
            'one referred row per referring row); oracle = the description after the edits; non-trivial = script applies')
def edited_after_load(ctx):
    if ctx.shard == 0:
        ctx.note('domain: an edit script that leaves a referred class with a null or duplicate key (e.g. unlinking the '
                 'middle class of the chain shape) is skipped; delete is applied to rows that were unrelated first '
                 '(delete of a linked instance belongs to C02)')
    tmp = tempfile.mkdtemp(prefix='verif_c01_')
    try:
        memo = {}
        for i, case in enumerate(history_cases(ctx.quick)):
            if i % ctx.nshards != ctx.shard:
                continue
            if ctx.expired():
                ctx.exhausted = False
                break
            shape, kt, scard, tcard, idv, pop, phr, name, ai, origin, route = case
            bk = (shape, tuple(kt), scard, tcard, idv, pop, phr, name, ai)
            if bk not in memo:
                memo.clear()
                desc0 = rel_desc(shape, kt, scard, tcard, idv, pop, phr)
                memo[bk] = (desc0, H.script(desc0, name, ai) if H.in_domain(desc0) else None)
            desc0, edits = memo[bk]
            if edits is None:
                continue
            ctx.case(key=case, nontrivial=True)
            for clause, observed, required in run_history_case(desc0, origin, edits, route, tmp):
                ctx.check(False, clause=clause, input=dict(desc=desc0, origin=origin, edits=edits, route=route),
                          observed=observed, required=required)
        else:
            ctx.exhausted = True
    finally:
        shutil.rmtree(tmp, ignore_errors=True)


@item('identifier-R-digits', stands_in_for=['xtuml.load.ModelLoader.t_RELID'], shards=1,
      bound='names R1, R2D2, R0, R12_x as class, key, referential, index and attribute name; 2 routes')
def identifier_r_digits(ctx):
    _drive(ctx, rdigit_cases(ctx.quick), lambda c: rel_desc(*c[:7], names=c[8]), lambda c: c[7], prefix='identifier-R-digits:')


@item('phrase-with-quote', stands_in_for=['xtuml.persist.serialize_association'], shards=1,
      bound='4 phrase pairs containing a quote on a simple and a reflexive association; 2 routes')
def phrase_with_quote(ctx):
    _drive(ctx, phrase_cases(ctx.quick), phrase_desc, lambda c: c[7], prefix='phrase-with-quote:')


PREFIX = {'identifier-R-digits': 'identifier-R-digits:', 'phrase-with-quote': 'phrase-with-quote:'}


def replay(item_name, input):
    tmp = tempfile.mkdtemp(prefix='verif_c01_')
    try:
        if 'origin' in input:
            res = run_history_case(input['desc'], input['origin'], input['edits'], input['route'], tmp)
        else:
            res = run_case(input['desc'], input['route'], tmp)
        return [dict(clause=PREFIX.get(item_name, '') + c, observed=o, required=r) for c, o, r in res]
    finally:
        shutil.rmtree(tmp, ignore_errors=True)
